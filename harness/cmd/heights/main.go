// Harness for engine `heights` (property C15): drives the REAL qbft controller + the REAL attester duty runner +
// the REAL validator start-up (`Validator.Start` -> `LoadHighestInstance`) over the REAL ibft/storage on an on-disk
// Badger DB, with histories of duty starts, decided messages (real BLS aggregates that pass `ValidateDecided`),
// compactions and restarts (new controller/runner/validator over the kept store, optionally with the DB closed and
// reopened). Every op line + the implementation's canonical observation is written for the diff against the Lean
// model; an implementation-side oracle (no model involved) checks the property itself.
//
// Nothing of the controller / runner / store logic is re-implemented here: only generators, the construction of
// messages with the spec test kit, canonical rendering of the real objects, and mocks of the external systems
// (beacon node = spec TestingBeaconNode, network = spec TestingNetwork + Subscribe, wall-clock timer = testing timer).
package main

import (
	"bytes"
	"context"
	"errors"
	"crypto/sha256"
	"fmt"
	"os"
	"sort"
	"strconv"
	"strings"

	specqbft "github.com/bloxapp/ssv-spec/qbft"
	specssv "github.com/bloxapp/ssv-spec/ssv"
	spectypes "github.com/bloxapp/ssv-spec/types"
	tu "github.com/bloxapp/ssv-spec/types/testingutils"
	"github.com/attestantio/go-eth2-client/spec"
	"github.com/attestantio/go-eth2-client/spec/phase0"
	"github.com/herumi/bls-eth-go-binary/bls"
	"go.uber.org/zap"

	ibftstorage "github.com/bloxapp/ssv/ibft/storage"
	"github.com/bloxapp/ssv/protocol/v2/qbft"
	"github.com/bloxapp/ssv/protocol/v2/qbft/controller"
	"github.com/bloxapp/ssv/protocol/v2/qbft/instance"
	"github.com/bloxapp/ssv/protocol/v2/qbft/roundtimer"
	qbftstorage "github.com/bloxapp/ssv/protocol/v2/qbft/storage"
	"github.com/bloxapp/ssv/protocol/v2/ssv/runner"
	"github.com/bloxapp/ssv/protocol/v2/ssv/validator"
	ssvtypes "github.com/bloxapp/ssv/protocol/v2/types"
	"github.com/bloxapp/ssv/storage/basedb"
	"github.com/bloxapp/ssv/storage/kv"
	"github.com/bloxapp/ssv/zz_verif/lib/hx"
)

const maxH = 12 // heights / slots of the generated histories are 0..maxH

var (
	logger = zap.NewNop()
	ks     = tu.Testing4SharesSet()
	share  = tu.TestingShare(ks)
	role   = spectypes.BNRoleAttester
	ident  spectypes.MessageID
)

// ---------------------------------------------------------------- external-system mocks

type subNet struct{ *tu.TestingNetwork }

func (subNet) Subscribe(spectypes.ValidatorPK) error { return nil }

// flakyStore is the real ibft/storage with an injectable write fault: while failWrites > 0 the next Save* call fails
// (disk full / badger conflict) instead of reaching the store. Reads and everything else go to the real store.
type flakyStore struct {
	qbftstorage.QBFTStore
	failWrites int
	failed     int
}

func (s *flakyStore) fail() bool {
	if s.failWrites > 0 {
		s.failWrites--
		s.failed++
		return true
	}
	return false
}

func (s *flakyStore) SaveInstance(i *qbftstorage.StoredInstance) error {
	if s.fail() {
		return errors.New("injected write failure")
	}
	return s.QBFTStore.SaveInstance(i)
}

func (s *flakyStore) SaveHighestInstance(i *qbftstorage.StoredInstance) error {
	if s.fail() {
		return errors.New("injected write failure")
	}
	return s.QBFTStore.SaveHighestInstance(i)
}

func (s *flakyStore) SaveHighestAndHistoricalInstance(i *qbftstorage.StoredInstance) error {
	if s.fail() {
		return errors.New("injected write failure")
	}
	return s.QBFTStore.SaveHighestAndHistoricalInstance(i)
}

// ---------------------------------------------------------------- values and decided messages (real BLS)

func dutyFor(slot int) *spectypes.Duty {
	d := tu.TestingAttesterDuty
	d.Slot = phase0.Slot(slot)
	copy(d.PubKey[:], share.ValidatorPubKey)
	return &d
}

// consensus datum of height h; rootID selects the attested block root, so that different ids give different values
func consensusData(h, rootID int) *spectypes.ConsensusData {
	ad := *tu.TestingAttestationData
	ad.Slot = phase0.Slot(h)
	ad.BeaconBlockRoot = phase0.Root{byte(rootID), byte(rootID >> 8), 0xC1, 0x5}
	b, err := ad.MarshalSSZ()
	if err != nil {
		panic(err)
	}
	return &spectypes.ConsensusData{Duty: *dutyFor(h), Version: spec.DataVersionPhase0, DataSSZ: b}
}

var rootIDs = map[[32]byte]int{}

// root ids from bigRootBase on denote values of about 400 KiB (campaign V, V-m12: a storage size limit silently loses the record)
const bigRootBase = 5000

func fullData(h, rootID int) ([]byte, [32]byte) {
	b, err := consensusData(h, rootID).Encode()
	if err != nil {
		panic(err)
	}
	if rootID >= bigRootBase {
		// a LARGE decided value (the size class of a full beacon block of a proposer duty): the stored instance record then
		// exceeds a megabyte. Only sent through Controller.ProcessMsg (the runner would have to decode it as consensus data).
		b = append(b, make([]byte, 400<<10)...)
	}
	r := sha256.Sum256(b)
	rootIDs[r] = rootID
	return b, r
}

func rootID(r [32]byte) int {
	if id, ok := rootIDs[r]; ok {
		return id
	}
	return 999999
}

var pool = map[string][]byte{}

// decidedMsg builds (once per run, then cached as bytes) the commit message of (h, round, root) aggregated from the
// real commit signatures of `signers`. valid=false: the signatures are made with the keys of other operators.
func decidedMsg(h, round, root int, signers []int, valid bool) *specqbft.SignedMessage {
	key := fmt.Sprint(h, round, root, signers, valid)
	enc, ok := pool[key]
	if !ok {
		fd, r := fullData(h, root)
		sks := make([]*bls.SecretKey, len(signers))
		ids := make([]spectypes.OperatorID, len(signers))
		for i, s := range signers {
			k := s
			if !valid {
				k = s%4 + 1
			}
			sks[i] = ks.Shares[spectypes.OperatorID(k)]
			ids[i] = spectypes.OperatorID(s)
		}
		m := tu.TestingCommitMultiSignerMessageWithParams(sks, ids, specqbft.Round(round), specqbft.Height(h), ident[:], r, fd)
		var err error
		if enc, err = m.Encode(); err != nil {
			panic(err)
		}
		pool[key] = enc
	}
	m := &specqbft.SignedMessage{}
	if err := m.Decode(enc); err != nil {
		panic(err)
	}
	return m
}

// ---------------------------------------------------------------- the node

type node struct {
	dir    string
	db     *kv.BadgerDB
	stores *ibftstorage.QBFTStores
	store  *flakyStore
	full   bool
	// lastHist: the historical records as rendered by the last observation (height -> record)
	lastHist map[int]*qbftstorage.StoredInstance
	// rejectVal makes the runner's/controller's value check reject (the local check changed its mind: slashing DB, beacon state)
	rejectVal bool
	cfg    *qbft.Config
	ctrl   *controller.Controller
	run    runner.Runner
	val    *validator.Validator
	cancel context.CancelFunc
}

func (n *node) openDB() {
	db, err := kv.New(logger, basedb.Options{Path: n.dir, Ctx: context.Background()})
	if err != nil {
		panic(err)
	}
	n.db = db
	n.store = &flakyStore{QBFTStore: ibftstorage.New(db, role.String())}
	n.stores = ibftstorage.NewStores()
	n.stores.Add(role, n.store)
}

// boot = a new process: new controller, new runner, new validator, Validator.Start
func (n *node) boot(full bool) {
	if n.val != nil {
		n.val.Stop()
	}
	n.full = full
	km := tu.NewTestingKeyManager()
	net := subNet{tu.NewTestingNetwork()}
	specCheck := specssv.AttesterValueCheckF(km, spectypes.BeaconTestNetwork, share.ValidatorPubKey, tu.TestingValidatorIndex, share.SharePubKey)
	n.rejectVal = false
	valCheck := func(data []byte) error {
		if n.rejectVal {
			return errors.New("value rejected by the local check")
		}
		return specCheck(data)
	}
	n.cfg = &qbft.Config{
		Signer: km, SigningPK: ks.Shares[1].GetPublicKey().Serialize(), Domain: tu.TestingSSVDomainType,
		ValueCheckF: valCheck, ProposerF: func(*specqbft.State, specqbft.Round) spectypes.OperatorID { return 1 }, Storage: n.store, Network: net,
		Timer: roundtimer.NewTestingTimer(), SignatureVerification: true,
	}
	n.ctrl = controller.NewController(ident[:], share, n.cfg, full)
	n.run = runner.NewAttesterRunnner(spectypes.BeaconTestNetwork, share, n.ctrl, tu.NewTestingBeaconNode(), net, km, valCheck, 0)
	ctx, cancel := context.WithCancel(context.Background())
	n.cancel = cancel
	n.val = validator.NewValidator(ctx, cancel, validator.Options{
		Network: net, Storage: n.stores, SSVShare: &ssvtypes.SSVShare{Share: *share}, Signer: km,
		DutyRunners: runner.DutyRunners{role: n.run}, FullNode: full,
	})
	if _, err := n.val.Start(logger); err != nil {
		panic(err)
	}
}

// ---------------------------------------------------------------- canonical rendering of the real objects

func b01(b bool) string {
	if b {
		return "1"
	}
	return "0"
}

func signersStr(s []spectypes.OperatorID) string {
	if len(s) == 0 {
		return "-"
	}
	o := make([]string, len(s))
	for i, x := range s {
		o[i] = strconv.FormatUint(x, 10)
	}
	return strings.Join(o, ".")
}

func msgStr(m *specqbft.SignedMessage) string {
	return fmt.Sprintf("%d/%d/%s", m.Message.Round, rootID(m.Message.Root), signersStr(m.Signers))
}

func stateStr(st *specqbft.State, stopped bool) string {
	var rounds []int
	if st.CommitContainer != nil {
		for r := range st.CommitContainer.Msgs {
			rounds = append(rounds, int(r))
		}
	}
	sort.Ints(rounds)
	var ms []string
	for _, r := range rounds {
		for _, m := range st.CommitContainer.Msgs[specqbft.Round(r)] {
			ms = append(ms, msgStr(m))
		}
	}
	acc := "-"
	if st.ProposalAcceptedForCurrentRound != nil {
		acc = strconv.Itoa(rootID(st.ProposalAcceptedForCurrentRound.Message.Root))
	}
	return fmt.Sprintf("%d:%d:%s:%s:%s:[%s]", st.Height, st.Round, b01(st.Decided), b01(stopped), acc, strings.Join(ms, ";"))
}

func storedStr(s *qbftstorage.StoredInstance) string {
	if s == nil {
		return "-"
	}
	return stateStr(s.State, false) + "#" + msgStr(s.DecidedMessage)
}

func (n *node) highest() *qbftstorage.StoredInstance {
	s, err := n.store.GetHighestInstance(ident[:])
	if err != nil {
		panic(err)
	}
	return s
}

func (n *node) obs() string {
	var is []string
	for _, i := range n.ctrl.StoredInstances {
		is = append(is, stateStr(i.State, !i.CanProcessMessages()))
	}
	duty, running, rdec, hasVal := "-", "-", false, false
	if st := n.run.GetBaseRunner().State; st != nil {
		duty = strconv.Itoa(int(st.StartingDuty.Slot))
		hasVal = st.DecidedValue != nil
		if st.RunningInstance != nil {
			running = strconv.Itoa(int(st.RunningInstance.GetHeight()))
			rdec, _ = st.RunningInstance.IsDecided()
		}
	}
	hist, err := n.store.GetInstancesInRange(ident[:], 0, maxH+2)
	if err != nil {
		panic(err)
	}
	var xs []string
	n.lastHist = map[int]*qbftstorage.StoredInstance{}
	for _, s := range hist {
		xs = append(xs, fmt.Sprintf("%d=%s", s.State.Height, storedStr(s)))
		n.lastHist[int(s.State.Height)] = s
	}
	return fmt.Sprintf("H=%d I=%s R=%s/%s/%s/%s/%d S=%s X=%s", n.ctrl.Height, strings.Join(is, ","), duty, running, b01(rdec), b01(hasVal),
		runner.VerifHeightsHighestDecidedSlot(n.run), storedStr(n.highest()), strings.Join(xs, ","))
}

// ---------------------------------------------------------------- property oracle (implementation side, no model)

type oracle struct {
	seen          map[int]bool // heights started or learned decided since the last restart (+ stored highest at restart)
	started       map[int]bool
	reloadLearned map[int]bool // learned decided while only the historical store (not the memory) had the instance
	writeFailed   map[int]bool // a store write for this height failed in this process (injected storage fault)
	lines         []string     // op lines of the current case
}

func (o *oracle) newProcess(stored *qbftstorage.StoredInstance) {
	o.seen, o.started, o.reloadLearned, o.writeFailed = map[int]bool{}, map[int]bool{}, map[int]bool{}, map[int]bool{}
	if stored != nil {
		o.seen[int(stored.State.Height)] = true
	}
}

func (o *oracle) replay() []string { return append([]string(nil), o.lines...) }

// consensus was started for `slot`: every height seen so far must be below it
func (o *oracle) consensusStarted(run *hx.Run, slot int) {
	worst := -1
	for h := range o.seen {
		if h >= slot && h > worst {
			worst = h
		}
	}
	if worst >= 0 {
		sig := "C15/duty-at-or-below-seen-height-started"
		switch {
		case worst == slot && o.reloadLearned[slot] && !o.started[slot]:
			sig = "C15/decided-height-rerun-after-full-node-storage-reload"
		case worst == slot:
			sig = "C15/seen-height-started-again"
		}
		run.Violate(sig, fmt.Sprintf("consensus started for slot %d although height %d was already started or learned decided since the last restart (or stored as highest at restart)", slot, worst), o.replay()...)
	}
	o.seen[slot], o.started[slot] = true, true
}

func signerCount(s *qbftstorage.StoredInstance) int { return len(s.DecidedMessage.Signers) }

// the highest record changed from a to b by one step of a running process
func (o *oracle) highestChanged(run *hx.Run, a, b *qbftstorage.StoredInstance) {
	if a == nil {
		return
	}
	if b == nil {
		run.Violate("C15/highest-record-lost", "the highest record disappeared", o.replay()...)
		return
	}
	ha, hb := a.State.Height, b.State.Height
	if hb < ha {
		run.Violate("C15/highest-height-decreased", fmt.Sprintf("highest record went from height %d to %d", ha, hb), o.replay()...)
		return
	}
	if hb > ha {
		run.Tag("highest:higher-height")
		return
	}
	ma, mb := a.DecidedMessage, b.DecidedMessage
	if msgStr(ma) == msgStr(mb) {
		return
	}
	if ma.Message.Root != mb.Message.Root {
		// two quorum certificates for different values at one height need more than f faulty signers: outside the
		// fault assumption of the property; recorded, not judged
		run.Tag("highest:other-root-same-height")
		return
	}
	ka, kb := signerCount(a), signerCount(b)
	if kb > ka {
		run.Tag("highest:more-signers")
		return
	}
	cmp := "fewer"
	if kb == ka {
		cmp = "equal"
	}
	where := "same-round"
	if ma.Message.Round != mb.Message.Round {
		where = "other-round"
	} else if ma.Message.Round < a.State.Round {
		// the replaced certificate's round is below the stored instance's State.Round: its commit-container bucket is
		// the part Compact/CompactCopy trims away
		where = "same-round-trimmed-bucket"
	}
	run.Violate("C15/stored-cert-replaced-by-"+cmp+"-signers-"+where,
		fmt.Sprintf("height %d: stored certificate (round %d, %d signers %s) replaced by (round %d, %d signers %s); stored State.Round=%d",
			ha, ma.Message.Round, ka, signersStr(ma.Signers), mb.Message.Round, kb, signersStr(mb.Signers), a.State.Round), o.replay()...)
}

// a historical record (keyed by height) changed from a to b by one step: same rule as for the highest record
func (o *oracle) histChanged(run *hx.Run, before, after map[int]*qbftstorage.StoredInstance) {
	for h, a := range before {
		b := after[h]
		switch {
		case b == nil:
			run.Violate("C15/historical-record-lost", fmt.Sprintf("the historical record of height %d disappeared", h), o.replay()...)
		case msgStr(a.DecidedMessage) == msgStr(b.DecidedMessage):
		case a.DecidedMessage.Message.Root != b.DecidedMessage.Message.Root:
			run.Tag("historical:other-root-same-height") // > f faulty signers: not judged
		case signerCount(b) > signerCount(a):
			run.Tag("historical:more-signers")
		default:
			run.Violate("C15/historical-record-replaced-without-more-signers",
				fmt.Sprintf("height %d: historical certificate %s replaced by %s", h, msgStr(a.DecidedMessage), msgStr(b.DecidedMessage)), o.replay()...)
		}
	}
}

// ---------------------------------------------------------------- ops

type harness struct {
	run *hx.Run
	n   *node
	o   *oracle
}

func atoi(s string) int {
	i, err := strconv.Atoi(s)
	if err != nil {
		panic("bad number " + s)
	}
	return i
}

func kvs(ws []string) map[string]string {
	m := map[string]string{}
	for _, w := range ws {
		if i := strings.IndexByte(w, '='); i > 0 {
			m[w[:i]] = w[i+1:]
		}
	}
	return m
}

func parseSigners(s string) []int {
	if s == "-" || s == "" {
		return nil
	}
	var o []int
	for _, p := range strings.Split(s, ".") {
		o = append(o, atoi(p))
	}
	return o
}

func signersOut(s []int) string {
	if len(s) == 0 {
		return "-"
	}
	o := make([]string, len(s))
	for i, x := range s {
		o[i] = strconv.Itoa(x)
	}
	return strings.Join(o, ".")
}

func (h *harness) emit(op, out string) {
	h.run.Emit(op, out+" "+h.n.obs())
}

// do applies one op line to the real node; the op line written out is canonical (real `ok` fact filled in)
func (h *harness) do(line string) {
	ws := strings.Fields(line)
	if len(ws) == 0 {
		return
	}
	n, o, run := h.n, h.o, h.run
	switch ws[0] {
	case "reset":
		a := kvs(ws[1:])
		full := a["full"] == "1"
		if n.db == nil {
			n.openDB()
		}
		if n.val != nil {
			n.val.Stop()
			n.val = nil
		}
		if err := n.store.CleanAllInstances(logger, ident[:]); err != nil {
			panic(err)
		}
		if n.highest() != nil {
			run.Violate("C15/clean-left-highest", "CleanAllInstances left a highest record", line)
		}
		n.boot(full)
		o.lines = nil
		o.newProcess(nil)
		op := fmt.Sprintf("reset full=%s q=%d", b01(full), share.Quorum)
		if a["old"] == "1" || os.Getenv("VERIF_HEIGHTS_OLD") == "1" {
			op += " old=1" // tells the model driver to use the semantics before the fixes 358626700/26e2e6b00 (manual old-vs-new runs only)
		}
		o.lines = append(o.lines, op)
		run.Tag("reset:full=" + b01(full))
		h.emit(op, "ready")
		return
	}
	if n.ctrl == nil {
		panic("op before reset: " + line)
	}
	before := n.highest()
	histBefore := n.lastHist
	switch ws[0] {
	case "start":
		slot := atoi(ws[1])
		d := dutyFor(slot)
		guard := n.run.GetBaseRunner().ShouldProcessDuty(d) != nil
		err := n.run.StartNewDuty(logger, d)
		out := "ok"
		switch {
		case err == nil:
		case guard:
			out = "guard"
		default:
			out = "refused"
		}
		o.lines = append(o.lines, line)
		if err == nil {
			o.consensusStarted(run, slot)
		}
		run.Tag("start:" + out)
		run.Seen(fmt.Sprintf("start/%s/full=%v/rel=%d", out, n.full, sign(slot-int(n.ctrl.Height))))
		h.emit(line, out)
	case "begin":
		slot := atoi(ws[1])
		err := runner.VerifHeightsBeginDuty(logger, n.run, dutyFor(slot))
		out := "ok"
		if err != nil {
			out = "guard"
		}
		o.lines = append(o.lines, line)
		run.Tag("begin:" + out)
		h.emit(line, out)
	case "decide":
		out := "noduty"
		if runner.VerifHeightsHasDuty(n.run) {
			slot := int(n.run.GetBaseRunner().State.StartingDuty.Slot)
			err := runner.VerifHeightsDecide(logger, n.run, consensusData(slot, 100+2*slot))
			out = "ok"
			if err != nil {
				out = "refused"
			}
			o.lines = append(o.lines, line)
			if err == nil {
				o.consensusStarted(run, slot)
			}
		} else {
			o.lines = append(o.lines, line)
		}
		run.Tag("decide:" + out)
		run.Seen(fmt.Sprintf("decide/%s/full=%v", out, n.full))
		h.emit(line, out)
	case "decided":
		a := kvs(ws[1:])
		ht, rd, root, sg := atoi(a["h"]), atoi(a["r"]), atoi(a["root"]), parseSigners(a["s"])
		msg := decidedMsg(ht, rd, root, sg, a["ok"] != "0")
		isDecided := controller.IsDecidedMsg(share, msg)
		// the `ok` fact: identifier + ValidateDecided for a decided message; identifier + BaseCommitValidation (type, height,
		// signers, signature) for a commit below quorum, which takes the ordinary commit path
		ok := n.ctrl.BaseMsgValidation(msg) == nil
		if isDecided {
			ok = ok && controller.ValidateDecided(n.cfg, msg, share) == nil
		} else {
			ok = ok && instance.BaseCommitValidation(n.cfg, msg, msg.Message.Height, share.Committee) == nil
		}
		op := fmt.Sprintf("decided h=%d r=%d root=%d s=%s ok=%s via=%s", ht, rd, root, signersOut(sg), b01(ok), a["via"])
		storeFail := a["sf"] == "1"
		if storeFail {
			op += " sf=1" // the store fails the first Save* call it receives during this op
			n.store.failWrites = 1
			run.Tag("decided:store-write-fails")
		}
		o.lines = append(o.lines, op)
		inMem := n.ctrl.StoredInstances.FindInstance(specqbft.Height(ht)) != nil
		inHist := false
		if n.full {
			si, err := n.store.GetInstance(ident[:], specqbft.Height(ht))
			inHist = err == nil && si != nil
		}
		rel := sign(ht - int(n.ctrl.Height))
		heightBefore := int(n.ctrl.Height)
		var out string
		if a["via"] == "r" {
			if err := n.run.ProcessConsensus(logger, msg); err != nil {
				out = "rerr"
			} else {
				out = "rok"
			}
		} else {
			ret, err := n.ctrl.ProcessMsg(logger, msg)
			switch {
			case err != nil:
				out = "err"
			case ret != nil:
				out = "new"
			default:
				out = "dup"
			}
		}
		if storeFail {
			if n.store.failWrites == 0 {
				run.Tag("decided:store-write-failed")
				o.writeFailed[ht] = true
			}
			n.store.failWrites = 0
		}
		if ok && isDecided {
			o.seen[ht] = true
			reloaded := !inMem && inHist && n.ctrl.StoredInstances.FindInstance(specqbft.Height(ht)) == nil
			if reloaded {
				o.reloadLearned[ht] = true
				run.Tag("decided:reloaded-from-history")
			}
			// "save as highest only if height >= current": a valid decided message at or above the controller height must
			// end up as the stored highest (otherwise the highest decided instance cannot survive a restart)
			// (not judged for a height whose write was made to fail earlier in this process: the instance is decided in
			// memory, so a re-delivered certificate is "not new" and the lost write is not repeated — a consequence of
			// the injected storage fault, outside the property's assumption of a reliable store)
			if ht >= heightBefore && !storeFail && o.writeFailed[ht] {
				run.Tag("decided:after-failed-write-not-judged")
			}
			if ht >= heightBefore && !storeFail && !o.writeFailed[ht] {
				if hi := n.highest(); hi == nil || int(hi.State.Height) < ht {
					sig := "C15/top-decided-not-stored-as-highest"
					if reloaded {
						sig = "C15/top-decided-not-stored-after-full-node-storage-reload"
					}
					run.Violate(sig, fmt.Sprintf("valid decided message for height %d (controller height was %d) is not reflected in the highest record %s",
						ht, heightBefore, storedStr(hi)), o.replay()...)
				}
			}
		}
		run.Tag("decided:" + out)
		if !isDecided {
			run.Tag("decided:below-quorum:" + out)
		}
		run.Tag(fmt.Sprintf("decided:rel=%d", rel))
		run.Seen(fmt.Sprintf("decided/%s/full=%v/rel=%d/mem=%v/hist=%v/k=%d/r=%d", out, n.full, rel, inMem, inHist, len(sg), rd))
		h.emit(op, out)
	case "commits":
		// the running instance decides through individual messages (proposal, prepares, commits of operators 1..quorum)
		// delivered to the runner's ProcessConsensus; vc=0: the runner's value check rejects from just before the
		// quorum-completing commit on
		a := kvs(ws[1:])
		root, vc := atoi(a["root"]), a["vc"] != "0"
		op := fmt.Sprintf("commits root=%d vc=%s", root, b01(vc))
		o.lines = append(o.lines, op)
		out := "na"
		st := n.run.GetBaseRunner().State
		if st != nil && st.RunningInstance != nil {
			ri := st.RunningInstance
			rh := ri.GetHeight()
			fresh := n.ctrl.StoredInstances.FindInstance(rh) == ri && !ri.State.Decided && len(ri.State.CommitContainer.AllMessaged()) == 0 &&
				ri.CanProcessMessages() && ri.State.Round == specqbft.FirstRound && ri.State.ProposalAcceptedForCurrentRound == nil
			if fresh {
				heightBefore := int(n.ctrl.Height)
				fd, r := fullData(int(rh), root)
				msgs := tu.SSVDecidingMsgsForHeightWithRoot(r, fd, ident[:], rh, ks)
				out = "cok"
				for k, m := range msgs {
					last := k == len(msgs)-1
					if last {
						n.rejectVal = !vc
					}
					err := n.run.ProcessConsensus(logger, m)
					if err != nil && !last {
						out = "cbad"
					} else if err != nil {
						out = "cerr"
					}
				}
				n.rejectVal = false
				if dec, _ := ri.IsDecided(); dec {
					// this runner decided height rh itself (it signed prepare and commit for it)
					o.seen[int(rh)] = true
					if int(rh) >= heightBefore {
						if hi := n.highest(); hi == nil || hi.State.Height < rh {
							run.Violate("C15/top-decided-not-stored-as-highest", fmt.Sprintf("the running instance of height %d decided by a commit quorum but is not reflected in the highest record %s",
								rh, storedStr(hi)), o.replay()...)
						}
					}
				} else {
					out = "cbad"
				}
			}
		}
		run.Tag("commits:" + out)
		run.Seen(fmt.Sprintf("commits/%s/full=%v", out, n.full))
		h.emit(op, out)
	case "compact":
		ht := atoi(ws[1])
		runner.VerifHeightsCompact(n.run, decidedMsg(ht, 1, 100+2*ht, []int{1, 2, 3}, true))
		o.lines = append(o.lines, line)
		run.Tag("compact")
		h.emit(line, "done")
	case "restart":
		a := kvs(ws[1:])
		full := a["full"] == "1"
		reopen := a["reopen"] == "1"
		beforeStr := storedStr(before)
		if reopen {
			n.val.Stop()
			n.val = nil
			if err := n.db.Close(); err != nil {
				panic(err)
			}
			n.openDB()
		}
		op := fmt.Sprintf("restart full=%s reopen=%s", b01(full), b01(reopen))
		o.lines = append(o.lines, op)
		after := n.highest()
		if storedStr(after) != beforeStr {
			run.Violate("C15/highest-not-surviving-restart", "highest record before restart "+beforeStr+" after "+storedStr(after), o.replay()...)
		}
		n.boot(full)
		o.newProcess(after)
		out := "empty"
		if after != nil {
			out = "loaded"
			if n.ctrl.Height != after.State.Height {
				run.Violate("C15/restart-height-mismatch", fmt.Sprintf("after restart the controller height is %d, the stored highest is %d", n.ctrl.Height, after.State.Height), o.replay()...)
			}
		}
		run.Tag("restart:" + out)
		run.Tag("restart:reopen=" + b01(reopen))
		run.Seen(fmt.Sprintf("restart/%s/full=%v/reopen=%v", out, full, reopen))
		h.emit(op, out)
		return // the store is not changed by a restart (checked above); no replacement to judge
	default:
		panic("unknown op: " + line)
	}
	o.highestChanged(run, before, n.highest())
	o.histChanged(run, histBefore, n.lastHist)
}

func sign(x int) int {
	switch {
	case x < 0:
		return -1
	case x > 0:
		return 1
	}
	return 0
}

// ---------------------------------------------------------------- generator

var subsets = [][]int{{1, 2, 3}, {1, 2, 4}, {1, 3, 4}, {2, 3, 4}, {1, 2, 3, 4}}

func clampH(x int) int {
	if x < 0 {
		return 0
	}
	if x > maxH {
		return maxH
	}
	return x
}

func (h *harness) genCase(r *hx.Rng) {
	full := r.Bool()
	h.do(fmt.Sprintf("reset full=%s", b01(full)))
	steps := 6 + r.Intn(22)
	lowStart := r.Chance(25) // a share of the cases stays around height 0 (the Height != 0 special case)
	via := func() string {
		if r.Chance(40) {
			return "r"
		}
		return "c"
	}
	// scripted openings that reach the deep states random walks rarely hit; the random walk continues from there
	switch t := r.Intn(13); t {
	case 0, 1: // a decided message for a past height (started-but-undecided height above it), restart, the height again
		lo := r.Intn(maxH - 3)
		if lowStart {
			lo = 0
		}
		hi := lo + 1 + r.Intn(3)
		h.run.Tag("script:late-decided-restart")
		h.do(fmt.Sprintf("start %d", hi))
		h.do(fmt.Sprintf("decided h=%d r=1 root=%d s=%s ok=1 via=%s", lo, 100+2*lo, signersOut(subsets[r.Intn(len(subsets))]), via()))
		h.do(fmt.Sprintf("restart full=%s reopen=%s", b01(full), b01(r.Chance(20))))
		if t == 0 {
			h.do(fmt.Sprintf("begin %d", lo))
		}
		h.do(fmt.Sprintf("decided h=%d r=%d root=%d s=%s ok=1 via=%s", lo, 1+r.Intn(2), 100+2*lo, signersOut(subsets[r.Intn(len(subsets))]), via()))
		if t == 0 {
			h.do("decide")
		} else {
			h.do(fmt.Sprintf("start %d", lo))
		}
	case 4: // a future decided message arrives during a failing store write; duties in between must still be refused
		lo := 1 + r.Intn(5)
		hi := lo + 2 + r.Intn(4)
		h.run.Tag("script:future-decided-store-fails")
		h.do(fmt.Sprintf("start %d", lo))
		h.do(fmt.Sprintf("decided h=%d r=1 root=%d s=%s ok=1 via=%s sf=1", hi, 100+2*hi, signersOut(subsets[r.Intn(len(subsets))]), via()))
		h.do(fmt.Sprintf("start %d", lo+1+r.Intn(hi-lo)))
	case 5: // the running instance decides by a commit quorum while the local value check rejects; restart; the same slot again
		ht := r.Intn(maxH)
		h.run.Tag("script:commit-quorum-valcheck-restart")
		h.do(fmt.Sprintf("start %d", ht))
		h.do(fmt.Sprintf("commits root=%d vc=%d", 100+2*ht, r.Intn(2)))
		h.do(fmt.Sprintf("restart full=%s reopen=%s", b01(full), b01(r.Chance(20))))
		h.do(fmt.Sprintf("start %d", ht))
	case 6: // single commits (below quorum) for an instance that decided through the commit exchange: duplicate / one more commit
		ht := r.Intn(maxH)
		h.run.Tag("script:single-commits-after-quorum")
		h.do(fmt.Sprintf("start %d", ht))
		h.do(fmt.Sprintf("commits root=%d vc=1", 100+2*ht))
		h.do(fmt.Sprintf("decided h=%d r=1 root=%d s=%d ok=1 via=%s", ht, 100+2*ht, 1+r.Intn(4), via()))
		h.do(fmt.Sprintf("decided h=%d r=1 root=%d s=4 ok=1 via=%s", ht, 100+2*ht, via()))
		if r.Bool() {
			h.do(fmt.Sprintf("start %d", ht+1+r.Intn(2)))
		}
		h.do(fmt.Sprintf("restart full=%s reopen=%s", b01(full), b01(r.Chance(20))))
		okv := 1
		if r.Chance(10) {
			okv = 0
		}
		h.do(fmt.Sprintf("decided h=%d r=%d root=%d s=%d ok=%d via=%s", ht, 1+r.Intn(2), 100+2*ht+r.Intn(2)*r.Intn(2), 1+r.Intn(4), okv, via()))
	case 2, 3: // certificates of several rounds for one height, compaction or restart in between
		ht := 1 + r.Intn(maxH-1)
		h.run.Tag("script:multi-round-certs")
		if r.Bool() {
			h.do(fmt.Sprintf("start %d", ht))
		}
		v := via()
		h.do(fmt.Sprintf("decided h=%d r=%d root=%d s=%s ok=1 via=%s", ht, 2+r.Intn(2), 100+2*ht, signersOut(subsets[r.Intn(len(subsets))]), v))
		h.do(fmt.Sprintf("decided h=%d r=1 root=%d s=1.2.3.4 ok=1 via=%s", ht, 100+2*ht, v))
		switch r.Intn(3) {
		case 0:
			h.do(fmt.Sprintf("compact %d", ht))
		case 1:
			h.do(fmt.Sprintf("restart full=%s reopen=%s", b01(full), b01(r.Chance(20))))
		}
		h.do(fmt.Sprintf("decided h=%d r=%d root=%d s=%s ok=1 via=%s", ht, 1+r.Intn(2), 100+2*ht, signersOut(subsets[r.Intn(4)]), v))
	}
	for i := 0; i < steps; i++ {
		cur := int(h.n.ctrl.Height)
		near := func() int {
			if lowStart && r.Chance(60) {
				return r.Intn(2)
			}
			return clampH(cur - 3 + r.Intn(7))
		}
		switch c := r.Intn(100); {
		case c < 20:
			h.do(fmt.Sprintf("start %d", near()))
		case c < 27:
			h.do(fmt.Sprintf("begin %d", near()))
		case c < 32:
			h.do("decide")
		case c < 38:
			vc := 1
			if r.Chance(35) {
				vc = 0
			}
			h.do(fmt.Sprintf("commits root=%d vc=%d", 100+2*cur, vc))
		case c < 80:
			ht := near()
			sg := subsets[r.Intn(len(subsets))]
			if r.Chance(9) {
				// below quorum: not a decided message; takes the ordinary commit path (a single signer can be accepted by an
				// instance that ran the proposal/prepare/commit exchange: duplicate, or one more commit)
				sg = [][]int{{1, 2}, {3}, {2, 4}, {4}, {1}, {4}}[r.Intn(6)]
			}
			root := 100 + 2*ht
			if r.Chance(3) {
				root++ // a second value at the same height (needs > f faulty signers; exercised for the tie, not judged)
			}
			ok := 1
			if r.Chance(5) {
				ok = 0
			}
			sf := ""
			if r.Chance(8) {
				sf = " sf=1"
			}
			rd := 1 + r.Intn(3)
			if len(sg) == 1 && r.Chance(70) {
				rd = 1
			}
			v := via()
			if r.Chance(4) {
				root, v = bigRootBase+2*ht, "c"
				h.run.Tag("decided:large-value")
			}
			h.do(fmt.Sprintf("decided h=%d r=%d root=%d s=%s ok=%d via=%s%s", ht, rd, root, signersOut(sg), ok, v, sf))
		case c < 87:
			h.do(fmt.Sprintf("compact %d", near()))
		default:
			f := full
			if r.Chance(12) {
				f = !f
			}
			full = f
			h.do(fmt.Sprintf("restart full=%s reopen=%s", b01(f), b01(r.Chance(15))))
		}
	}
}

func main() {
	run := hx.Start()
	defer run.Finish()
	ident = spectypes.NewMsgID(ssvtypes.GetDefaultDomain(), share.ValidatorPubKey, role)
	dir, err := os.MkdirTemp("", "verif-heights-")
	if err != nil {
		panic(err)
	}
	defer os.RemoveAll(dir)
	h := &harness{run: run, n: &node{dir: dir}, o: &oracle{}}
	defer func() {
		if h.n.val != nil {
			h.n.val.Stop()
		}
		if h.n.db != nil {
			_ = h.n.db.Close()
		}
	}()
	if !bytes.Equal(h.identCheck(), ident[:]) {
		panic("identifier mismatch")
	}
	if lines := run.ReplayLines(); lines != nil {
		for _, l := range lines {
			h.do(l)
		}
		return
	}
	r := hx.NewRng(run.Seed)
	for i := 0; i < run.N; i++ {
		h.genCase(r)
	}
	run.Extra["decided_messages_built"] = len(pool)
}

// the identifier Validator.Start derives for the runner must be the controller's
func (h *harness) identCheck() []byte {
	id := spectypes.NewMsgID(ssvtypes.GetDefaultDomain(), share.ValidatorPubKey, role)
	return id[:]
}

var _ = instance.Compact
