#!/usr/bin/env python3
"""Manual experiment (NOT part of bin/check): random search on the Lean model driver for violations of the FULL clauses
of C15, on the model of the pinned tree (old=1: semantics before the fixes 358626700/26e2e6b00, must find the three defects) and on the model of the current tree (old=0).
usage: repaired_model_search.py <old 0|1> <cases> [seed]
Checks, on the model's own observations:
  clause 1: a consensus start (start/decide -> ok) for slot s while a height >= s was started / learned decided since the
            last restart or was the stored highest at that restart;
  clause 2b: a valid decided message at or above the controller height is not reflected in the highest record;
  clause 3: the highest record changes to a lower height, disappears, or changes certificate at the same height without
            more signers (same root only)."""
import random, subprocess, sys, re
old, cases = sys.argv[1], int(sys.argv[2])
rnd = random.Random(int(sys.argv[3]) if len(sys.argv) > 3 else 1)
Q = [[1,2,3],[1,2,4],[1,3,4],[2,3,4],[1,2,3,4]]
lines = []
for _ in range(cases):
    full = rnd.randint(0, 1)
    lines.append(f"reset full={full} q=3 old={old}")
    cur = 0
    for _ in range(rnd.randint(6, 30)):
        near = lambda: max(0, min(12, cur - 3 + rnd.randint(0, 6))) if rnd.random() > .15 else rnd.randint(0, 1)
        c = rnd.random()
        if c < .2: lines.append(f"start {near()}")
        elif c < .27: lines.append(f"begin {near()}")
        elif c < .34: lines.append("decide")
        elif c < .8:
            h = near(); sg = rnd.choice(Q) if rnd.random() > .04 else [1, 2]
            lines.append(f"decided h={h} r={rnd.randint(1,3)} root={100+2*h} s={'.'.join(map(str,sg))} ok={0 if rnd.random()<.05 else 1} via={'r' if rnd.random()<.4 else 'c'}")
            cur = max(cur, h) if rnd.random() < .5 else cur
        elif c < .87: lines.append(f"compact {near()}")
        else:
            if rnd.random() < .12: full = 1 - full
            lines.append(f"restart full={full} reopen=0")
out = subprocess.run(["/verif/lean/.lake/build/bin/m_heights"], input="\n".join(lines) + "\n", capture_output=True, text=True).stdout.splitlines()
assert len(out) == len(lines)
def hi(obs):
    m = re.search(r" S=(\S+) X=", obs).group(1)
    if m == "-": return None
    inst, cert = m.split("#")
    r, root, sg = cert.split("/")
    return (int(inst.split(":")[0]), int(r), int(root), len(sg.split(".")), cert)
viol = {}
seen, case, prev, Hprev = set(), [], None, 0
for op, obs in zip(lines, out):
    w = op.split(); res = obs.split()[0]; H = int(re.search(r"H=(\d+)", obs).group(1)); cur_hi = hi(obs)
    if w[0] == "reset": seen, case, prev, Hprev = set(), [op], None, 0; continue
    case.append(op)
    def v(sig): viol.setdefault(sig, list(case))
    if w[0] in ("start", "decide") and res == "ok":
        slot = int(w[1]) if w[0] == "start" else int(re.search(r"R=(\d+)/", obs).group(1))
        if any(h >= slot for h in seen): v("clause1:consensus-start-at-or-below-seen")
        seen.add(slot)
    if w[0] == "decided":
        a = dict(x.split("=") for x in w[1:])
        if a["ok"] == "1" and len(a["s"].split(".")) >= 3:
            h = int(a["h"]); seen.add(h)
            if h >= Hprev and (cur_hi is None or cur_hi[0] < h): v("clause2:top-decided-not-stored")
    if w[0] == "restart":
        seen = {cur_hi[0]} if cur_hi else set()
    elif prev is not None:
        if cur_hi is None: v("clause3:lost")
        elif cur_hi[0] < prev[0]: v("clause3:height-decreased")
        elif cur_hi[0] == prev[0] and cur_hi[4] != prev[4] and cur_hi[2] == prev[2] and cur_hi[3] <= prev[3]: v("clause3:not-more-signers")
    prev, Hprev = cur_hi, H
print(f"old={old}: {cases} cases, {len(lines)} ops; violations of the full clauses: {sorted(viol) or 'none'}")
for k, c in viol.items(): print("  ", k, "|", " ; ".join(c[-8:]))
