package main

// Mode `-mode ncv` (additional engine of property C02, implementation-side oracle only): the REAL NonCommitteeValidator, built by
// its production constructor validator.NewNonCommitteeValidator (exporter / non-exporter, full / light node) over real per-role
// stores on an in-memory Badger DB, receives through its real ProcessMessage a sequence of decided messages: genuine quorum
// certificates and forged ones (aggregate signed with foreign keys, sub-quorum, repeated signer, foreign signer id, full data
// not matching the root). Oracle (C02): everything reported through NewDecidedHandler, and the stored highest instance after
// every message, re-verifies as a quorum certificate (distinct committee signers >= quorum, aggregate verifies under their
// registered keys over the message root, H(full data) = root). Nothing here uses the Lean model.
//
//	ncase exporter=<0|1> full=<0|1> seq=<kind>:<height>,...     kind in good | badsig | sub | dup | foreign | baddata

import (
	"strconv"
	"strings"

	specqbft "github.com/bloxapp/ssv-spec/qbft"
	spectypes "github.com/bloxapp/ssv-spec/types"
	"github.com/herumi/bls-eth-go-binary/bls"
	"go.uber.org/zap"

	ibftstorage "github.com/bloxapp/ssv/ibft/storage"
	"github.com/bloxapp/ssv/protocol/v2/ssv/queue"
	"github.com/bloxapp/ssv/protocol/v2/ssv/validator"
	protocoltesting "github.com/bloxapp/ssv/protocol/v2/testing"
	ssvtypes "github.com/bloxapp/ssv/protocol/v2/types"
	"github.com/bloxapp/ssv/storage/basedb"
	"github.com/bloxapp/ssv/storage/kv"
	"github.com/bloxapp/ssv/zz_verif/lib/hx"
)

func ncvKeys() (map[spectypes.OperatorID]*bls.SecretKey, []*spectypes.Operator) {
	sks := map[spectypes.OperatorID]*bls.SecretKey{}
	var ops []*spectypes.Operator
	for id := spectypes.OperatorID(1); id <= 4; id++ {
		sk := &bls.SecretKey{}
		sk.SetByCSPRNG()
		sks[id] = sk
		ops = append(ops, &spectypes.Operator{OperatorID: id, PubKey: sk.GetPublicKey().Serialize()})
	}
	return sks, ops
}

// certOK re-verifies a decided message from scratch against the committee (independent of the controller's own validation)
func certOK(m *specqbft.SignedMessage, committee []*spectypes.Operator, quorum int, identifier []byte) (bool, string) {
	if m == nil {
		return false, "nil message"
	}
	if m.Message.MsgType != specqbft.CommitMsgType {
		return false, "not a commit"
	}
	if string(m.Message.Identifier) != string(identifier) {
		return false, "foreign identifier"
	}
	seen := map[spectypes.OperatorID]bool{}
	var pks []bls.PublicKey
	for _, s := range m.Signers {
		if seen[s] {
			return false, "repeated signer"
		}
		seen[s] = true
		var op *spectypes.Operator
		for _, o := range committee {
			if o.OperatorID == s {
				op = o
			}
		}
		if op == nil {
			return false, "foreign signer"
		}
		var pk bls.PublicKey
		if err := pk.Deserialize(op.PubKey); err != nil {
			return false, "bad committee key"
		}
		pks = append(pks, pk)
	}
	if len(m.Signers) < quorum {
		return false, "below quorum"
	}
	root, err := spectypes.ComputeSigningRoot(&m.Message, spectypes.ComputeSignatureDomain(ssvtypes.GetDefaultDomain(), spectypes.QBFTSignatureType))
	if err != nil {
		return false, "no signing root"
	}
	var sig bls.Sign
	if err := sig.Deserialize(m.Signature); err != nil {
		return false, "undecodable signature"
	}
	if !sig.FastAggregateVerify(pks, root[:]) {
		return false, "aggregate does not verify"
	}
	if len(m.FullData) > 0 {
		r, err := specqbft.HashDataRoot(m.FullData)
		if err != nil || r != m.Message.Root {
			return false, "full data does not hash to root"
		}
	}
	return true, ""
}

func doNcvCase(run *hx.Run, line string) {
	_ = bls.Init(bls.BLS12_381)
	logger := zap.NewNop()
	w := strings.Fields(line)
	get := func(k string) string {
		for _, f := range w[1:] {
			if strings.HasPrefix(f, k+"=") {
				return f[len(k)+1:]
			}
		}
		return ""
	}
	honest, committee := ncvKeys()
	attacker, _ := ncvKeys()
	vsk := &bls.SecretKey{}
	vsk.SetByCSPRNG()
	vpk := vsk.GetPublicKey().Serialize()
	share := &ssvtypes.SSVShare{Share: spectypes.Share{OperatorID: 1, ValidatorPubKey: vpk, SharePubKey: honest[1].GetPublicKey().Serialize(),
		Committee: committee, Quorum: 3, PartialQuorum: 2, DomainType: ssvtypes.GetDefaultDomain()}}
	db, err := kv.NewInMemory(logger, basedb.Options{})
	if err != nil {
		panic(err)
	}
	defer db.Close()
	stores := ibftstorage.NewStoresFromRoles(db, spectypes.BNRoleAttester)
	identifier := spectypes.NewMsgID(ssvtypes.GetDefaultDomain(), vpk, spectypes.BNRoleAttester)
	var reported []*specqbft.SignedMessage
	ncv := validator.NewNonCommitteeValidator(logger, identifier, validator.Options{
		Storage: stores, SSVShare: share, FullNode: get("full") == "1", Exporter: get("exporter") == "1",
		NewDecidedHandler: func(m *specqbft.SignedMessage) { reported = append(reported, m) },
	})
	var obs []string
	for i, step := range strings.Split(get("seq"), ",") {
		kh := strings.Split(step, ":")
		if len(kh) != 2 {
			continue
		}
		h, _ := strconv.ParseUint(kh[1], 10, 64)
		value := []byte(hx.Sprintf("value-%d-%s", i, kh[0]))
		root, _ := specqbft.HashDataRoot(value)
		keys, signers := honest, []spectypes.OperatorID{1, 2, 3}
		switch kh[0] {
		case "badsig":
			keys = attacker
		case "sub":
			signers = []spectypes.OperatorID{1, 2}
		case "dup":
			signers = []spectypes.OperatorID{1, 1, 2}
		case "foreign":
			signers = []spectypes.OperatorID{1, 2, 9}
			sk := &bls.SecretKey{}
			sk.SetByCSPRNG()
			keys = map[spectypes.OperatorID]*bls.SecretKey{1: honest[1], 2: honest[2], 9: sk}
		}
		signed, err := protocoltesting.MultiSignMsg(keys, signers, &specqbft.Message{MsgType: specqbft.CommitMsgType, Height: specqbft.Height(h),
			Round: specqbft.FirstRound, Identifier: identifier[:], Root: root})
		if err != nil {
			obs = append(obs, "x")
			continue
		}
		signed.FullData = value
		if kh[0] == "baddata" {
			signed.FullData = []byte("other data")
		}
		data, _ := signed.Encode()
		dec, err := queue.DecodeSSVMessage(&spectypes.SSVMessage{MsgType: spectypes.SSVConsensusMsgType, MsgID: identifier, Data: data})
		if err != nil {
			obs = append(obs, "x")
			continue
		}
		before := len(reported)
		ncv.ProcessMessage(logger, dec)
		for _, m := range reported[before:] {
			if ok, why := certOK(m, committee, 3, identifier[:]); !ok {
				run.Violate("C02/non-committee-validator-reported-unverifiable-decision:"+why,
					hx.Sprintf("step %d (%s): NewDecidedHandler got a decided message for height %d that does not re-verify: %s", i, step, m.Message.Height, why), line)
			}
		}
		if st, err := stores.Get(spectypes.BNRoleAttester).GetHighestInstance(identifier[:]); err == nil && st != nil {
			if ok, why := certOK(st.DecidedMessage, committee, 3, identifier[:]); !ok {
				run.Violate("C02/non-committee-validator-stored-unverifiable-decision:"+why,
					hx.Sprintf("step %d (%s): stored highest instance (height %d) carries a certificate that does not re-verify: %s", i, step, st.State.Height, why), line)
			}
		}
		// liveness side (so the oracle is not vacuous): a genuine certificate for a new highest height is reported
		obs = append(obs, hx.Sprintf("%s=%d", kh[0], len(reported)-before))
		run.Tag("ncv/" + kh[0])
	}
	run.Emit(line, strings.Join(obs, " "))
	run.Seen("ncv/" + get("exporter") + get("full") + strings.Join(obs, " "))
}

func genNcv(run *hx.Run) {
	r := hx.NewRng(run.Seed)
	kinds := []string{"good", "badsig", "sub", "dup", "foreign", "baddata", "good", "badsig"}
	for i := 0; i < run.N; i++ {
		var seq []string
		h := uint64(r.Intn(3))
		for j, m := 0, 3+r.Intn(5); j < m; j++ {
			if r.Chance(60) {
				h += uint64(r.Intn(3))
			} else if h > 0 && r.Chance(50) {
				h--
			}
			seq = append(seq, hx.Sprintf("%s:%d", kinds[r.Intn(len(kinds))], h))
		}
		doNcvCase(run, hx.Sprintf("ncase exporter=%d full=%d seq=%s", i%2, (i/2)%2, strings.Join(seq, ",")))
	}
}
