package main

// Mode `-mode router` (additional engine of property C03, implementation-side oracle only): one REAL started Validator (production
// wiring, real queues and consumers, recording key manager) served by the REAL operator/validator controller.handleRouterMessages
// loop (in-package shim builds the minimal controller). NETWORK-originated messages of every message type — among them
// SSVEventMsgType messages carrying ExecuteDuty and Timeout events, which only the node itself may create — are routed the way the
// p2p layer routes a message. Oracle (C03): a network message of event type neither starts a duty nor causes any signature
// (KeyManager.SignBeaconObject), nor any broadcast of this operator.

import (
	"fmt"
	"strconv"
	"strings"
	"sync"
	"time"

	"github.com/attestantio/go-eth2-client/spec/phase0"
	specqbft "github.com/bloxapp/ssv-spec/qbft"
	spectypes "github.com/bloxapp/ssv-spec/types"
	tu "github.com/bloxapp/ssv-spec/types/testingutils"

	opvalidator "github.com/bloxapp/ssv/operator/validator"
	"github.com/bloxapp/ssv/protocol/v2/ssv/queue"
	"github.com/bloxapp/ssv/protocol/v2/ssv/validator"
	ssvtypes "github.com/bloxapp/ssv/protocol/v2/types"
	"github.com/bloxapp/ssv/zz_verif/lib/hx"
	"github.com/bloxapp/ssv/zz_verif/lib/rkit"
)

// watchQueue wraps a validator queue and records which of the MARKED messages (the ones the harness routed from the "network")
// are pushed into it: the exact meaning of "the message reached the validator's queue". Nothing else is changed.
type watchQueue struct {
	queue.Queue
	mu     *sync.Mutex
	marked map[*queue.DecodedSSVMessage]bool
	pushed map[*queue.DecodedSSVMessage]bool
}

func (q *watchQueue) note(m *queue.DecodedSSVMessage) {
	q.mu.Lock()
	if q.marked[m] {
		q.pushed[m] = true
	}
	q.mu.Unlock()
}
func (q *watchQueue) Push(m *queue.DecodedSSVMessage) { q.note(m); q.Queue.Push(m) }
func (q *watchQueue) TryPush(m *queue.DecodedSSVMessage) bool {
	q.note(m)
	return q.Queue.TryPush(m)
}

func (w *world) broadcastsOf(id int) int {
	w.mu.Lock()
	defer w.mu.Unlock()
	n := 0
	for _, l := range w.log {
		if l.sender == id {
			n++
		}
	}
	return n
}

// rcase role=<kind of the locally running duty | none> seq=<comma list>
//
//	seq items: exec:<kind>  ExecuteDuty event for a duty of that kind, from the network
//	           tmo          Timeout event for the running height (round 1), from the network
//	           psig         a peer's partial-signature message, from the network (allowed to be processed)
//	           cons         a peer's consensus message (certificate of a later height), from the network (allowed)
//	           local:<kind> ExecuteDuty event from the node's own duty scheduler (Validator.HandleMessage; allowed to sign)
func doRouterCase(run *hx.Run, line string) {
	kv := kvs(strings.Fields(line)[1:])
	seq := strings.Split(kv["seq"], ",")
	ks := rkit.KeySet(4)
	km := rkit.NewRecKM()
	signerFor = func(int) spectypes.KeyManager { return km }
	onlyOp = 1
	var wmu sync.Mutex
	marked, pushed := map[*queue.DecodedSSVMessage]bool{}, map[*queue.DecodedSSVMessage]bool{}
	beforeStart = func(v *validator.Validator) {
		for role, qc := range v.Queues {
			qc.Q = &watchQueue{Queue: qc.Q, mu: &wmu, marked: marked, pushed: pushed}
			v.Queues[role] = qc
		}
	}
	defer func() { signerFor, onlyOp, beforeStart = nil, 0, nil }()
	// route marks the message as network-originated and hands it to the real router loop
	var lastRouted *queue.DecodedSSVMessage
	route := func(router *opvalidator.VerifRouter, d *queue.DecodedSSVMessage) {
		wmu.Lock()
		marked[d] = true
		wmu.Unlock()
		lastRouted = d
		router.Route(d)
	}
	reached := func() bool {
		wmu.Lock()
		defer wmu.Unlock()
		return lastRouted != nil && pushed[lastRouted]
	}
	kind0, _ := rkit.KindByName("att")
	w, bn, cancelAll := buildWorld(params{n: 4}, kind0, 2*time.Second) // long rounds: no timer fires during the case
	defer w.shutdown(cancelAll)
	op := w.ops[1]
	share := rkit.ShareFor(ks, 1)
	router := opvalidator.VerifNewRouter(op.v, share.ValidatorPubKey, false)
	defer router.Stop()

	settle := func(role spectypes.BeaconRole) {
		deadline := time.Now().Add(2 * time.Second)
		for time.Now().Before(deadline) {
			if router.Pending() == 0 {
				if q, ok := op.v.Queues[role]; !ok || q.Q.Len() == 0 {
					break
				}
			}
			time.Sleep(2 * time.Millisecond)
		}
		time.Sleep(120 * time.Millisecond) // the consumer may be inside the handler of the message it just popped
	}
	execMsg := func(kindName string, slotDelta uint64) (*queue.DecodedSSVMessage, spectypes.BeaconRole, bool) {
		kind, ok := rkit.KindByName(kindName)
		if !ok {
			return nil, 0, false
		}
		duty := kind.Duty(slotDelta)
		bn.setStart(duty.Slot, time.Now())
		var pk phase0.BLSPubKey
		copy(pk[:], duty.PubKey[:])
		m, err := opvalidator.CreateDutyExecuteMsg(duty, pk, ssvtypes.GetDefaultDomain())
		if err != nil {
			return nil, 0, false
		}
		d, err := queue.DecodeSSVMessage(m)
		if err != nil {
			return nil, 0, false
		}
		return d, kind.Role, true
	}
	var obs []string
	localRole := spectypes.BNRoleAttester
	for i, it := range seq {
		parts := strings.SplitN(it, ":", 2)
		arg := ""
		if len(parts) == 2 {
			arg = parts[1]
		}
		signs0, bc0 := km.SignCount(), w.broadcastsOf(1)
		eventFromNetwork := false
		what := it
		switch parts[0] {
		case "local":
			if d, role, ok := execMsg(arg, uint64(1+i)); ok {
				localRole = role
				op.v.HandleMessage(nop, d) // the duty scheduler's path (controller.ExecuteDuty)
				settle(role)
			}
		case "exec":
			if d, role, ok := execMsg(arg, uint64(20+i)); ok {
				eventFromNetwork = true
				route(router, d)
				settle(role)
			}
		case "tmo":
			kind, _ := rkit.KindByName("att")
			if arg != "" {
				if k, ok := rkit.KindByName(arg); ok {
					kind = k
				}
			}
			id := spectypes.NewMsgID(ssvtypes.GetDefaultDomain(), share.ValidatorPubKey, kind.Role)
			h, _ := strconv.Atoi(kv["h"])
			if h == 0 {
				h = int(kind.Duty(1).Slot)
			}
			// the event a peer would forge for the height of the locally running duty (local:<kind> as first item runs at slot base+1)
			m, err := op.v.VerifTimerMessage(id, specqbft.Height(h), 1)
			if err == nil {
				if d, err := queue.DecodeSSVMessage(m); err == nil {
					eventFromNetwork = true
					route(router, d)
					settle(kind.Role)
				}
			}
		case "psig":
			sigs := [][]byte{rkit.ShareSig(ks, 2, [32]byte{1})}
			pm := rkit.PartialSigMsg(ks, spectypes.PostConsensusPartialSig, 12, 2, [][32]byte{{1}}, sigs)
			data, _ := pm.Encode()
			m := &spectypes.SSVMessage{MsgType: spectypes.SSVPartialSignatureMsgType,
				MsgID: spectypes.NewMsgID(ssvtypes.GetDefaultDomain(), share.ValidatorPubKey, localRole), Data: data}
			if d, err := queue.DecodeSSVMessage(m); err == nil {
				router.Route(d)
				settle(localRole)
			}
		case "cons":
			id := spectypes.NewMsgID(ssvtypes.GetDefaultDomain(), share.ValidatorPubKey, localRole)
			sm := rkit.DecidedMsg(ks, id[:], 4000, 1, []byte{1, 2, 3, 4}, []spectypes.OperatorID{2, 3, 4})
			data, _ := sm.Encode()
			m := &spectypes.SSVMessage{MsgType: spectypes.SSVConsensusMsgType, MsgID: id, Data: data}
			if d, err := queue.DecodeSSVMessage(m); err == nil {
				router.Route(d)
				settle(localRole)
			}
		default:
			continue
		}
		ds, db := km.SignCount()-signs0, w.broadcastsOf(1)-bc0
		obs = append(obs, fmt.Sprintf("%s:s%d/b%d/q%d", what, ds, db, b2i(eventFromNetwork && reached())))
		run.Tag("router/" + parts[0])
		// EXACT attribution: the verdict depends only on whether THIS routed event message was pushed into the validator's queue
		// (with the guard of handleRouterMessages in place it never is); signatures / broadcasts observed around it are detail only,
		// they may as well stem from the local duty, its round timer or the consensus messages routed before.
		if eventFromNetwork && reached() {
			sig := "C03/validator-glue:network-event-message-reached-the-validator-queue:" + parts[0]
			detail := fmt.Sprintf("an SSVEventMsgType message (%s) that arrived FROM THE NETWORK was handed by handleRouterMessages to the validator (pushed into its queue); in the window after it: %d SignBeaconObject call(s), %d broadcast(s) of this operator", it, ds, db)
			if parts[0] == "exec" && ds > 0 {
				sig = "C03/validator-glue:network-execute-duty-event-started-a-duty-and-signed"
				detail = fmt.Sprintf("an ExecuteDuty event (%s) that arrived FROM THE NETWORK was handed by handleRouterMessages to the validator's queue and started a duty without any beacon duty: %d validator-key signature(s) (SignBeaconObject), %d broadcast(s)", it, ds, db)
			}
			run.Violate(sig, detail, line)
		}
	}
	run.Emit(line, strings.Join(obs, " "))
	run.Seen("router/" + strings.Join(obs, " "))
}

func genRouter(run *hx.Run) {
	r := hx.NewRng(run.Seed)
	directed := []string{
		"rcase seq=exec:prop,exec:att,tmo,psig,cons",
		"rcase seq=local:att,tmo:att,exec:prop,exec:agg,psig",
		"rcase seq=exec:exit,exec:reg,exec:contrib,exec:sc",
		"rcase seq=local:prop,exec:prop,tmo:prop,cons,exec:att",
	}
	kinds := []string{"att", "prop", "agg", "sc", "contrib", "reg", "exit"}
	for i := 0; i < run.N; i++ {
		if i < len(directed) {
			doRouterCase(run, directed[i])
			continue
		}
		var seq []string
		if r.Chance(50) {
			seq = append(seq, "local:"+[]string{"att", "sc", "prop"}[r.Intn(3)])
		}
		for j, m := 0, 3+r.Intn(4); j < m; j++ {
			switch r.Intn(5) {
			case 0, 1:
				seq = append(seq, "exec:"+kinds[r.Intn(len(kinds))])
			case 2:
				seq = append(seq, "tmo:"+[]string{"att", "sc", "prop"}[r.Intn(3)])
			case 3:
				seq = append(seq, "psig")
			case 4:
				seq = append(seq, "cons")
			}
		}
		doRouterCase(run, "rcase seq="+strings.Join(seq, ","))
	}
}

var _ = tu.TestingValidatorIndex

func b2i(b bool) int {
	if b {
		return 1
	}
	return 0
}
