// Harness for engine `vglue` (additional engine of property C07): validator-level glue liveness.
// n REAL protocol/v2/ssv/validator.Validator objects (one per operator of a committee), their DutyRunners built by the
// production wiring operator/validator.SetupRunners, started with Validator.Start (real queues, real
// StartQueueConsumer/ConsumeQueue goroutines, real per-duty timeout registration), the REAL roundtimer.RoundTimer with its
// allowances scaled to fractions of a second (verif-tagged setter), an in-process network that hands every broadcast to
// every operator's HandleMessage at once (timely delivery), duties started through the real ExecuteDuty queue event.
// Scripts: duty 1 with a fault-free round 1, then duty 2 (and 3) ON THE SAME VALIDATORS in which round 1 fails (silent
// round-1 leader / lost proposal); round-change messages reach the receivers before or after their own timeout.
// Implementation-side oracle only (no Lean model: C07's theorems are about the QBFT instance/controller; this engine checks
// that the glue around them — queue filter, priorities, timer registration — lets the proven mechanism run):
// every correct operator decides the duty within f+3 rounds, i.e. before the deadline of round f+3 plus slack.
// A failed case is retried up to three times with doubled timer allowances before it is reported (scheduling noise never alarms).
package main

import (
	"context"
	"flag"
	"fmt"
	"strconv"
	"strings"
	"sync"
	"time"

	eth2apiv1 "github.com/attestantio/go-eth2-client/api/v1"
	"github.com/attestantio/go-eth2-client/spec/phase0"
	specqbft "github.com/bloxapp/ssv-spec/qbft"
	spectypes "github.com/bloxapp/ssv-spec/types"
	tu "github.com/bloxapp/ssv-spec/types/testingutils"
	"go.uber.org/zap"

	ibftstorage "github.com/bloxapp/ssv/ibft/storage"
	"github.com/bloxapp/ssv/networkconfig"
	opvalidator "github.com/bloxapp/ssv/operator/validator"
	"github.com/bloxapp/ssv/protocol/v2/blockchain/beacon"
	"github.com/bloxapp/ssv/protocol/v2/qbft/roundtimer"
	"github.com/bloxapp/ssv/protocol/v2/ssv/runner"
	"github.com/bloxapp/ssv/protocol/v2/ssv/queue"
	"github.com/bloxapp/ssv/protocol/v2/ssv/validator"
	ssvtypes "github.com/bloxapp/ssv/protocol/v2/types"
	"github.com/bloxapp/ssv/storage/basedb"
	"github.com/bloxapp/ssv/storage/kv"
	"github.com/bloxapp/ssv/zz_verif/lib/hx"
	"github.com/bloxapp/ssv/zz_verif/lib/rkit"
)

var nop = zap.NewNop()

var allRoles = []spectypes.BeaconRole{spectypes.BNRoleAttester, spectypes.BNRoleProposer, spectypes.BNRoleAggregator,
	spectypes.BNRoleSyncCommittee, spectypes.BNRoleSyncCommitteeContribution, spectypes.BNRoleValidatorRegistration, spectypes.BNRoleVoluntaryExit}

// ---------------------------------------------------------------- beacon clock: real arithmetic, slot starts set by the script

type glueBeacon struct {
	beacon.Network
	mu     sync.Mutex
	starts map[phase0.Slot]time.Time
}

func (b *glueBeacon) GetSlotStartTime(slot phase0.Slot) time.Time {
	b.mu.Lock()
	defer b.mu.Unlock()
	if t, ok := b.starts[slot]; ok {
		return t
	}
	return b.Network.GetSlotStartTime(slot)
}

// SlotDurationSec is read by the round timer only (base allowance = 1/3 or 2/3 of it): zero, so that the deadline of round r
// is `slot start + r * quick` for every role with a slot-relative timer.
func (b *glueBeacon) SlotDurationSec() time.Duration { return 0 }

func (b *glueBeacon) setStart(slot phase0.Slot, t time.Time) {
	b.mu.Lock()
	b.starts[slot] = t
	b.mu.Unlock()
}

// ---------------------------------------------------------------- in-process network

type logged struct {
	at     time.Time
	sender int
	typ    string // proposal|prepare|commit|roundchange|decided|pre|post
	height uint64
	round  uint64
	slot   uint64
}

type world struct {
	mu      sync.Mutex
	ops     []*operator // index = operator id (1..n)
	log     []logged
	silent  map[int]bool // nothing this operator broadcasts is delivered
	dropFn  func(l logged) bool
	rcDelay time.Duration // round-change messages are handed over after this delay (0: at once)
	quorum  int
	closed  bool
}

type operator struct {
	id     int
	v      *validator.Validator
	cancel context.CancelFunc
	db     basedb.Database
	w      *world
}

// opNet is operator id's view of the network.
type opNet struct {
	id int
	w  *world
}

func (n *opNet) Subscribe(spectypes.ValidatorPK) error { return nil }

func (n *opNet) Broadcast(m *spectypes.SSVMessage) error {
	w := n.w
	l := logged{at: time.Now(), sender: n.id}
	switch m.MsgType {
	case spectypes.SSVConsensusMsgType:
		sm := &specqbft.SignedMessage{}
		if sm.Decode(m.Data) != nil {
			return nil
		}
		l.height, l.round = uint64(sm.Message.Height), uint64(sm.Message.Round)
		switch sm.Message.MsgType {
		case specqbft.ProposalMsgType:
			l.typ = "proposal"
		case specqbft.PrepareMsgType:
			l.typ = "prepare"
		case specqbft.CommitMsgType:
			l.typ = "commit"
			if len(sm.Signers) >= w.quorum {
				l.typ = "decided"
			}
		case specqbft.RoundChangeMsgType:
			l.typ = "roundchange"
		}
	case spectypes.SSVPartialSignatureMsgType:
		sm := &spectypes.SignedPartialSignatureMessage{}
		if sm.Decode(m.Data) != nil {
			return nil
		}
		l.slot = uint64(sm.Message.Slot)
		l.typ = "pre"
		if sm.Message.Type == spectypes.PostConsensusPartialSig {
			l.typ = "post"
		}
	default:
		return nil
	}
	w.mu.Lock()
	if w.closed {
		w.mu.Unlock()
		return nil
	}
	w.log = append(w.log, l)
	drop := w.silent[n.id] || (w.dropFn != nil && w.dropFn(l))
	delay := time.Duration(0)
	if l.typ == "roundchange" {
		delay = w.rcDelay
	}
	ops := w.ops
	w.mu.Unlock()
	if drop {
		return nil
	}
	deliver := func() {
		for _, o := range ops {
			if o == nil {
				continue
			}
			d, err := queue.DecodeSSVMessage(m) // every receiver gets its own decoded copy, as from the wire
			if err != nil {
				continue
			}
			o.v.HandleMessage(nop, d)
		}
	}
	if delay > 0 {
		time.AfterFunc(delay, deliver)
	} else {
		deliver()
	}
	return nil
}

// ---------------------------------------------------------------- case

type params struct {
	role    string // att | sc | agg | prop
	n       int
	fault   string // silent: the round-1 leader of the later duties broadcasts nothing; lost: its round-1 proposal is lost
	rcDelay int    // percent of the round allowance by which round-change messages are delayed (0 = delivered at once)
	duties  int    // number of duties (the first one is fault-free)
	late    int    // later duties are executed this many percent of a round allowance AFTER their slot started (150: between the deadlines of rounds 1 and 2)
}

func (p params) String() string {
	return fmt.Sprintf("case role=%s n=%d fault=%s rcdelay=%d duties=%d late=%d", p.role, p.n, p.fault, p.rcDelay, p.duties, p.late)
}

func dutyFor(kind rkit.Kind, slot phase0.Slot) *spectypes.Duty {
	d := kind.Duty(0)
	d.Slot = slot
	return d
}

type caseResult struct {
	ok     bool
	sig    string
	detail string
	rounds []uint64 // per duty: highest round announced
}

// signerFor lets a mode substitute the key manager of an operator (router mode: a recording one); onlyOp > 0 builds that operator alone.
var (
	signerFor   func(id int) spectypes.KeyManager
	onlyOp      int
	beforeStart func(v *validator.Validator) // hook between NewValidator and Start (router mode wraps the queues)
)

// timerWiringFaults collects (C17) faults of the round-timer wiring done by the production SetupRunners: the timer a role's QBFT
// controller is configured with must give THAT role's deadline. Behavioural and model-free: the configured timer's own
// RoundTimeout is compared with the RoundTimeout of a timer freshly built by the real roundtimer.New for the runner's role, on the
// same beacon network, for a slot far enough ahead that both values are large (they are computed microseconds apart).
var (
	timerWiringMu     sync.Mutex
	timerWiringFaults []string
	timerWiringSeen   = map[string]bool{}
)

func checkTimerWiring(ctx context.Context, bn *glueBeacon, runners runner.DutyRunners) {
	h := specqbft.Height(bn.EstimatedCurrentSlot() + 40)
	for role, r := range runners {
		c := r.GetBaseRunner().QBFTController
		if c == nil {
			continue
		}
		rt, ok := c.GetConfig().GetTimer().(*roundtimer.RoundTimer)
		if !ok {
			continue
		}
		ref := roundtimer.New(ctx, bn, role, nil)
		for _, round := range []specqbft.Round{1, 2, roundtimer.QuickTimeoutThreshold, roundtimer.QuickTimeoutThreshold + 2} {
			got, want := rt.RoundTimeout(h, round), ref.RoundTimeout(h, round)
			d := got - want
			if d < 0 {
				d = -d
			}
			timerWiringMu.Lock()
			timerWiringSeen[fmt.Sprintf("%s/%d", role.String(), round)] = true
			if d > 200*time.Millisecond {
				timerWiringFaults = append(timerWiringFaults, fmt.Sprintf("role %s round %d: the controller's timer gives %v until the deadline, a timer built for the role gives %v",
					role.String(), round, got.Round(time.Millisecond), want.Round(time.Millisecond)))
			}
			timerWiringMu.Unlock()
		}
	}
}

func buildWorld(p params, kind rkit.Kind, quick time.Duration) (*world, *glueBeacon, context.CancelFunc) {
	ks := rkit.KeySet(p.n)
	ctx, cancelAll := context.WithCancel(context.Background())
	w := &world{ops: make([]*operator, p.n+1), silent: map[int]bool{}, quorum: int(ks.Threshold)}
	bn := &glueBeacon{Network: networkconfig.TestNetwork.Beacon.GetNetwork(), starts: map[phase0.Slot]time.Time{}}
	for id := 1; id <= p.n; id++ {
		if onlyOp > 0 && id != onlyOp {
			continue
		}
		db, err := kv.NewInMemory(nop, basedb.Options{})
		if err != nil {
			panic(err)
		}
		share := rkit.ShareFor(ks, spectypes.OperatorID(id))
		octx, ocancel := context.WithCancel(ctx)
		opts := validator.Options{
			Network:       &opNet{id: id, w: w},
			Beacon:        tu.NewTestingBeaconNode(),
			BeaconNetwork: bn,
			Storage:       ibftstorage.NewStoresFromRoles(db, allRoles...),
			SSVShare: &ssvtypes.SSVShare{Share: *share, Metadata: ssvtypes.Metadata{
				BeaconMetadata: &beacon.ValidatorMetadata{Status: eth2apiv1.ValidatorStateActiveOngoing, Index: tu.TestingValidatorIndex}}},
			Signer:           tu.NewTestingKeyManager(),
			BuilderProposals: kind.Blinded,
		}
		if signerFor != nil {
			opts.Signer = signerFor(id)
		}
		opts.DutyRunners = opvalidator.SetupRunners(octx, nop, opts) // the production wiring
		checkTimerWiring(octx, bn, opts.DutyRunners)
		for _, r := range opts.DutyRunners {
			if c := r.GetBaseRunner().QBFTController; c != nil {
				if rt, ok := c.GetConfig().GetTimer().(*roundtimer.RoundTimer); ok {
					rt.VerifSetTimeoutOptions(roundtimer.QuickTimeoutThreshold, quick, 50*quick)
				}
			}
		}
		v := validator.NewValidator(octx, ocancel, opts)
		if beforeStart != nil {
			beforeStart(v)
		}
		w.ops[id] = &operator{id: id, v: v, cancel: ocancel, db: db, w: w}
	}
	for id := 1; id <= p.n; id++ {
		if w.ops[id] == nil {
			continue
		}
		if _, err := w.ops[id].v.Start(nop); err != nil {
			panic(err)
		}
	}
	return w, bn, cancelAll
}

func (w *world) shutdown(cancelAll context.CancelFunc) {
	w.mu.Lock()
	w.closed = true
	w.mu.Unlock()
	for _, o := range w.ops {
		if o != nil {
			o.v.Stop()
		}
	}
	cancelAll()
	time.Sleep(20 * time.Millisecond)
	for _, o := range w.ops {
		if o != nil {
			_ = o.db.Close()
		}
	}
}

// startDuty pushes the ExecuteDuty event into every operator's queue (what the duty scheduler does).
func (w *world) startDuty(duty *spectypes.Duty) {
	var pk phase0.BLSPubKey
	copy(pk[:], duty.PubKey[:])
	for _, o := range w.ops {
		if o == nil {
			continue
		}
		m, err := opvalidator.CreateDutyExecuteMsg(duty, pk, ssvtypes.GetDefaultDomain())
		if err != nil {
			panic(err)
		}
		d, err := queue.DecodeSSVMessage(m)
		if err != nil {
			panic(err)
		}
		o.v.HandleMessage(nop, d)
	}
}

// decidedOps: operators that broadcast their post-consensus share for the slot (the step right after deciding).
func (w *world) decidedOps(slot uint64) map[int]bool {
	w.mu.Lock()
	defer w.mu.Unlock()
	out := map[int]bool{}
	for _, l := range w.log {
		if l.typ == "post" && l.slot == slot {
			out[l.sender] = true
		}
	}
	return out
}

func (w *world) stats(height uint64) (maxRound uint64, rcs int, laterProposals int) {
	w.mu.Lock()
	defer w.mu.Unlock()
	for _, l := range w.log {
		if l.height != height {
			continue
		}
		if l.typ == "roundchange" {
			rcs++
			if l.round > maxRound {
				maxRound = l.round
			}
		}
		if l.typ == "proposal" && l.round >= 2 {
			laterProposals++
		}
	}
	return
}

func leaderOf(n int, height uint64, round uint64) int {
	ks := rkit.KeySet(n)
	st := &specqbft.State{Share: rkit.ShareFor(ks, 1), Height: specqbft.Height(height)}
	return int(specqbft.RoundRobinProposer(st, specqbft.Round(round)))
}

// runCase executes the script once with the given allowance `quick` per round.
func runCase(p params, quick time.Duration) caseResult {
	kind, ok := rkit.KindByName(p.role)
	if !ok {
		return caseResult{ok: true}
	}
	w, bn, cancelAll := buildWorld(p, kind, quick)
	defer w.shutdown(cancelAll)
	f := (p.n - 1) / 3
	res := caseResult{ok: true}
	var prevArmed time.Time
	base := kind.Duty(0).Slot
	for di := 0; di < p.duties; di++ {
		slot := base + phase0.Slot(1+4*di+di) // heights with different round-1 leaders
		duty := dutyFor(kind, slot)
		height := uint64(slot)
		faulty := di > 0
		leader := leaderOf(p.n, height, 1)
		w.mu.Lock()
		w.silent = map[int]bool{}
		w.dropFn = nil
		w.rcDelay = 0
		if faulty {
			switch p.fault {
			case "silent":
				w.silent[leader] = true
			case "lost":
				w.dropFn = func(l logged) bool { return l.typ == "proposal" && l.height == height && l.round == 1 }
			}
			w.rcDelay = quick * time.Duration(p.rcDelay) / 100
		}
		w.mu.Unlock()
		if faulty && p.late > 0 && !prevArmed.IsZero() {
			// the round timer is one object per runner and a timer armed in the previous duty may still be pending: it would fire
			// into THIS duty's handler and hide a round that never got its own timer; let every earlier deadline pass first
			if d := time.Until(prevArmed); d > 0 {
				time.Sleep(d)
			}
		}
		start := time.Now()
		slotStart := start
		if faulty && p.late > 0 {
			// late duty start (slow pre-consensus, late scheduler): the slot-relative deadlines of the first round(s) have passed already
			slotStart = start.Add(-quick * time.Duration(p.late) / 100)
		}
		bn.setStart(slot, slotStart)
		w.startDuty(duty)
		// every correct operator must have decided before the deadline of round f+3 (+ slack): rounds are `quick` long
		bound := time.Duration(f+3)*quick + w.rcDelay*time.Duration(f+3) + 2*quick
		if faulty && p.late > 0 {
			// the rounds whose deadline passed are skipped at once, the first one that is still open may be almost over
			bound += time.Duration(p.late/100+1) * quick
		}
		if !faulty {
			bound = 4 * quick // fault-free: must finish in round 1; a slower run is scheduling noise, not a finding -> retried
		}
		correct := p.n
		if faulty && p.fault == "silent" {
			correct = p.n - 1
		}
		deadline := start.Add(bound)
		done := false
		for time.Now().Before(deadline) {
			d := w.decidedOps(uint64(slot))
			cnt := 0
			for id := range d {
				if !w.silent[id] {
					cnt++
				}
			}
			if cnt >= correct {
				done = true
				break
			}
			time.Sleep(5 * time.Millisecond)
		}
		maxRound, rcs, later := w.stats(height)
		res.rounds = append(res.rounds, maxRound)
		if !done {
			res.ok = false
			dec := len(w.decidedOps(uint64(slot)))
			switch {
			case !faulty:
				res.sig = "C07/validator-glue:fault-free-duty-not-decided"
				res.detail = fmt.Sprintf("duty %d (slot %d): fault-free timely run, %d of %d operators decided within %v", di+1, slot, dec, correct, bound)
			case rcs == 0 && p.late > 0:
				res.sig = "C07/validator-glue:round-whose-deadline-already-passed-never-times-out"
				res.detail = fmt.Sprintf("duty %d (slot %d) was executed %v after its slot started, i.e. after the deadline of round %d; round 1 cannot decide (%s round-1 leader %d) and no operator ever announced a later round (0 round-change messages); %d of %d decided within %v", di+1, slot, start.Sub(slotStart), p.late/100, p.fault, leader, dec, correct, bound)
			case rcs == 0:
				res.sig = "C07/validator-glue:round-timeout-without-round-change-in-later-duty"
				res.detail = fmt.Sprintf("duty %d (slot %d) of the same validators: round 1 failed (%s round-1 leader %d), its deadline passed %v ago, yet no operator announced round 2 (0 round-change messages); %d of %d decided", di+1, slot, p.fault, leader, time.Since(start)-quick, dec, correct)
			case later == 0:
				res.sig = "C07/validator-glue:round-changes-never-lead-to-a-proposal"
				res.detail = fmt.Sprintf("duty %d (slot %d): round 1 failed (%s leader %d); %d round-change messages up to round %d were delivered to every queue (delay %v), but no leader of a later round ever proposed; %d of %d decided within %v", di+1, slot, p.fault, leader, rcs, maxRound, w.rcDelay, dec, correct, bound)
			default:
				res.sig = "C07/validator-glue:no-decision-within-f+3-rounds"
				res.detail = fmt.Sprintf("duty %d (slot %d): round 1 failed (%s leader %d); %d round changes up to round %d, %d later proposals; %d of %d decided within %v", di+1, slot, p.fault, leader, rcs, maxRound, later, dec, correct, bound)
			}
			return res
		}
		// let the post-consensus phase finish (Finished) before the next duty is scheduled
		time.Sleep(quick / 4)
		r := maxRound
		if r < 1 {
			r = 1
		}
		// latest deadline a timer armed during this duty can have (slot-relative roles: slot start + round * quick; proposer: arming + quick)
		prevArmed = slotStart.Add(time.Duration(r+1)*quick + quick/5)
		if t := time.Now().Add(quick + quick/5); kind.Role == spectypes.BNRoleProposer && t.After(prevArmed) {
			prevArmed = t
		}
	}
	return res
}

// ---------------------------------------------------------------- interpreter

func kvs(ws []string) map[string]string {
	m := map[string]string{}
	for _, w := range ws {
		if i := strings.IndexByte(w, '='); i > 0 {
			m[w[:i]] = w[i+1:]
		}
	}
	return m
}

var baseQuick = 450 * time.Millisecond

func doCase(run *hx.Run, line string) {
	ws := strings.Fields(line)
	if len(ws) == 0 || ws[0] != "case" {
		return
	}
	kv := kvs(ws[1:])
	p := params{role: kv["role"], fault: kv["fault"]}
	p.n, _ = strconv.Atoi(kv["n"])
	p.rcDelay, _ = strconv.Atoi(kv["rcdelay"])
	p.duties, _ = strconv.Atoi(kv["duties"])
	p.late, _ = strconv.Atoi(kv["late"])
	if p.late < 0 || p.late > 600 {
		return
	}
	if (p.n != 4 && p.n != 7) || p.duties < 1 || p.duties > 4 || p.rcDelay < 0 || p.rcDelay > 90 {
		return
	}
	record(run, p, p.String(), runAttempts(p))
}

func doTimersCase(run *hx.Run, line string) {
	n := 4
	if strings.Contains(line, "n=7") {
		n = 7
	}
	timerWiringMu.Lock()
	timerWiringFaults = nil
	timerWiringMu.Unlock()
	w, _, cancelAll := buildWorld(params{n: n}, rkit.Kinds[0], 2*time.Second)
	w.shutdown(cancelAll)
	timerWiringMu.Lock()
	defer timerWiringMu.Unlock()
	for _, f := range timerWiringFaults {
		run.Violate("C17/runner-timer-deadline-differs-from-role-deadline", f, line)
		break
	}
	for k := range timerWiringSeen {
		run.Seen("timers/" + k)
	}
	run.Emit(line, fmt.Sprintf("faults=%d checked=%d", len(timerWiringFaults), len(timerWiringSeen)))
}

var mode = flag.String("mode", "", "router: network-originated messages through the real handleRouterMessages (C03)")

func main() {
	run := hx.Start()
	defer run.Finish()
	ssvtypes.SetDefaultDomain(tu.TestingSSVDomainType)
	if lines := run.ReplayLines(); lines != nil {
		for _, l := range lines {
			if strings.HasPrefix(l, "rcase") {
				doRouterCase(run, l)
			} else if strings.HasPrefix(l, "ncase") {
				doNcvCase(run, l)
			} else if strings.HasPrefix(l, "tcase") {
				doTimersCase(run, l)
			} else {
				doCase(run, l)
			}
		}
		return
	}
	if *mode == "router" {
		genRouter(run)
		return
	}
	if *mode == "ncv" {
		genNcv(run)
		return
	}
	if *mode == "timers" { // C17: the round-timer wiring of the production SetupRunners (see checkTimerWiring)
		for i := 0; i < run.N; i++ {
			line := fmt.Sprintf("tcase n=%d", []int{4, 7}[i%2])
			doTimersCase(run, line)
		}
		return
	}
	// a fixed directed set first, then seeded variations
	directed := []params{
		{"att", 4, "silent", 40, 2, 0},
		{"sc", 4, "lost", 40, 3, 0},
		{"att", 4, "silent", 0, 2, 150},
		{"prop", 4, "silent", 40, 2, 0},
		{"agg", 7, "silent", 40, 2, 250},
		{"sc", 7, "lost", 0, 2, 0},
	}
	r := hx.NewRng(run.Seed)
	var cases []params
	for i := 0; i < run.N; i++ {
		if i < len(directed) {
			cases = append(cases, directed[i])
			continue
		}
		cases = append(cases, params{
			role:    []string{"att", "sc", "agg", "prop"}[r.Intn(4)],
			n:       r.Pick(4, 4, 7),
			fault:   []string{"silent", "lost"}[r.Intn(2)],
			rcDelay: r.Pick(0, 25, 40, 60),
			duties:  r.Pick(2, 2, 3),
			late:    r.Pick(0, 0, 120, 150, 250, 330),
		})
		if c := &cases[len(cases)-1]; c.late > 0 && c.rcDelay > 40 {
			c.rcDelay = 40
		}
	}
	// cases are independent worlds that mostly wait for timers: run a few side by side
	par := 3
	sem := make(chan struct{}, par)
	var wg sync.WaitGroup
	var emu sync.Mutex
	for _, p := range cases {
		p := p
		wg.Add(1)
		sem <- struct{}{}
		go func() {
			defer wg.Done()
			defer func() { <-sem }()
			res := runAttempts(p) // the case runs unlocked; hx.Run is not concurrency safe, so bookkeeping is serialised
			emu.Lock()
			record(run, p, p.String(), res)
			emu.Unlock()
		}()
	}
	wg.Wait()
}

type attemptResult struct {
	last     caseResult
	attempts int
	quick    time.Duration
	retried  []string // signatures of the attempts that failed before one succeeded (scheduling noise, reported as tags only)
}

func runAttempts(p params) attemptResult {
	quick := baseQuick
	var last caseResult
	var retried []string
	attempts := 0
	for attempts < 4 {
		attempts++
		last = runCase(p, quick)
		if last.ok {
			break
		}
		retried = append(retried, last.sig)
		quick *= 2 // scheduling noise: give every round twice the time and try again (fresh validators)
	}
	return attemptResult{last, attempts, quick, retried}
}

func record(run *hx.Run, p params, line string, a attemptResult) {
	rs := make([]string, len(a.last.rounds))
	for i, r := range a.last.rounds {
		rs[i] = strconv.FormatUint(r, 10)
	}
	obs := "decided rounds=" + strings.Join(rs, ",")
	if !a.last.ok {
		obs = "NOT-DECIDED " + a.last.sig
		run.Violate(a.last.sig, fmt.Sprintf("%s n=%d: %s (reproduced in %d attempts with growing round allowances)", p.role, p.n, a.last.detail, a.attempts), line)
	}
	run.Emit(line, obs)
	run.Tag("role/" + p.role)
	run.Tag("fault/" + p.fault)
	run.Tag(fmt.Sprintf("attempts/%d", a.attempts))
	if a.last.ok {
		for _, r := range a.retried {
			run.Tag("retried/" + r)
		}
	}
	run.Seen(fmt.Sprintf("%s/n%d/%s/rc%d/d%d/late%d/%s", p.role, p.n, p.fault, p.rcDelay, p.duties, p.late, strings.Join(rs, ",")))
	if p.late > 0 {
		run.Tag("late-start")
	}
}
