package main

// C08, node records: the ENR entry decoders of network/records/entries.go (GetDomainTypeEntry, GetSubnetsEntry) and what the
// discovery service does with a discovered node (ToPeer, the node filters, checkPeer), driven with arbitrary entry values
// through a REAL signed enr.Record that went over the wire encoding. A peer signs its own record, so every value that is one
// well-formed RLP item can arrive.
//
//	e ent=<domaintype|subnets> rec=<0|1> kind=<a|s|n> val=<hex> raw=<hex>     (model: outcome class by kind / length)
//	f enr-record <hex>                                                         (wire bytes of a whole record; oracle only)

import (
	"crypto/ecdsa"
	"encoding/hex"
	"errors"
	"fmt"
	"net"
	"runtime/debug"
	"strings"

	"github.com/ethereum/go-ethereum/crypto"
	"github.com/ethereum/go-ethereum/p2p/enode"
	"github.com/ethereum/go-ethereum/p2p/enr"
	"github.com/ethereum/go-ethereum/rlp"

	"github.com/bloxapp/ssv/network/discovery"
	"github.com/bloxapp/ssv/network/records"
	"github.com/bloxapp/ssv/zz_verif/lib/hx"
)

var enrKeyV *ecdsa.PrivateKey

func enrKey() *ecdsa.PrivateKey {
	if enrKeyV == nil {
		k, err := crypto.ToECDSA([]byte("key-of-a-discovered-peer-0123456"))
		if err != nil {
			panic(err)
		}
		enrKeyV = k
	}
	return enrKeyV
}

type enrEntry struct {
	key string
	raw []byte // the entry's value: RLP bytes, put into the record as they are
}

// wireRecord builds a signed record with the given entries (plus ip/tcp/udp when addr) and returns its wire encoding.
func wireRecord(entries []enrEntry, addr bool) (enc []byte, ok bool) {
	defer func() {
		if recover() != nil {
			enc, ok = nil, false // building the record is OUR step, not the peer path
		}
	}()
	var rec enr.Record
	if addr {
		rec.Set(enr.IP(net.IPv4(10, 1, 2, 3)))
		rec.Set(enr.TCP(13001))
		rec.Set(enr.UDP(12001))
	}
	for _, e := range entries {
		rec.Set(enr.WithEntry(e.key, rlp.RawValue(e.raw)))
	}
	if err := enode.SignV4(&rec, enrKey()); err != nil {
		return nil, false
	}
	b, err := rlp.EncodeToBytes(&rec)
	if err != nil {
		return nil, false
	}
	return b, true
}

// nodeFromWire is what discv5 does with a received record: decode, check the signature, build the node.
func nodeFromWire(enc []byte) *enode.Node {
	var rec enr.Record
	if err := rlp.DecodeBytes(enc, &rec); err != nil {
		return nil
	}
	n, err := enode.New(enode.ValidSchemes, &rec)
	if err != nil {
		return nil
	}
	return n
}

func packBits128(s []byte) []byte {
	o := make([]byte, (len(s)+7)/8)
	for i, v := range s {
		if v != 0 {
			o[i/8] |= 1 << uint(i%8)
		}
	}
	return o
}

func hexOrDash(b []byte) string {
	if len(b) == 0 {
		return "-"
	}
	return hex.EncodeToString(b)
}

var ownSubnets = func() []byte { s := make([]byte, 128); s[100], s[7] = 1, 1; return s }()

// doEntry: one entry value through the real reader; then the whole discovery path for the node (oracle only).
func doEntry(run *hx.Run, ent string, raw []byte, present bool) {
	var entries []enrEntry
	if present {
		entries = append(entries, enrEntry{ent, raw})
	}
	// the other entry is well-formed, so that the discovery path goes on after reading this one
	if ent == "domaintype" {
		sn := make([]byte, 16)
		sn[12], sn[0] = 0x10, byte(len(raw))
		entries = append(entries, enrEntry{"subnets", rlpStr(sn)})
	} else {
		d := world(4).NetCfg.Domain
		entries = append(entries, enrEntry{"domaintype", rlpStr(d[:])})
	}
	enc, built := wireRecord(entries, true)
	var node *enode.Node
	if built {
		node = nodeFromWire(enc)
	}
	// the abstraction is taken from the value the DECODED record holds for the entry (a truncated item swallows the following
	// entries on the wire, so it need not be `raw`), classified by go-ethereum's rlp
	kind, val := "a", []byte(nil)
	if node != nil {
		var rv rlp.RawValue
		if err := node.Record().Load(enr.WithEntry(ent, &rv)); err == nil {
			var b []byte
			if err := rlp.DecodeBytes(rv, &b); err == nil {
				kind, val = "s", b
			} else {
				kind = "n"
			}
		} else if !enr.IsNotFound(err) {
			kind = "n"
		}
	}
	op := fmt.Sprintf("e ent=%s rec=%d kind=%s val=%s raw=%s", ent, b2i(node != nil), kind, hexOrDash(val), hexOrDash(raw))
	if node == nil {
		run.Emit(op, "norecord")
		run.Tag("enr/" + ent + "/norecord")
		return
	}
	obs, stack := "", ""
	func() {
		defer func() {
			if p := recover(); p != nil {
				stack = string(debug.Stack())
				obs = "panic:" + fuzzSite(stack)
			}
		}()
		switch ent {
		case "domaintype":
			dt, err := records.GetDomainTypeEntry(node.Record())
			switch {
			case errors.Is(err, records.ErrEntryNotFound):
				obs = "notfound"
			case err != nil:
				obs = "err"
			default:
				obs = "ok:" + hex.EncodeToString(dt[:])
			}
		case "subnets":
			s, err := records.GetSubnetsEntry(node.Record())
			switch {
			case errors.Is(err, records.ErrEntryNotFound):
				obs = "notfound"
			case err != nil:
				obs = "err"
			default:
				obs = "ok:" + hex.EncodeToString(packBits128(s))
				if len(s) != 128 {
					obs += fmt.Sprintf(":len%d", len(s))
				}
			}
		default:
			obs = "bad-op"
		}
	}()
	run.Emit(op, obs)
	cls := obs
	if i := strings.Index(cls, ":"); i > 0 {
		cls = cls[:i]
	}
	run.Tag("enr/" + ent + "/" + cls)
	run.Seen(fmt.Sprintf("enr|%s|%s|%s|len%d", ent, kind, cls, hx.Min(len(val), 41)))
	if strings.HasPrefix(obs, "panic:") {
		sig := "C08/panic:enr-" + ent + ":" + strings.TrimPrefix(obs, "panic:")
		if ent == "domaintype" && kind == "s" && len(val) < 4 {
			sig = "C08/panic:enr-domaintype-short" // the defect repaired by aac5f5f72
		}
		run.Violate(sig, fmt.Sprintf("reading the %q entry of a discovered peer's node record panicked (value: %s, %d bytes) at %s", ent, kind, len(val), obs), op)
		return
	}
	discovered(run, node, op)
}

// discovered: ToPeer, badNodeFilter, subnetFilter, sharedSubnetsFilter, checkPeer on the real service code.
func discovered(run *hx.Run, node *enode.Node, op string) {
	for _, atLimit := range []bool{false, true} {
		stage, site := "", ""
		func() {
			defer func() {
				if p := recover(); p != nil {
					site = fuzzSite(string(debug.Stack())) + ":" + strings.ReplaceAll(fmt.Sprint(p), " ", "_")
				}
			}()
			stage, _ = discovery.VerifDiscovered(node, ownSubnets, world(4).NetCfg.Domain, atLimit, 100)
		}()
		if site != "" {
			sig := "C08/panic:enr-discovered:" + strings.SplitN(site, ":", 2)[0]
			if strings.Contains(site, "DomainTypeEntry") {
				sig = "C08/panic:enr-domaintype-short"
			}
			run.Violate(sig, "the discovery service panicked on a discovered peer's node record ("+site+")", op)
			return
		}
		run.Tag("enr/discovered/" + stage)
	}
}

func entryReplay(run *hx.Run, ws []string) {
	ent, _ := kvOf(ws, "ent")
	kind, _ := kvOf(ws, "kind")
	raw, _ := kvOf(ws, "raw")
	var b []byte
	if raw != "-" {
		b = unhex(raw)
	}
	doEntry(run, ent, b, kind != "a")
}

func rlpStr(b []byte) []byte {
	o, _ := rlp.EncodeToBytes(b)
	return o
}

// genRecords: every length 0..40 of a byte string (random and all-zero / all-ones content), single bytes below and above 0x80,
// integers, lists (empty, of bytes, nested), non-canonical and truncated items, trailing bytes, empty value, absent entry —
// for both entries; then n random ones.
func genRecords(run *hx.Run, r *hx.Rng, n int) {
	for _, ent := range []string{"domaintype", "subnets"} {
		doEntry(run, ent, nil, false)
		for l := 0; l <= 40; l++ {
			doEntry(run, ent, rlpStr(r.Bytes(l)), true)
		}
		for _, l := range []int{0, 1, 3, 4, 5, 15, 16, 17} {
			doEntry(run, ent, rlpStr(make([]byte, l)), true)
			ff := make([]byte, l)
			for i := range ff {
				ff[i] = 0xff
			}
			doEntry(run, ent, rlpStr(ff), true)
		}
		for _, v := range []uint64{0, 1, 127, 128, 255, 256, 65535, 1 << 24, 1<<32 - 1, 1 << 32, 1<<64 - 1} {
			b, _ := rlp.EncodeToBytes(v)
			doEntry(run, ent, b, true)
		}
		lists := [][]byte{{0xc0}, {0xc1, 0x01}, {0xc4, 1, 2, 3, 4}, {0xc2, 0xc0, 0xc0}, {0xc5, 0x84, 0, 0, 0x30, 0x12}}
		l16, _ := rlp.EncodeToBytes([][]byte{make([]byte, 16)})
		lists = append(lists, l16)
		for _, b := range lists {
			doEntry(run, ent, b, true)
		}
		for _, b := range [][]byte{{}, {0x81, 0x05}, {0xb8, 0x01, 0x61}, {0x84, 1, 2}, {0x84, 1, 2, 3, 4, 5}, {0x01, 0x02}, {0xc3, 1}, {0xbf}, {0xf8}} {
			doEntry(run, ent, b, true)
		}
	}
	for i := 0; i < n; i++ {
		ent := []string{"domaintype", "subnets"}[r.Intn(2)]
		var raw []byte
		switch r.Intn(5) {
		case 0:
			raw = rlpStr(r.Bytes(r.Intn(6)))
		case 1:
			raw = rlpStr(r.Bytes(r.Intn(41)))
		case 2:
			raw = rlpStr(r.Bytes(16))
		case 3:
			raw = r.Bytes(1 + r.Intn(6))
		default:
			raw = mutateBytes(r, rlpStr(r.Bytes(r.Intn(20))))
		}
		doEntry(run, ent, raw, true)
	}
}

// enrRecordTarget: arbitrary wire bytes of a whole record (fuzz target `enr-record`).
func enrRecordTarget(b []byte) {
	node := nodeFromWire(b)
	if node == nil {
		return
	}
	_, _ = records.GetDomainTypeEntry(node.Record())
	_, _ = records.GetSubnetsEntry(node.Record())
	_, _ = discovery.VerifDiscovered(node, ownSubnets, world(4).NetCfg.Domain, false, 100)
	_, _ = discovery.VerifDiscovered(node, ownSubnets, world(4).NetCfg.Domain, true, 7)
}

func enrSeeds(r *hx.Rng) [][]byte {
	var out [][]byte
	for i := 0; i < 12; i++ {
		var es []enrEntry
		if r.Chance(80) {
			es = append(es, enrEntry{"domaintype", rlpStr(r.Bytes([]int{0, 1, 3, 4, 4, 4, 5, 32}[r.Intn(8)]))})
		}
		if r.Chance(80) {
			es = append(es, enrEntry{"subnets", rlpStr(r.Bytes([]int{0, 1, 15, 16, 16, 16, 17, 40}[r.Intn(8)]))})
		}
		if r.Chance(30) {
			es = append(es, enrEntry{"tcp", rlpStr(r.Bytes(r.Intn(4)))}, enrEntry{"ip", rlpStr(r.Bytes([]int{0, 3, 4, 16, 17}[r.Intn(5)]))})
		}
		if enc, ok := wireRecord(es, r.Chance(70)); ok {
			out = append(out, enc)
		}
	}
	return out
}
