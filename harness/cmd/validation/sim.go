package main

// Real multi-operator QBFT runs: n real controllers (protocol/v2/qbft/controller) with real share keys and
// signature verification, wired through an in-process network that also loops every broadcast back to its
// sender. Rounds advance by firing the real timeout handler (Controller.OnTimeout) at the deadlines of the
// real RoundTimeout rule. Every broadcast is captured with the logical time at which it was sent.
// The captured traffic is (a) the honest traffic of the C09 mutation generator and (b) the subject of C10.

import (
	"encoding/json"
	"fmt"
	"time"

	specqbft "github.com/bloxapp/ssv-spec/qbft"
	spectypes "github.com/bloxapp/ssv-spec/types"
	tu "github.com/bloxapp/ssv-spec/types/testingutils"
	"go.uber.org/zap"

	qbftstorage "github.com/bloxapp/ssv/ibft/storage"
	"github.com/bloxapp/ssv/protocol/v2/qbft"
	qbftcontroller "github.com/bloxapp/ssv/protocol/v2/qbft/controller"
	"github.com/bloxapp/ssv/protocol/v2/qbft/roundtimer"
	ssvtypes "github.com/bloxapp/ssv/protocol/v2/types"
	"github.com/bloxapp/ssv/storage/basedb"
	"github.com/bloxapp/ssv/storage/kv"
	"github.com/bloxapp/ssv/zz_verif/lib/hx"
)

var simLog = zap.NewNop()

// one in-memory Badger for all simulated operators; every operator of every run gets its own key prefix
var (
	simDBInst basedb.Database
	simSeq    int
)

func simDB() basedb.Database {
	if simDBInst == nil {
		db, err := kv.NewInMemory(simLog, basedb.Options{})
		if err != nil {
			panic(err)
		}
		simDBInst = db
	}
	return simDBInst
}

// Emission is one broadcast of one operator.
type Emission struct {
	From  spectypes.OperatorID
	Msg   *spectypes.SSVMessage
	At    time.Duration // logical send time, relative to the start of the duty's slot
	Round uint64
	Type  uint64
	NSig  int
}

type capNet struct {
	sim  *Sim
	from spectypes.OperatorID
}

func (n *capNet) Broadcast(m *spectypes.SSVMessage) error {
	n.sim.capture(n.from, m)
	return nil
}

type simNode struct {
	id   spectypes.OperatorID
	ctrl *qbftcontroller.Controller
}

type Sim struct {
	W       *World
	Role    spectypes.BeaconRole
	Height  uint64
	nodes   []*simNode
	pending []*Emission
	Log     []*Emission
	now     time.Duration
	// schedule knobs
	DropProposalsBelow uint64                        // proposals of rounds < this value are lost in transit (their leaders are "too slow")
	DropCommitsBelow   uint64                        // commits of rounds < this value are lost in transit
	Silent             map[spectypes.OperatorID]bool // operators that are down (receive and send nothing)
	rng                *hx.Rng
	Shuffle            bool
	Steps              int
	// per-receiver gossip order (scenario "overtake"): every receiver has its own inbox and its own priority among the
	// senders of single commits; decided aggregates overtake single commits; per-sender order is preserved
	PerReceiver bool
	inbox       map[spectypes.OperatorID][]*Emission
	prio        map[spectypes.OperatorID]map[spectypes.OperatorID]int // receiver -> sender -> rank (lower = earlier)
}

// consensusStart: when the runner of this role starts the QBFT instance, relative to the slot start
// (attester / sync committee wait a third of the slot, aggregator / contribution two thirds; the proposer starts
// after the randao quorum, modelled as slot start).
func consensusStart(role spectypes.BeaconRole) time.Duration {
	switch role {
	case spectypes.BNRoleAttester, spectypes.BNRoleSyncCommittee:
		return 4 * time.Second
	case spectypes.BNRoleAggregator, spectypes.BNRoleSyncCommitteeContribution:
		return 8 * time.Second
	}
	return 0
}

// roundDeadline: when the real RoundTimer fires for `round`, relative to the slot start (RoundTimeout of
// protocol/v2/qbft/roundtimer/timer.go; for the proposer role the timeout is relative to the previous arming).
func roundDeadline(role spectypes.BeaconRole, round uint64) time.Duration {
	add := func(r uint64) time.Duration {
		if r <= uint64(roundtimer.QuickTimeoutThreshold) {
			return time.Duration(r) * roundtimer.QuickTimeout
		}
		return time.Duration(roundtimer.QuickTimeoutThreshold)*roundtimer.QuickTimeout + time.Duration(r-uint64(roundtimer.QuickTimeoutThreshold))*roundtimer.SlowTimeout
	}
	return consensusStart(role) + add(round)
}

func NewSim(w *World, role spectypes.BeaconRole, height uint64, r *hx.Rng) *Sim {
	s := &Sim{W: w, Role: role, Height: height, Silent: map[spectypes.OperatorID]bool{}, rng: r}
	id := spectypes.NewMsgID(w.NetCfg.Domain, w.PKs[vMain], role)
	for i := 1; i <= w.N; i++ {
		op := spectypes.OperatorID(i)
		sh := tu.TestingShare(w.KS)
		sh.OperatorID = op
		sh.SharePubKey = w.KS.Shares[op].GetPublicKey().Serialize()
		sh.Quorum, sh.PartialQuorum = ssvtypes.ComputeQuorumAndPartialQuorum(len(sh.Committee))
		simSeq++
		cfg := &qbft.Config{
			Signer:    tu.NewTestingKeyManager(),
			SigningPK: sh.SharePubKey,
			Domain:    w.NetCfg.Domain,
			ValueCheckF: func(data []byte) error {
				if len(data) == 0 {
					return fmt.Errorf("empty value")
				}
				return nil
			},
			ProposerF: func(state *specqbft.State, round specqbft.Round) spectypes.OperatorID {
				return specqbft.RoundRobinProposer(state, round) // as operator/validator.SetupRunners
			},
			Storage:               qbftstorage.New(simDB(), fmt.Sprintf("sim%d-op%d", simSeq, op)),
			Network:               &capNet{sim: s, from: op},
			Timer:                 roundtimer.NewTestingTimer(),
			SignatureVerification: true,
		}
		s.nodes = append(s.nodes, &simNode{id: op, ctrl: qbftcontroller.NewController(id[:], sh, cfg, false)})
	}
	return s
}

func (s *Sim) capture(from spectypes.OperatorID, m *spectypes.SSVMessage) {
	if s.Silent[from] {
		return
	}
	sm := &specqbft.SignedMessage{}
	if err := sm.Decode(m.Data); err != nil {
		panic(err)
	}
	s.now += time.Millisecond
	e := &Emission{From: from, Msg: m, At: s.now, Round: uint64(sm.Message.Round), Type: uint64(sm.Message.MsgType), NSig: len(sm.Signers)}
	s.Log = append(s.Log, e)
	if s.PerReceiver {
		for _, n := range s.nodes {
			if !s.Silent[n.id] {
				s.inbox[n.id] = append(s.inbox[n.id], e)
			}
		}
		return
	}
	s.pending = append(s.pending, e)
}

// nextFor picks the next message receiver `to` gets: among the oldest undelivered message of every sender (per-sender
// FIFO), a decided aggregate first, then anything that is not a single commit (oldest first), then single commits by the
// receiver's own sender ranking.
func (s *Sim) nextFor(to spectypes.OperatorID, pass int) int {
	in := s.inbox[to]
	seen := map[spectypes.OperatorID]bool{}
	best, bestScore := -1, 1<<30
	for i, e := range in {
		if seen[e.From] {
			continue
		}
		seen[e.From] = true
		score := 0
		switch {
		case e.Type == uint64(specqbft.CommitMsgType) && e.NSig > 1:
			score = 0
		case e.Type != uint64(specqbft.CommitMsgType):
			score = 1000 + i
		default:
			score = 100000 + s.prio[to][e.From]
		}
		// pass 0: everything but single commits, at every operator (so all of them reach the commit phase and decided
		// aggregates travel fast); pass 1: single commits; pass 2: the commits of the sender this receiver hears late
		if (pass == 0 && score >= 100000) || (pass == 1 && score >= 100900) {
			continue
		}
		if score < bestScore {
			best, bestScore = i, score
		}
	}
	return best
}

func (s *Sim) deliver(n *simNode, e *Emission) {
	sm := &specqbft.SignedMessage{}
	if err := sm.Decode(e.Msg.Data); err != nil {
		panic(err)
	}
	_, _ = n.ctrl.ProcessMsg(simLog, sm)
	s.Steps++
}

func (s *Sim) lost(e *Emission) bool {
	if e.Type == uint64(specqbft.ProposalMsgType) && e.Round < s.DropProposalsBelow {
		return true
	}
	if e.Type == uint64(specqbft.CommitMsgType) && e.NSig == 1 && e.Round < s.DropCommitsBelow {
		return true
	}
	return false
}

func (s *Sim) allDecided() bool {
	for _, n := range s.nodes {
		if s.Silent[n.id] {
			continue
		}
		inst := n.ctrl.StoredInstances.FindInstance(specqbft.Height(s.Height))
		if inst == nil {
			return false
		}
		if d, _ := inst.IsDecided(); !d {
			return false
		}
	}
	return true
}

func (s *Sim) maxRound() uint64 {
	var r uint64
	for _, n := range s.nodes {
		if inst := n.ctrl.StoredInstances.FindInstance(specqbft.Height(s.Height)); inst != nil && uint64(inst.State.Round) > r {
			r = uint64(inst.State.Round)
		}
	}
	return r
}

// Run starts the instance on every live operator with per-operator start values and runs until every live
// operator decided or `maxRounds` timeouts were fired.
func (s *Sim) Run(values func(op spectypes.OperatorID) []byte, maxRounds uint64) {
	s.now = consensusStart(s.Role)
	for _, n := range s.nodes {
		if s.Silent[n.id] {
			continue
		}
		if err := n.ctrl.StartNewInstance(simLog, specqbft.Height(s.Height), values(n.id)); err != nil {
			panic(err)
		}
	}
	for guard := 0; guard < 100000; guard++ {
		if s.PerReceiver {
			// the lowest-numbered operator with mail goes first (it decides first; its aggregate then races the others' commits)
			delivered := false
			for pass := 0; pass < 3 && !delivered; pass++ {
				for _, n := range s.nodes {
					if s.Silent[n.id] || len(s.inbox[n.id]) == 0 {
						continue
					}
					i := s.nextFor(n.id, pass)
					if i < 0 {
						continue
					}
					e := s.inbox[n.id][i]
					s.inbox[n.id] = append(s.inbox[n.id][:i:i], s.inbox[n.id][i+1:]...)
					if !s.lost(e) {
						s.deliver(n, e)
					}
					delivered = true
					break
				}
			}
			if delivered {
				continue
			}
		}
		if len(s.pending) > 0 {
			i := 0
			if s.Shuffle && s.rng != nil {
				i = s.rng.Intn(hx.Min(len(s.pending), 4))
			}
			e := s.pending[i]
			s.pending = append(s.pending[:i], s.pending[i+1:]...)
			if s.lost(e) {
				continue
			}
			for _, n := range s.nodes {
				if s.Silent[n.id] {
					continue
				}
				sm := &specqbft.SignedMessage{}
				if err := sm.Decode(e.Msg.Data); err != nil {
					panic(err)
				}
				_, _ = n.ctrl.ProcessMsg(simLog, sm) // errors: duplicates, past rounds, … as in the node
				s.Steps++
			}
			continue
		}
		if s.allDecided() {
			return
		}
		// nothing in flight: the round timers fire
		cur := s.maxRound()
		if cur >= maxRounds {
			return
		}
		if d := roundDeadline(s.Role, cur); d > s.now {
			s.now = d
		}
		for _, n := range s.nodes {
			if s.Silent[n.id] {
				continue
			}
			inst := n.ctrl.StoredInstances.FindInstance(specqbft.Height(s.Height))
			if inst == nil {
				continue
			}
			td, _ := json.Marshal(ssvtypes.TimeoutData{Height: specqbft.Height(s.Height), Round: inst.State.Round})
			_ = n.ctrl.OnTimeout(simLog, ssvtypes.EventMsg{Type: ssvtypes.Timeout, Data: td})
		}
	}
}

// Scenario names a schedule of a real run.
type Scenario struct {
	Name      string
	DropProp  uint64
	DropCom   uint64
	Silent    []spectypes.OperatorID
	MaxRounds uint64
	Shuffle   bool
	SameValue bool
	Overtake  int // > 0: per-receiver gossip order; 1 = directed sender rankings, otherwise rankings drawn from the seed
}

func valueFor(same bool, role spectypes.BeaconRole, height uint64) func(op spectypes.OperatorID) []byte {
	return func(op spectypes.OperatorID) []byte {
		v := append([]byte{}, tu.TestingQBFTFullData...)
		v = append(v, byte(role), byte(height), byte(height>>8))
		if !same {
			v = append(v, byte(op))
		}
		return v
	}
}

func RunScenario(w *World, role spectypes.BeaconRole, height uint64, sc Scenario, r *hx.Rng) *Sim {
	s := NewSim(w, role, height, r)
	s.DropProposalsBelow, s.DropCommitsBelow, s.Shuffle = sc.DropProp, sc.DropCom, sc.Shuffle
	for _, o := range sc.Silent {
		s.Silent[o] = true
	}
	if sc.Overtake > 0 {
		s.PerReceiver = true
		s.inbox = map[spectypes.OperatorID][]*Emission{}
		s.prio = map[spectypes.OperatorID]map[spectypes.OperatorID]int{}
		n := w.N
		for to := 1; to <= n; to++ {
			rank := map[spectypes.OperatorID]int{}
			if sc.Overtake == 1 {
				// directed: receiver `to` hears the commits of operator to+2 (cyclically) last: operator 1 decides without
				// operator 3; operator 2 then combines that aggregate with commit(3) before commit(4) arrives
				for from := 1; from <= n; from++ {
					rank[spectypes.OperatorID(from)] = from
				}
				rank[spectypes.OperatorID((to+1)%n+1)] = 1000
			} else {
				for i, from := range r.Perm(n) {
					rank[spectypes.OperatorID(from+1)] = i
					if i == n-1 {
						rank[spectypes.OperatorID(from+1)] = 1000
					}
				}
			}
			s.prio[spectypes.OperatorID(to)] = rank
		}
	}
	mr := sc.MaxRounds
	if mr == 0 {
		mr = maxRoundOf(role) + 1 // one timeout beyond the role maximum: the round-change for max+1 must be ignored, not rejected
	}
	s.Run(valueFor(sc.SameValue, role, height), mr)
	return s
}
