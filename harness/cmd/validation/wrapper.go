package main

// C08: the FULL pubsub entry point. ValidatePubsubMessage does more than validateP2PMessage: whatever the verdict, it builds
// the log fields of the Descriptor (message type names, role, round, signers, committee), logs at debug level and labels
// metrics with them. Those conversions run on attacker-chosen field values, so they are driven here with a REAL metrics
// reporter and a logger that encodes every field, for every QBFT / partial-signature / SSV message type value around and far
// beyond the known ones, every role, before and after the fork, under the no-panic oracle (`f pubsub-full <bytes>`).
// ValidatePubsubMessage reads the wall clock itself, so there is no model verdict for these calls (oracle only).

import (
	"context"
	"io"
	"time"

	"github.com/attestantio/go-eth2-client/spec/phase0"
	specqbft "github.com/bloxapp/ssv-spec/qbft"
	spectypes "github.com/bloxapp/ssv-spec/types"
	tu "github.com/bloxapp/ssv-spec/types/testingutils"
	pubsub "github.com/libp2p/go-libp2p-pubsub"
	pspb "github.com/libp2p/go-libp2p-pubsub/pb"
	"go.uber.org/zap"
	"go.uber.org/zap/zapcore"

	"github.com/bloxapp/ssv/message/validation"
	"github.com/bloxapp/ssv/monitoring/metricsreporter"
	"github.com/bloxapp/ssv/network/commons"
	"github.com/bloxapp/ssv/zz_verif/lib/hx"
)

var fullMV [2]validation.MessageValidator // [0] before the fork, [1] signed envelopes active

func fullValidators() [2]validation.MessageValidator {
	if fullMV[0] == nil {
		w := world(4)
		enc := zapcore.NewJSONEncoder(zap.NewProductionEncoderConfig())
		logger := zap.New(zapcore.NewCore(enc, zapcore.AddSync(io.Discard), zapcore.DebugLevel))
		mr := metricsreporter.New()
		fullMV[0] = validation.NewMessageValidator(w.NetCfg, validation.WithNodeStorage(w.NS), validation.WithDutyStore(w.Duties),
			validation.WithMetrics(mr), validation.WithLogger(logger))
		fullMV[1] = validation.NewMessageValidator(w.NetCfgS, validation.WithNodeStorage(w.NS), validation.WithDutyStore(w.Duties),
			validation.WithMetrics(mr), validation.WithLogger(logger))
	}
	return fullMV
}

// pubsubFullTarget: b[0]&1 selects the validator (signed envelopes or not); the rest is the pubsub payload. The topic is the one
// the payload's validator key maps to (so that the call reaches validateSSVMessage), the clock is the real one.
func pubsubFullTarget(b []byte) {
	if len(b) == 0 {
		return
	}
	mvs := fullValidators()
	signed := b[0]&1 == 1
	data := b[1:]
	payload := data
	if signed {
		if p, _, _, err := commons.DecodeSignedSSVMessage(data); err == nil {
			payload = p
		}
	}
	topic := commons.GetTopicFullName(commons.SubnetTopicID(0))
	if m, err := commons.DecodeNetworkMsg(payload); err == nil && m != nil {
		if ts := commons.ValidatorTopicID(m.GetID().GetPubKey()); len(ts) > 0 {
			topic = commons.GetTopicFullName(ts[0])
		}
	}
	mv := mvs[0]
	if signed {
		mv = mvs[1]
	}
	world(4).SetClock(time.Now())
	pm := &pubsub.Message{Message: &pspb.Message{Data: data, Topic: &topic}}
	_ = mv.ValidatePubsubMessage(context.Background(), fuzzPeer, pm)
}

var interestingTypes = []uint64{0, 1, 2, 3, 4, 5, 6, 7, 8, 255, 256, 1 << 31, 1 << 32, 1 << 63, 1<<64 - 1}

// pubsubWrapperSweep: well-formed messages of a known validator for the slot the wall clock is in (so that some are accepted
// and the rest fail at every later stage) and for a long expired slot, with every interesting type value.
func pubsubWrapperSweep(run *hx.Run, r *hx.Rng) {
	fuzzSetup()
	w := world(4)
	ks := w.KS
	c := &Case{run: run, W: w}
	nowSlot := uint64(w.NetCfg.Beacon.EstimatedSlotAtTime(time.Now().Unix()))
	send := func(msg *spectypes.SSVMessage, signedBy spectypes.OperatorID, mode string) {
		enc, err := commons.EncodeNetworkMsg(msg)
		if err != nil {
			return
		}
		runFuzzTarget(run, "pubsub-full", append([]byte{0}, enc...))
		if signedBy != 0 {
			wrapped, _, _ := c.envelope(enc, Env{Mode: mode, Op: signedBy})
			runFuzzTarget(run, "pubsub-full", append([]byte{1}, wrapped...))
		}
	}
	roles := []spectypes.BeaconRole{0, 1, 2, 3, 4, 5, 6, 7, 1 << 20}
	for _, slot := range []uint64{nowSlot, baseSlot} {
		for _, mt := range interestingTypes {
			role := roles[r.Intn(5)]
			signer := spectypes.OperatorID(1 + r.Intn(4))
			m := tu.TestingCommitMessageWithParams(ks.Shares[signer], signer, specqbft.Round(1+r.Intn(3)), specqbft.Height(slot), []byte{1, 2, 3, 4}, tu.TestingQBFTRootData)
			m.FullData = nil
			m.Message.MsgType = specqbft.MessageType(mt)
			send(kitSSV(w, role, m), spectypes.OperatorID(1+r.Intn(4)), "v")
			// partial signature message types
			pm := tu.PostConsensusAttestationMsg(ks.Shares[signer], signer, specqbft.Height(slot))
			pm.Message.Slot = phase0.Slot(slot)
			pm.Message.Type = spectypes.PartialSigMsgType(mt)
			if penc, err := pm.Encode(); err == nil {
				send(ssvOf(w, vMain, roles[r.Intn(len(roles))], spectypes.SSVPartialSignatureMsgType, penc), 2, "v")
			}
			// SSV message types (consensus body under every type value)
			if menc, err := m.Encode(); err == nil {
				send(ssvOf(w, vMain, role, spectypes.MsgType(mt), menc), 3, "v")
			}
		}
		// every role value with honest bodies, rounds beyond every limit, many signers
		for _, role := range roles {
			m := tu.TestingPrepareMessageWithParams(ks.Shares[2], 2, specqbft.Round(interestingTypes[r.Intn(len(interestingTypes))]), specqbft.Height(slot), []byte{1, 2, 3, 4}, tu.TestingQBFTRootData)
			m.FullData = nil
			send(kitSSV(w, role, m), 1, "v")
			d := DecidedKit(ks, specqbft.Height(slot), 1, []spectypes.OperatorID{1, 2, 3})
			send(kitSSV(w, role, d), 1, "v")
		}
		// envelopes naming operators whose registered key is not an RSA key, unknown operators, corrupted signatures
		m := tu.TestingCommitMessageWithParams(ks.Shares[1], 1, 1, specqbft.Height(slot), []byte{1, 2, 3, 4}, tu.TestingQBFTRootData)
		m.FullData = nil
		for op := spectypes.OperatorID(weirdOpFirst); op <= weirdOpLast; op++ {
			send(kitSSV(w, spectypes.BNRoleAttester, m), op, "w")
		}
		send(kitSSV(w, spectypes.BNRoleAttester, m), 1, "f")
		send(kitSSV(w, spectypes.BNRoleAttester, m), 1, "i")
	}
}

// weirdOperatorSweep: the same envelopes through the modelled entry points (verdict diffed with the model: the signature check
// fails, `SignatureVerification`), for consensus and partial-signature messages.
func weirdOperatorSweep(run *hx.Run, r *hx.Rng) {
	t := pickTrace(run, r, 1)
	if len(t.Msgs) == 0 {
		return
	}
	for op := spectypes.OperatorID(weirdOpFirst); op <= weirdOpLast; op++ {
		k := r.Intn(len(t.Msgs))
		c := NewCase(run, t.W, false, "c08/weird-operator-key")
		c.ValidateSSV(t.Msgs[k].Msg, t.Time(k), Env{Mode: "w", Op: op}, "weird-operator-key")
		c.ValidateSSV(t.Msgs[k].Msg, t.Time(k), Env{Mode: "w", Op: op}, "weird-operator-key-again")
		c2 := NewCase(run, t.W, true, "c08/weird-operator-key-p2p")
		enc, err := t.Msgs[k].Msg.Encode()
		if err != nil {
			continue
		}
		data, _, _ := c2.envelope(enc, Env{Mode: "w", Op: op})
		c2.ValidateP2P(data, topicsOf(t.Msgs[k].Msg)[0], t.Time(k), "weird-operator-key-p2p")
		c2.ValidateP2P(data, topicsOf(t.Msgs[k].Msg)[0], t.Time(k), "weird-operator-key-p2p-again")
	}
}
