package main

// C10: the validator's duty store is the one REAL duty handlers maintain (operator/duties ProposerHandler and
// SyncCommitteeHandler, wired to the validator through validation.WithDutyStore as cli/operator/node.go does). The
// handlers are ticked slot by slot through epoch / sync-period boundaries; the honest proposer-role (sync-committee-role)
// traffic of duties in the first, a middle and the LAST slot of an epoch is validated at its real receive times, rounds
// 1..3, i.e. also after the duty's slot (and epoch) ended. Oracle: never reject.
// Plus `excludedPoint`: the c10-prover's boundary witness run on the real controller and the real validator.

import (
	"context"
	"encoding/json"
	"fmt"
	"sync/atomic"
	"time"

	eth2client "github.com/attestantio/go-eth2-client"
	eth2apiv1 "github.com/attestantio/go-eth2-client/api/v1"
	"github.com/attestantio/go-eth2-client/spec/phase0"
	specqbft "github.com/bloxapp/ssv-spec/qbft"
	spectypes "github.com/bloxapp/ssv-spec/types"
	"go.uber.org/zap"

	"github.com/bloxapp/ssv/networkconfig"
	"github.com/bloxapp/ssv/operator/duties"
	"github.com/bloxapp/ssv/operator/duties/dutystore"
	"github.com/bloxapp/ssv/operator/slotticker"
	ssvtypes "github.com/bloxapp/ssv/protocol/v2/types"
	"github.com/bloxapp/ssv/zz_verif/lib/hx"
)

type hTicker struct {
	slot atomic.Uint64
	ch   chan time.Time
}

func (t *hTicker) Next() <-chan time.Time { return t.ch }
func (t *hTicker) Slot() phase0.Slot      { return phase0.Slot(t.slot.Load()) }

// peerDuties: mock of the beacon node (duty queries) and of the validator controller (active indices).
type peerDuties struct {
	pk        phase0.BLSPubKey
	propSlots func(epoch uint64) []uint64
	outside   bool // the validating node is NOT a member of the validator's committee (it only shares the subnet)
}

func (b *peerDuties) AttesterDuties(context.Context, phase0.Epoch, []phase0.ValidatorIndex) ([]*eth2apiv1.AttesterDuty, error) {
	return nil, nil
}
func (b *peerDuties) ProposerDuties(_ context.Context, epoch phase0.Epoch, _ []phase0.ValidatorIndex) ([]*eth2apiv1.ProposerDuty, error) {
	var out []*eth2apiv1.ProposerDuty
	for _, s := range b.propSlots(uint64(epoch)) {
		out = append(out, &eth2apiv1.ProposerDuty{PubKey: b.pk, Slot: phase0.Slot(s), ValidatorIndex: valIndex})
	}
	return out, nil
}
func (b *peerDuties) SyncCommitteeDuties(context.Context, phase0.Epoch, []phase0.ValidatorIndex) ([]*eth2apiv1.SyncCommitteeDuty, error) {
	return []*eth2apiv1.SyncCommitteeDuty{{PubKey: b.pk, ValidatorIndex: valIndex, ValidatorSyncCommitteeIndices: []phase0.CommitteeIndex{1}}}, nil
}
func (b *peerDuties) Events(context.Context, []string, eth2client.EventHandlerFunc) error { return nil }
func (b *peerDuties) SubmitBeaconCommitteeSubscriptions(context.Context, []*eth2apiv1.BeaconCommitteeSubscription) error {
	return nil
}
func (b *peerDuties) SubmitSyncCommitteeSubscriptions(context.Context, []*eth2apiv1.SyncCommitteeSubscription) error {
	return nil
}
func (b *peerDuties) CommitteeActiveIndices(phase0.Epoch) []phase0.ValidatorIndex {
	if b.outside {
		return nil // duties of validators the node does not run are stored with inCommittee = false
	}
	return []phase0.ValidatorIndex{valIndex}
}
func (b *peerDuties) AllActiveIndices(phase0.Epoch, bool) []phase0.ValidatorIndex {
	return []phase0.ValidatorIndex{valIndex}
}
func (b *peerDuties) GetOperatorShares() []*ssvtypes.SSVShare { return nil }

type dutyHandler interface {
	HandleDuties(context.Context)
	HandleInitialDuties(context.Context)
}

// handlerPeer: one real handler with its ticker; tick() returns when the tick has been completely handled.
type handlerPeer struct {
	tk     *hTicker
	reorg  chan duties.ReorgEvent
	cancel context.CancelFunc
}

func startHandler(w *World, kind string, store *dutystore.Store, bn *peerDuties) *handlerPeer {
	p := &handlerPeer{tk: &hTicker{ch: make(chan time.Time)}, reorg: make(chan duties.ReorgEvent)}
	var h dutyHandler
	setup := func(name string, s interface {
		Setup(string, *zap.Logger, duties.BeaconNode, duties.ExecutionClient, networkconfig.NetworkConfig, duties.ValidatorController, duties.ExecuteDutiesFunc, slotticker.Provider, chan duties.ReorgEvent, chan struct{})
	}) {
		s.Setup(name, zap.NewNop(), bn, nil, w.NetCfg, bn, func(*zap.Logger, []*spectypes.Duty) {}, func() slotticker.SlotTicker { return p.tk }, p.reorg, make(chan struct{}))
	}
	switch kind {
	case "prop":
		x := duties.NewProposerHandler(store.Proposer)
		setup(x.Name(), x)
		h = x
	default:
		x := duties.NewSyncCommitteeHandler(store.SyncCommittee)
		setup(x.Name(), x)
		h = x
	}
	ctx, cancel := context.WithCancel(context.Background())
	p.cancel = cancel
	h.HandleInitialDuties(ctx)
	go h.HandleDuties(ctx)
	return p
}

// tick hands the slot to the handler and waits (barrier: a no-op reorg notice) until it is back in its select loop.
func (p *handlerPeer) tick(slot uint64) bool {
	p.tk.slot.Store(slot)
	select {
	case p.tk.ch <- time.Now():
	case <-time.After(hangWatchdog):
		return false
	}
	select {
	case p.reorg <- duties.ReorgEvent{Slot: phase0.Slot(slot)}:
		return true
	case <-time.After(hangWatchdog):
		return false
	}
}

func dutyHandlerRuns(run *hx.Run, r *hx.Rng) {
	dutyHandlerRun(run, r, false)
	dutyHandlerRun(run, r, true) // the receiver validates messages of a validator it does not run
}

func dutyHandlerRun(run *hx.Run, r *hx.Rng, outside bool) {
	w := world(4)
	tagSuffix := ""
	if outside {
		tagSuffix = "-outside-committee"
	}
	var pk phase0.BLSPubKey
	copy(pk[:], w.PKs[vMain])
	// ---- proposer: duties in the first, a middle and the last slot of epochs 1000 and 1001
	{
		store := dutystore.New()
		bn := &peerDuties{pk: pk, outside: outside, propSlots: func(e uint64) []uint64 { return []uint64{32 * e, 32*e + 14, 32*e + 31} }}
		first := uint64(baseSlot)
		w.SetClock(w.SlotStart(first))
		peer := startHandler(w, "prop", store, bn)
		defer peer.cancel()
		c := NewCaseWithStore(run, w, store, outside, "c10/duty-handlers/proposer"+tagSuffix)
		dutySlots := []uint64{first, first + 14, first + 31, first + 32, first + 46, first + 63}
		traces := map[uint64]*Trace{}
		for i, s := range dutySlots {
			sc := scenarios[3] // two lost leaders: rounds 1..3
			if i%2 == 1 {
				sc = scenarios[2]
			}
			traces[s] = traceFor(4, spectypes.BNRoleProposer, sc, s, hx.NewRng(run.Seed*17+s))
		}
		type pendingMsg struct {
			t *Trace
			k int
		}
		var late []pendingMsg // messages of a duty that are received in the following slot
		for slot := first; slot <= first+66; slot++ {
			w.SetClock(w.SlotStart(slot))
			if !peer.tick(slot) {
				run.Violate("C10/duty-handler-stuck", "the proposer duty handler did not take the tick of slot "+fmt.Sprint(slot))
				return
			}
			c.AnnounceDuties(dutySlots, nil)
			// what arrives during this slot: the delayed part of the previous duty, then this slot's duty (rounds 1..2 in time)
			for _, pm := range late {
				c.Honest = 1
				c.ValidateSSV(pm.t.Msgs[pm.k].Msg, pm.t.Time(pm.k).Add(12*time.Second), Env{Mode: "n"}, "c10:duty-handlers:late")
			}
			late = nil
			if t, ok := traces[slot]; ok {
				for k := range t.Msgs {
					sm := &specqbft.SignedMessage{}
					if t.Msgs[k].Msg.MsgType != spectypes.SSVConsensusMsgType || sm.Decode(t.Msgs[k].Msg.Data) != nil {
						continue // the kit's partial-signature messages have no duty check
					}
					if sm.Message.Round <= 2 {
						c.Honest = 1
						c.ValidateSSV(t.Msgs[k].Msg, t.Time(k), Env{Mode: "n"}, "c10:duty-handlers")
					} else {
						late = append(late, pendingMsg{t, k})
					}
				}
			}
		}
		c.Honest = 0
		run.Tag("c10-run/duty-handlers-proposer" + tagSuffix)
		run.Seen("c10|duty-handlers|proposer" + tagSuffix)
	}
	// ---- sync committee: the last epochs of sync period 3 and the first of period 4 (boundary at epoch 1024)
	{
		store := dutystore.New()
		bn := &peerDuties{pk: pk, outside: outside, propSlots: func(uint64) []uint64 { return nil }}
		boundary := uint64(1024 * 32)
		first := boundary - 40
		w.SetClock(w.SlotStart(first))
		peer := startHandler(w, "sync", store, bn)
		defer peer.cancel()
		c := NewCaseWithStore(run, w, store, outside, "c10/duty-handlers/sync-committee"+tagSuffix)
		var late []*Trace
		for slot := first; slot <= boundary+6; slot++ {
			w.SetClock(w.SlotStart(slot))
			if !peer.tick(slot) {
				run.Violate("C10/duty-handler-stuck", "the sync committee duty handler did not take the tick of slot "+fmt.Sprint(slot))
				return
			}
			c.AnnounceDuties(nil, []uint64{2, 3, 4, 5})
			for _, t := range late {
				for k := range t.Msgs {
					if t.Msgs[k].At >= 8*time.Second {
						c.Honest = 1
						c.ValidateSSV(t.Msgs[k].Msg, t.Time(k).Add(6*time.Second), Env{Mode: "n"}, "c10:duty-handlers:late")
					}
				}
			}
			late = nil
			if slot%8 == 7 || slot == boundary-1 || slot == boundary {
				role := []spectypes.BeaconRole{spectypes.BNRoleSyncCommittee, spectypes.BNRoleSyncCommitteeContribution}[slot%2]
				t := traceFor(4, role, scenarios[2], slot, hx.NewRng(run.Seed*19+slot))
				for k := range t.Msgs {
					if t.Msgs[k].At < 8*time.Second || role == spectypes.BNRoleSyncCommitteeContribution {
						c.Honest = 1
						c.ValidateSSV(t.Msgs[k].Msg, t.Time(k), Env{Mode: "n"}, "c10:duty-handlers")
					}
				}
				if role == spectypes.BNRoleSyncCommittee {
					late = append(late, t)
				}
			}
		}
		c.Honest = 0
		run.Tag("c10-run/duty-handlers-sync" + tagSuffix)
		run.Seen("c10|duty-handlers|sync" + tagSuffix)
	}
}

// excludedPoint: the boundary witness of Ssv.Props.C10Emission (C10_untimed_emissions_not_rejected_full_refuted) on the REAL
// controller and the REAL validator. Four CORRECT operators, height 3; operators 1, 3, 4 time out twice while operator 2 —
// the leader of round 3 — is still in round 1. It receives RC(1,r2), RC(1,r3), RC(3,r3): partial quorum, jump to round 2;
// RC(4,r3) completes the round-3 quorum: operator 2 broadcasts a proposal that carries Round 2. The timing assumption of
// C10 is violated here (operator 2 is two timeouts behind), so this is an OBSERVATION, not a violation.
func excludedPoint(run *hx.Run) {
	w := world(4)
	const height = 3
	w.EnsureDuties(height)
	s := NewSim(w, spectypes.BNRoleAttester, height, nil)
	vals := valueFor(true, spectypes.BNRoleAttester, height)
	for _, n := range s.nodes {
		if err := n.ctrl.StartNewInstance(simLog, height, vals(n.id)); err != nil {
			return
		}
	}
	s.now = 4 * time.Second
	s.pending = nil // the round-1 proposal of operator 4 never arrives anywhere
	timeout := func(op int) {
		n := s.nodes[op-1]
		inst := n.ctrl.StoredInstances.FindInstance(height)
		td, _ := json.Marshal(ssvtypes.TimeoutData{Height: height, Round: inst.State.Round})
		_ = n.ctrl.OnTimeout(simLog, ssvtypes.EventMsg{Type: ssvtypes.Timeout, Data: td})
	}
	rcOf := func(op spectypes.OperatorID, round uint64) *Emission {
		for _, e := range s.Log {
			if e.From == op && e.Type == uint64(specqbft.RoundChangeMsgType) && e.Round == round {
				return e
			}
		}
		return nil
	}
	for _, op := range []int{1, 3, 4} {
		timeout(op)
	}
	s.now = 6 * time.Second
	for _, op := range []int{1, 3, 4} {
		timeout(op)
	}
	s.now = 8 * time.Second
	before := len(s.Log)
	for _, x := range [][2]uint64{{1, 2}, {1, 3}, {3, 3}, {4, 3}} {
		if e := rcOf(spectypes.OperatorID(x[0]), x[1]); e != nil {
			s.deliver(s.nodes[1], e)
		}
	}
	c := NewCase(run, w, false, "c10/excluded-point")
	obs := "operator 2 emitted nothing"
	for _, e := range s.Log[before:] {
		if e.From != 2 {
			continue
		}
		class, tag := c.ValidateSSV(e.Msg, w.SlotStart(height).Add(e.At), Env{Mode: "n"}, "c10:excluded-point")
		if e.Type == uint64(specqbft.ProposalMsgType) {
			obs = fmt.Sprintf("proposal of operator 2 carries round %d; real validator verdict: %s:%s", e.Round, class, tag)
			run.Tag("observation/excluded-point-proposal-round-" + fmt.Sprint(e.Round) + "/" + class + ":" + tag)
		}
	}
	run.Extra["excluded_point_observation"] = "timing assumption violated (operator 2 two timeouts behind, height 3): " + obs
}
