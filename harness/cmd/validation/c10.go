package main

// C10: every message emitted by real multi-operator runs (all consensus roles, committees 4/7, rounds up to the
// role maximum, with/without prepared values, justified proposals, decided aggregates) plus the runners'
// partial-signature messages is fed, in emission order, to ONE fresh real validator (a correct peer) at receive
// times inside the message's window. Oracle: never the reject class; in the fault-free in-order timely run: accepted.

import (
	"fmt"
	"time"

	spectypes "github.com/bloxapp/ssv-spec/types"

	"github.com/bloxapp/ssv/zz_verif/lib/hx"
	"github.com/bloxapp/ssv/zz_verif/lib/rkit"
)

func genC10(run *hx.Run, r *hx.Rng) {
	offsets := []time.Duration{0, 300 * time.Millisecond, 1500 * time.Millisecond}
	done := 0
	// real duty runners, fault-free in-order timely: every message must be ACCEPTED
	for i := 0; done < run.N/3; i++ {
		kind := rkit.Kinds[i%len(rkit.Kinds)]
		n := 4
		if i%5 == 4 {
			n = 7
		}
		t := RunnerTrace(world(n), kind, uint64(2*(i%9)))
		c := NewCase(run, t.W, false, "c10/"+t.Name)
		for k := range t.Msgs {
			c.Honest = 2
			c.ValidateSSV(t.Msgs[k].Msg, t.Time(k), Env{Mode: "n"}, "c10:runners:"+kind.Name)
			done++
		}
		c.Honest = 0
		run.Tag("c10-run/runners-" + kind.Name)
		run.Seen(fmt.Sprintf("c10|runners|n%d|%s", n, kind.Name))
		if len(t.Msgs) == 0 {
			done++
		}
	}
	// per-receiver gossip orders in which decided aggregates overtake single commits (n = 4 and 7): some correct operator
	// aggregates a multi-signer message with later single commits
	for i := 0; i < 6; i++ {
		n := []int{4, 7}[i%2]
		sc := scenarios[len(scenarios)-2]
		if i >= 2 {
			sc = scenarios[len(scenarios)-1]
		}
		role := consensusRoles[i%len(consensusRoles)]
		t := BuildTrace(world(n), role, uint64(baseSlot+2*i), sc, hx.NewRng(run.Seed*131+uint64(i)))
		c := NewCase(run, t.W, false, "c10/"+t.Name)
		for k := range t.Msgs {
			c.Honest = 1 // delivery is not in one global order here: honest re-broadcasts of decided aggregates may exceed the N*(f+1) budget (ignored, never rejected)
			c.ValidateSSV(t.Msgs[k].Msg, t.Time(k), Env{Mode: "n"}, "c10:"+sc.Name)
			done++
		}
		c.Honest = 0
		run.Tag("c10-run/" + sc.Name)
		run.Seen(fmt.Sprintf("c10|n%d|role%d|%s", n, role, sc.Name))
	}
	dutyHandlerRuns(run, r)
	excludedPoint(run)
	epochSchedules(run, r)
	for i := 0; done < run.N; i++ {
		n := 4
		if i%4 == 3 {
			n = 7
		}
		role := consensusRoles[i%len(consensusRoles)]
		if i%11 == 10 {
			role = 5 + consensusRoles[i%2] // registration / exit: partial signature messages only
		}
		sc := scenarios[(i/len(consensusRoles))%len(scenarios)]
		if run.Tier != "thorough" && n == 7 && sc.Name == "max-rounds" {
			sc = scenarios[2]
		}
		slot := uint64(baseSlot + 2*(i%12))
		jr := hx.NewRng(run.Seed*31 + uint64(i))
		t := BuildTrace(world(n), role, slot, sc, jr)
		off := offsets[r.Intn(len(offsets))]
		faultFree := (sc.Name == "happy" || sc.Name == "happy-diffvalues") && off == 0
		c := NewCase(run, t.W, false, fmt.Sprintf("c10/%s/off=%v", t.Name, off))
		maxR := uint64(0)
		for k := range t.Msgs {
			c.Honest = 1
			if faultFree {
				c.Honest = 2
			}
			c.ValidateSSV(t.Msgs[k].Msg, t.Time(k).Add(off), Env{Mode: "n"}, "c10:"+sc.Name)
			done++
		}
		c.Honest = 0
		_ = maxR
		run.Tag("c10-run/" + sc.Name)
		run.Seen(fmt.Sprintf("c10|n%d|role%d|%s", n, role, sc.Name))
	}
}

// epochSchedules: the SAME peer sees the SAME (validator, role, every signer) perform its regular duty at a steady rate over
// many consecutive epochs — one duty per epoch at a slot that moves around inside the epoch, and a variant with two duties in
// some epochs (the most the duty-count rule allows) — for the four duty-count-limited roles (attester, aggregator, validator
// registration, voluntary exit). Every duty is a complete real run (BuildTrace: real controllers / partial-signature traffic),
// delivered in order at its own time. Oracle: never reject; the one-per-epoch schedule is fault-free and timely, so every
// message must be accepted (the per-epoch duty counter has to restart at every epoch boundary).
func epochSchedules(run *hx.Run, r *hx.Rng) {
	roles := []spectypes.BeaconRole{spectypes.BNRoleAttester, spectypes.BNRoleAggregator, spectypes.BNRoleValidatorRegistration, spectypes.BNRoleVoluntaryExit}
	epochs, ns := 6, []int{4}
	if run.Tier == "thorough" {
		epochs, ns = 9, []int{4, 7}
	}
	for _, n := range ns {
		for ri, role := range roles {
			for _, two := range []bool{false, true} {
				if two && run.Tier != "thorough" && (ri+int(run.Seed))%2 == 0 {
					continue // quick tier: the two-per-epoch variant for half of the roles (alternating with the seed)
				}
				w := world(n)
				name := fmt.Sprintf("epoch-schedule/n%d/role%d/two=%v", n, role, two)
				c := NewCase(run, w, false, "c10/"+name)
				e0 := uint64(baseSlot/32) + uint64(r.Intn(3))
				for e := uint64(0); e < uint64(epochs); e++ {
					slots := []uint64{(e0+e)*32 + (7*e+uint64(r.Intn(5)))%20}
					if two && e%2 == 1 {
						slots = append(slots, slots[0]+2+uint64(r.Intn(9)))
					}
					for di, slot := range slots {
						t := BuildTrace(w, role, slot, scenarios[0], hx.NewRng(run.Seed*977+slot))
						for k := range t.Msgs {
							c.Honest = 2
							c.ValidateSSV(t.Msgs[k].Msg, t.Time(k), Env{Mode: "n"}, fmt.Sprintf("c10:epoch-schedule:role%d:two=%v", role, two))
						}
						run.Seen(fmt.Sprintf("c10|epoch-schedule|n%d|role%d|two=%v|epoch+%d|duty%d", n, role, two, e, di))
					}
				}
				c.Honest = 0
				run.Tag("c10-run/" + name)
			}
		}
	}
}
