package main

// C10: every message emitted by real multi-operator runs (all consensus roles, committees 4/7, rounds up to the
// role maximum, with/without prepared values, justified proposals, decided aggregates) plus the runners'
// partial-signature messages is fed, in emission order, to ONE fresh real validator (a correct peer) at receive
// times inside the message's window. Oracle: never the reject class; in the fault-free in-order timely run: accepted.

import (
	"fmt"
	"time"

	"github.com/bloxapp/ssv/zz_verif/lib/hx"
	"github.com/bloxapp/ssv/zz_verif/lib/rkit"
)

func genC10(run *hx.Run, r *hx.Rng) {
	offsets := []time.Duration{0, 300 * time.Millisecond, 1500 * time.Millisecond}
	done := 0
	// real duty runners, fault-free in-order timely: every message must be ACCEPTED
	for i := 0; done < run.N/3; i++ {
		kind := rkit.Kinds[i%len(rkit.Kinds)]
		n := 4
		if i%5 == 4 {
			n = 7
		}
		t := RunnerTrace(world(n), kind, uint64(2*(i%9)))
		c := NewCase(run, t.W, false, "c10/"+t.Name)
		for k := range t.Msgs {
			c.Honest = 2
			c.ValidateSSV(t.Msgs[k].Msg, t.Time(k), Env{Mode: "n"}, "c10:runners:"+kind.Name)
			done++
		}
		c.Honest = 0
		run.Tag("c10-run/runners-" + kind.Name)
		run.Seen(fmt.Sprintf("c10|runners|n%d|%s", n, kind.Name))
		if len(t.Msgs) == 0 {
			done++
		}
	}
	// per-receiver gossip orders in which decided aggregates overtake single commits (n = 4 and 7): some correct operator
	// aggregates a multi-signer message with later single commits
	for i := 0; i < 6; i++ {
		n := []int{4, 7}[i%2]
		sc := scenarios[len(scenarios)-2]
		if i >= 2 {
			sc = scenarios[len(scenarios)-1]
		}
		role := consensusRoles[i%len(consensusRoles)]
		t := BuildTrace(world(n), role, uint64(baseSlot+2*i), sc, hx.NewRng(run.Seed*131+uint64(i)))
		c := NewCase(run, t.W, false, "c10/"+t.Name)
		for k := range t.Msgs {
			c.Honest = 1 // delivery is not in one global order here: honest re-broadcasts of decided aggregates may exceed the N*(f+1) budget (ignored, never rejected)
			c.ValidateSSV(t.Msgs[k].Msg, t.Time(k), Env{Mode: "n"}, "c10:"+sc.Name)
			done++
		}
		c.Honest = 0
		run.Tag("c10-run/" + sc.Name)
		run.Seen(fmt.Sprintf("c10|n%d|role%d|%s", n, role, sc.Name))
	}
	dutyHandlerRuns(run, r)
	excludedPoint(run)
	for i := 0; done < run.N; i++ {
		n := 4
		if i%4 == 3 {
			n = 7
		}
		role := consensusRoles[i%len(consensusRoles)]
		if i%11 == 10 {
			role = 5 + consensusRoles[i%2] // registration / exit: partial signature messages only
		}
		sc := scenarios[(i/len(consensusRoles))%len(scenarios)]
		if run.Tier != "thorough" && n == 7 && sc.Name == "max-rounds" {
			sc = scenarios[2]
		}
		slot := uint64(baseSlot + 2*(i%12))
		jr := hx.NewRng(run.Seed*31 + uint64(i))
		t := BuildTrace(world(n), role, slot, sc, jr)
		off := offsets[r.Intn(len(offsets))]
		faultFree := (sc.Name == "happy" || sc.Name == "happy-diffvalues") && off == 0
		c := NewCase(run, t.W, false, fmt.Sprintf("c10/%s/off=%v", t.Name, off))
		maxR := uint64(0)
		for k := range t.Msgs {
			c.Honest = 1
			if faultFree {
				c.Honest = 2
			}
			c.ValidateSSV(t.Msgs[k].Msg, t.Time(k).Add(off), Env{Mode: "n"}, "c10:"+sc.Name)
			done++
		}
		c.Honest = 0
		_ = maxR
		run.Tag("c10-run/" + sc.Name)
		run.Seen(fmt.Sprintf("c10|n%d|role%d|%s", n, role, sc.Name))
	}
}
