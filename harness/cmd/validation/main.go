// Harness for engine `validation` (C08, C09, C10): drives the REAL message validator
// (message/validation: validateSSVMessage / validateP2PMessage / ValidatePubsubMessage) and the byte decoders,
// writes one op line + one canonical observation per call (diffed against the Lean model by bin/check) and
// evaluates the implementation-side property oracles.
//
//	-mode c09 : every honest message (spec test kit + traffic captured from real QBFT runs) with every single
//	            rule-breaking mutation after every prefix of accepted messages           (oracle: accepted although a rule is broken)
//	-mode c08 : structurally valid messages with extreme field values after histories; malformed byte stream through
//	            ValidatePubsubMessage and the decoders                                    (oracle: panic / timeout / allocation)
//	-mode c10 : messages emitted by real multi-operator runs fed to a fresh validator     (oracle: reject class)
package main

import (
	"flag"
	"fmt"
	"os"
	"strconv"
	"strings"
	"time"

	spectypes "github.com/bloxapp/ssv-spec/types"

	"github.com/bloxapp/ssv/operator/duties/dutystore"

	"github.com/bloxapp/ssv/zz_verif/lib/hx"
)

var modeFlag = flag.String("mode", "c09", "c08|c09|c10|all")
var concFlag = flag.Bool("conc", false, "thorough tier: also run the concurrent linearizability check")

var worlds = map[int]*World{}

func world(n int) *World {
	if w, ok := worlds[n]; ok {
		return w
	}
	w := NewWorld(n)
	worlds[n] = w
	return w
}

type traceKey struct {
	n    int
	role spectypes.BeaconRole
	sc   string
	slot uint64
}

var traceCache = map[traceKey]*Trace{}

func traceFor(n int, role spectypes.BeaconRole, sc Scenario, slot uint64, r *hx.Rng) *Trace {
	k := traceKey{n, role, sc.Name, slot}
	if t, ok := traceCache[k]; ok {
		return t
	}
	t := BuildTrace(world(n), role, slot, sc, r)
	traceCache[k] = t
	return t
}

func main() {
	run := hx.Start()
	defer run.Finish()
	r := hx.NewRng(run.Seed)
	t0 := time.Now()
	if lines := run.ReplayLines(); lines != nil {
		replay(run, lines)
		return
	}
	switch *modeFlag {
	case "c09":
		genC09(run, r)
	case "c08":
		genC08(run, r)
	case "c10":
		genC10(run, r)
	case "conc":
		genConc(run, r)
	case "witnesses":
		genWitnesses(run, r)
	case "all":
		genC09(run, r)
		genC08(run, r)
		genC10(run, r)
	default:
		fmt.Fprintln(os.Stderr, "unknown mode")
		os.Exit(2)
	}
	run.Extra["wall_s"] = time.Since(t0).Seconds()
	run.Extra["mode"] = *modeFlag
}

// ---------------------------------------------------------------- C09: mutations × prefixes

func pickTrace(run *hx.Run, r *hx.Rng, i int) *Trace {
	n := 4
	if i%3 == 2 {
		n = 7
	}
	if i%10 == 9 {
		n = []int{10, 13}[(i/10)%2] // large committees: more distinct signers per slot than any bounded per-id structure may assume
	}
	// a small pool of traces per run (real runs are expensive: BLS signing and verification)
	pool := 10
	if run.Tier == "thorough" {
		pool = 60
	}
	if n >= 10 {
		pool = pool/10 + 1 // real runs of 10 / 13 operators are the most expensive ones
	}
	j := r.Intn(pool)
	jr := hx.NewRng(run.Seed*1000003 + uint64(j)*7919 + uint64(n))
	var role spectypes.BeaconRole
	if jr.Chance(20) {
		role = []spectypes.BeaconRole{spectypes.BNRoleValidatorRegistration, spectypes.BNRoleVoluntaryExit}[jr.Intn(2)]
	} else {
		role = consensusRoles[jr.Intn(len(consensusRoles))]
	}
	sc := scenarios[jr.Intn(len(scenarios))]
	if n == 7 && jr.Chance(50) {
		sc = scenarios[jr.Intn(3)]
	}
	if n >= 10 {
		sc = scenarios[jr.Intn(3)] // fault-free scenarios: every operator sends in round 1
	}
	slot := uint64(baseSlot + 2*jr.Intn(12)) // even slots: the duty store holds proposer duties there
	return traceFor(n, role, sc, slot, jr)
}

// runPrefix replays the first k honest messages (in-order, at their send times) on the case's validator.
func runPrefix(c *Case, t *Trace, k int) {
	for i := 0; i < k; i++ {
		c.ValidateSSV(t.Msgs[i].Msg, t.Time(i), Env{Mode: "n"}, "prefix")
	}
}

func genC09(run *hx.Run, r *hx.Rng) {
	for i := 0; i < run.N; i++ {
		t := pickTrace(run, r, i)
		if len(t.Msgs) == 0 {
			continue
		}
		k := r.Intn(len(t.Msgs))
		if r.Chance(15) {
			k = len(t.Msgs) - 1
		}
		mc := newMctx(t, k, r)
		var m Mut
		for tries := 0; ; tries++ {
			m = Mutations[r.Intn(len(Mutations))]
			if m.applies(mc) {
				break
			}
		}
		mu := m.F(mc)
		if mu == nil {
			run.Tag("mutation-not-applicable")
			continue
		}
		c := NewCase(run, t.W, false, t.Name+"/k="+fmt.Sprint(k)+"/"+m.Name)
		runPrefix(c, t, k)
		apply := func(m Mut, mu *Mutated) {
			switch {
			case r.Chance(12):
				// stateful variants: the mutated message AFTER the honest one was accepted (replay / equivocation)
				c.ValidateSSV(t.Msgs[k].Msg, t.Time(k), Env{Mode: "n"}, "prefix")
				c.ValidateSSV(mu.Msg, mu.At.Add(time.Millisecond), mu.Env, "after-honest:"+m.Name)
			case r.Chance(8) && k > 0:
				// an older honest message again (going back in round / slot, duplicates)
				j := r.Intn(k)
				c.ValidateSSV(t.Msgs[j].Msg, t.Time(k), Env{Mode: "n"}, "old-message-again")
				c.ValidateSSV(mu.Msg, mu.At, mu.Env, "mut:"+m.Name)
			default:
				c.ValidateSSV(mu.Msg, mu.At, mu.Env, "mut:"+m.Name)
			}
		}
		apply(m, mu)
		// further single mutations of the same honest message on the same validator (a refused message leaves the state unchanged)
		for extra := 0; extra < 5; extra++ {
			m2 := Mutations[r.Intn(len(Mutations))]
			if !m2.applies(mc) {
				continue
			}
			mc = newMctx(t, k, r)
			if mu2 := m2.F(mc); mu2 != nil {
				apply(m2, mu2)
			}
		}
		// and the rest of the honest trace continues (the state after a refused message must be unchanged)
		if r.Chance(30) {
			for j := k; j < len(t.Msgs) && j < k+6; j++ {
				c.ValidateSSV(t.Msgs[j].Msg, t.Time(j), Env{Mode: "n"}, "suffix")
			}
		}
		if i%7 == 3 {
			p2pCase(run, r, t, k)
		}
		if i%5 == 1 {
			targetedC09(run, r, i/5)
		}
		if i%5 == 3 {
			subsetSeenDecided(run, r, i/5)
		}
		if i%20 == 7 {
			largeCommitteeLimits(run, r, i/20)
		}
	}
	topicSweep(run, r)
	fuzzSetup()
	serialisationBlock(run, r) // last: on a hang the harness reports and exits
}

// p2pCase: the same honest message through the full pubsub entry point, with real envelopes and topics.
func p2pCase(run *hx.Run, r *hx.Rng, t *Trace, k int) {
	w := t.W
	signed := r.Chance(70)
	c := NewCase(run, w, signed, t.Name+"/p2p")
	h := t.Msgs[k]
	enc, err := h.Msg.Encode()
	if err != nil {
		return
	}
	topics := topicsOf(h.Msg)
	topic := topics[0]
	data := enc
	variant := r.Intn(10)
	kind := "p2p-honest"
	env := Env{Mode: "v", Op: h.From}
	switch variant {
	case 0:
		env.Mode, kind = "f", "p2p-unknown-operator"
	case 1:
		env.Mode, kind = "i", "p2p-bad-signature"
	case 2:
		topic, kind = otherTopic(topic), "p2p-wrong-topic"
	case 3:
		env.Op, kind = 9, "p2p-signed-by-other-registered-operator"
	}
	if signed {
		data, _, _ = c.envelope(enc, env)
	} else if variant < 2 || variant == 3 {
		kind = "p2p-honest"
	}
	switch variant {
	case 4:
		data, kind = nil, "p2p-no-data"
	case 5:
		data, kind = data[:hx.Min(len(data), 100)], "p2p-truncated"
	case 6:
		if signed {
			data, kind = enc, "p2p-unsigned-after-fork"
		}
	case 7:
		data, kind = append([]byte{}, data...), "p2p-bit-flip"
		data[r.Intn(len(data))] ^= 1 << uint(r.Intn(8))
	case 8:
		if r.Chance(25) {
			// beyond maxEncodedMsgSize (the size guard runs before the network decoder)
			data, kind = make([]byte, 9227600+300), "p2p-data-too-big"
		}
	}
	c.ValidateP2P(data, topic, t.Time(k), kind)
}

// ---------------------------------------------------------------- replay

func replay(run *hx.Run, lines []string) {
	var c *Case
	for _, l := range lines {
		ws := strings.Fields(l)
		if len(ws) == 0 {
			continue
		}
		switch ws[0] {
		case "reset":
			n, fork := 4, false
			if v, ok := kvOf(ws, "w"); ok && (v == "7" || v == "10" || v == "13") {
				fmt.Sscan(v, &n)
			}
			if v, ok := kvOf(ws, "fork"); ok && v == "1" {
				fork = true
			}
			if v, ok := kvOf(ws, "own"); ok && (v == "1" || v == "2") {
				c = NewCaseWithStore(run, world(n), dutystore.New(), v == "2", "replay")
			} else {
				c = NewCase(run, world(n), fork, "replay")
			}
		case "duties":
			if c != nil {
				c.ReplayDuties(ws)
			}
		case "v":
			if c == nil {
				c = NewCase(run, world(4), false, "replay")
			}
			msg, err := ssvOfRaw(ws)
			if err != nil {
				run.Emit(l, "bad-replay-line")
				continue
			}
			at := parseNow(ws)
			mode, _ := kvOf(ws, "envm")
			if mode == "" {
				mode = "n"
			}
			var op uint64
			if v, ok := kvOf(ws, "envop"); ok {
				fmt.Sscan(v, &op)
			}
			c.Honest = 0
			if v, ok := kvOf(ws, "hon"); ok {
				fmt.Sscan(v, &c.Honest)
			}
			c.ValidateSSV(msg, at, Env{Mode: mode, Op: op}, "replay")
		case "p":
			if c == nil {
				c = NewCase(run, world(4), false, "replay")
			}
			tp, _ := kvOf(ws, "topic")
			pd, _ := kvOf(ws, "pdata")
			var pdata []byte
			if strings.HasPrefix(pd, "z") {
				var n int
				fmt.Sscan(pd[1:], &n)
				pdata = make([]byte, n)
			} else {
				pdata = unhex(pd)
			}
			c.ValidateP2P(pdata, string(unhex(tp)), parseNow(ws), "replay")
		case "e":
			entryReplay(run, ws)
		case "gc":
			msgIDReplay(run, ws)
		case "ms":
			metricsReplay(run, ws)
		case "f":
			fuzzReplay(run, ws)
		case "k":
			kernelReplay(run, ws)
		default:
			run.Emit(l, "bad-replay-line")
		}
	}
}

func parseNow(ws []string) time.Time {
	v, _ := kvOf(ws, "now")
	parts := strings.SplitN(v, ".", 2)
	sec, _ := strconv.ParseInt(parts[0], 10, 64)
	var ns int64
	if len(parts) == 2 {
		ns, _ = strconv.ParseInt(parts[1], 10, 64)
	}
	return time.Unix(sec, ns)
}
