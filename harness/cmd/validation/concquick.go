package main

// Quick-tier concurrent blocks (oracle only; the op stream carries one summary line per block):
//   C08: overlapping validations of the same and of different message ids must all RETURN (watchdog: a stuck block is a
//        hang — a deadlocked goroutine cannot be cancelled, so the harness reports, flushes its statistics and exits);
//   C09: validations of one (validator, role) must be serialised: a directed three-party interleaving through the
//        signatureVerifier hook (it runs between the limit checks and the state update) plus a randomized variant;
//        oracle = per-signer-per-round limits over the multiset of ACCEPTED messages.

import (
	"context"
	"fmt"
	"os"
	"sync"
	"time"

	specqbft "github.com/bloxapp/ssv-spec/qbft"
	spectypes "github.com/bloxapp/ssv-spec/types"
	tu "github.com/bloxapp/ssv-spec/types/testingutils"
	pubsub "github.com/libp2p/go-libp2p-pubsub"
	pspb "github.com/libp2p/go-libp2p-pubsub/pb"

	"github.com/bloxapp/ssv/message/validation"
	"github.com/bloxapp/ssv/zz_verif/lib/hx"
)

const hangWatchdog = 20 * time.Second

// reportHangAndExit: the process still has blocked goroutines; write everything and leave.
func reportHangAndExit(run *hx.Run, sig, detail string, lines []string) {
	run.Violate(sig, detail, lines...)
	run.Extra["aborted"] = "hang: harness exited after reporting (blocked goroutines cannot be cancelled)"
	run.Finish()
	os.Exit(0)
}

func vLine(w *World, mv validation.MessageValidator, m *spectypes.SSVMessage, at time.Time) string {
	fields, _ := w.Abstract(mv, m, at, "n")
	return "v " + fields + " envm=n envop=0 hon=0 " + rawOfSSV(m)
}

// hangBlock (C08): 4 goroutines × 200 validations, same and different message ids, alternating entry points.
func hangBlock(run *hx.Run, r *hx.Rng) {
	w := world(4)
	t := traceFor(4, spectypes.BNRoleAttester, scenarios[0], baseSlot+2, hx.NewRng(run.Seed))
	mv := w.NewValidator(false)
	w.SetClock(t.Time(0))
	var pool []*spectypes.SSVMessage
	var ats []time.Time
	for i := range t.Msgs {
		for _, role := range []spectypes.BeaconRole{spectypes.BNRoleAttester, spectypes.BNRoleAggregator, spectypes.BNRoleSyncCommittee} {
			pool = append(pool, &spectypes.SSVMessage{MsgType: t.Msgs[i].Msg.MsgType, MsgID: spectypes.NewMsgID(w.NetCfg.Domain, w.PKs[vMain], role), Data: t.Msgs[i].Msg.Data})
			ats = append(ats, t.Time(i))
		}
	}
	lines := []string{w.ResetLine(false)}
	for i := 0; i < len(pool) && i < 40; i++ {
		lines = append(lines, vLine(w, mv, pool[i], ats[i]))
	}
	const G, K = 4, 200
	seeds := make([]uint64, G)
	for g := range seeds {
		seeds[g] = r.U64()
	}
	done := make(chan struct{})
	var wg sync.WaitGroup
	var pmu sync.Mutex
	var panics []string
	for g := 0; g < G; g++ {
		wg.Add(1)
		go func(g int) {
			defer wg.Done()
			lr := hx.NewRng(seeds[g])
			for k := 0; k < K; k++ {
				// mostly a handful of hot messages (overlap on the same id), sometimes any message of any id
				i := lr.Intn(6)
				if lr.Chance(30) {
					i = lr.Intn(len(pool))
				}
				func() {
					defer func() {
						if p := recover(); p != nil {
							pmu.Lock()
							panics = append(panics, fmt.Sprint(p))
							pmu.Unlock()
						}
					}()
					if k%2 == 0 {
						_, _, _ = validation.VerifValidateSSVWith(mv, pool[i], ats[i], nil)
					} else {
						enc, err := pool[i].Encode()
						if err != nil {
							return
						}
						topic := topicsOf(pool[i])[0]
						_ = mv.ValidatePubsubMessage(context.Background(), fuzzPeer, &pubsub.Message{Message: &pspb.Message{Data: enc, Topic: &topic}})
					}
				}()
			}
		}(g)
	}
	go func() { wg.Wait(); close(done) }()
	select {
	case <-done:
	case <-time.After(hangWatchdog):
		run.Emit(fmt.Sprintf("conc block=overlapping-validations goroutines=%d calls=%d", G, G*K), "ok")
		reportHangAndExit(run, "C08/hang:concurrent-validation",
			fmt.Sprintf("%d goroutines x %d validations (same and different message ids, validateSSVMessage and ValidatePubsubMessage) did not return within %v", G, K, hangWatchdog), lines)
	}
	run.Emit(fmt.Sprintf("conc block=overlapping-validations goroutines=%d calls=%d", G, G*K), "ok")
	run.Tag("conc/overlapping-validations")
	if len(panics) > 0 {
		run.Violate("C08/panic-in-concurrent-validation", "panic during overlapping validations: "+panics[0], lines...)
	}
}

type accKey struct {
	signer, slot, round, kind uint64
}

// serialisationBlock (C09): directed three-party interleavings and a randomized hammer on one (validator, role).
func serialisationBlock(run *hx.Run, r *hx.Rng) {
	w := world(4)
	ks := w.KS
	id := []byte{1, 2, 3, 4}
	root := tu.TestingQBFTRootData
	role := spectypes.BNRoleAttester
	mk := func(m *specqbft.SignedMessage) *spectypes.SSVMessage {
		m.FullData = nil
		return kitSSV(w, role, m)
	}
	finish := func(label string, lines []string, acc map[accKey]int, hung bool) {
		run.Emit("conc block="+label, "ok")
		run.Tag("conc/" + label)
		if hung {
			reportHangAndExit(run, "C09/hang:concurrent-validation", label+": validations of one message id did not return within "+hangWatchdog.String(), lines)
		}
		for k, n := range acc {
			if n > 1 {
				run.Violate("C09/per-signer-limit-exceeded:concurrent",
					fmt.Sprintf("%s: %d messages of kind %d by signer %d were ACCEPTED for slot %d round %d (limit 1): validations of one (validator, role) overlapped", label, n, k.kind, k.signer, k.slot, k.round), lines...)
				return
			}
		}
	}
	// ---- directed: A holds the id lock | B waits for it | A finishes | B is inside its critical section | C arrives
	for rep := 0; rep < 3; rep++ {
		slot := uint64(baseSlot + 2 + 2*rep)
		at := w.SlotStart(slot).Add(5 * time.Second)
		w.SetClock(at)
		mv := w.NewValidator(false)
		sB := uint64(2 + rep%2)
		var a, b *spectypes.SSVMessage
		var kind uint64
		switch rep {
		case 0, 1:
			a = mk(tu.TestingPrepareMessageWithParams(ks.Shares[1], 1, 1, specqbft.Height(slot), id, root))
			b = mk(tu.TestingPrepareMessageWithParams(ks.Shares[sB], sB, 1, specqbft.Height(slot), id, root))
			kind = 1
		default:
			a = mk(tu.TestingPrepareMessageWithParams(ks.Shares[1], 1, 1, specqbft.Height(slot), id, root))
			b = mk(tu.TestingCommitMessageWithParams(ks.Shares[sB], sB, 1, specqbft.Height(slot), id, root))
			kind = 2
		}
		lines := []string{w.ResetLine(false), vLine(w, mv, a, at), vLine(w, mv, b, at), vLine(w, mv, b, at)}
		aInside, releaseA := make(chan struct{}), make(chan struct{})
		bInside, cInside := make(chan struct{}), make(chan struct{})
		errA, errB, errC := make(chan error, 1), make(chan error, 1), make(chan error, 1)
		go func() {
			_, _, err := validation.VerifValidateSSVWith(mv, a, at, func() error { close(aInside); <-releaseA; return nil })
			errA <- err
		}()
		hung := false
		select {
		case <-aInside:
		case <-time.After(hangWatchdog):
			hung = true
		}
		if hung {
			finish("directed-same-id", lines, nil, true)
		}
		bIn := false
		go func() {
			_, _, err := validation.VerifValidateSSVWith(mv, b, at, func() error {
				close(bInside)
				select {
				case <-cInside:
				case <-time.After(300 * time.Millisecond):
				}
				return nil
			})
			errB <- err
		}()
		time.Sleep(150 * time.Millisecond) // let B reach the lock held by A
		close(releaseA)
		var eA, eB, eC error
		select {
		case eA = <-errA:
		case <-time.After(hangWatchdog):
			finish("directed-same-id", lines, nil, true)
		}
		select {
		case <-bInside:
			bIn = true
		case eB = <-errB: // B was refused before its critical section (cannot happen for a first message of its kind)
		case <-time.After(hangWatchdog):
			finish("directed-same-id", lines, nil, true)
		}
		go func() {
			_, _, err := validation.VerifValidateSSVWith(mv, b, at, func() error { close(cInside); return nil })
			errC <- err
		}()
		if bIn {
			select {
			case eB = <-errB:
			case <-time.After(hangWatchdog):
				finish("directed-same-id", lines, nil, true)
			}
		}
		select {
		case eC = <-errC:
		case <-time.After(hangWatchdog):
			finish("directed-same-id", lines, nil, true)
		}
		acc := map[accKey]int{}
		if eA == nil {
			acc[accKey{1, slot, 1, 1}]++
		}
		if eB == nil {
			acc[accKey{sB, slot, 1, kind}]++
		}
		if eC == nil {
			acc[accKey{sB, slot, 1, kind}]++
		}
		run.Seen(fmt.Sprintf("conc|directed|%v|%v|%v", eA == nil, eB == nil, eC == nil))
		finish("directed-same-id", lines, acc, false)
	}
	// ---- randomized: 6 goroutines hammer one id with a small set of messages; the verifier hook yields inside the critical section
	for rep := 0; rep < 2; rep++ {
		slot := uint64(baseSlot + 10 + 2*rep)
		at := w.SlotStart(slot).Add(5 * time.Second)
		w.SetClock(at)
		mv := w.NewValidator(false)
		type item struct {
			msg *spectypes.SSVMessage
			key accKey
		}
		var items []item
		for s := uint64(1); s <= uint64(w.N); s++ {
			items = append(items, item{mk(tu.TestingPrepareMessageWithParams(ks.Shares[s], s, 1, specqbft.Height(slot), id, root)), accKey{s, slot, 1, 1}})
			items = append(items, item{mk(tu.TestingCommitMessageWithParams(ks.Shares[s], s, 1, specqbft.Height(slot), id, root)), accKey{s, slot, 1, 2}})
		}
		lines := []string{w.ResetLine(false)}
		for _, it := range items {
			lines = append(lines, vLine(w, mv, it.msg, at))
		}
		const G, K = 6, 60
		seeds := make([]uint64, G)
		for g := range seeds {
			seeds[g] = r.U64()
		}
		var mu sync.Mutex
		acc := map[accKey]int{}
		var wg sync.WaitGroup
		for g := 0; g < G; g++ {
			wg.Add(1)
			go func(g int) {
				defer wg.Done()
				lr := hx.NewRng(seeds[g])
				for k := 0; k < K; k++ {
					it := items[lr.Intn(len(items))]
					d := time.Duration(lr.Intn(300)) * time.Microsecond
					_, _, err := validation.VerifValidateSSVWith(mv, it.msg, at, func() error { time.Sleep(d); return nil })
					if err == nil {
						mu.Lock()
						acc[it.key]++
						mu.Unlock()
					}
				}
			}(g)
		}
		done := make(chan struct{})
		go func() { wg.Wait(); close(done) }()
		select {
		case <-done:
			finish("random-same-id", lines, acc, false)
		case <-time.After(hangWatchdog):
			finish("random-same-id", lines, nil, true)
		}
	}
}
