package main

// C08 resource clause, pubsub message ids: network/topics msgIDHandler keeps one entry per distinct message id (the id function
// runs BEFORE validation, on whatever bytes a peer publishes) and relies on GC() to purge them. Oracle on the handler's map,
// read through the shim topics.VerifMsgIDEntries, with the REAL handler (Start loop, MsgID function, GC) and a short ttl:
//   after GC every entry that had expired before GC started is gone, every entry that is still live after GC returned is kept,
//   and a stream of distinct messages over several ttl periods does not grow the map beyond one period's traffic.
//
//	gc ttl=<ms> rounds=<k> per=<m> seed=<s>        (model: "ok"; replay re-runs the same schedule)

import (
	"context"
	"fmt"
	"time"

	ps_pb "github.com/libp2p/go-libp2p-pubsub/pb"
	"go.uber.org/zap"

	"github.com/bloxapp/ssv/network/topics"
	"github.com/bloxapp/ssv/zz_verif/lib/hx"
)

func msgIDGC(run *hx.Run, ttlMs, rounds, per int, seed uint64) {
	fuzzSetup()
	op := fmt.Sprintf("gc ttl=%d rounds=%d per=%d seed=%d", ttlMs, rounds, per, seed)
	r := hx.NewRng(seed)
	ttl := time.Duration(ttlMs) * time.Millisecond
	ctx, cancel := context.WithCancel(context.Background())
	defer cancel()
	h := topics.NewMsgIDHandler(ctx, ttl, world(4).NetCfg)
	go h.Start()
	idFn := h.MsgID(zap.NewNop())
	from := []byte(fuzzPeer)
	bad := ""
	fail := func(sig, detail string) {
		if bad == "" {
			bad = sig
			run.Violate(sig, detail, op)
		}
	}
	// publish `per` distinct messages (valid encodings and arbitrary bytes alike); Add is asynchronous (buffered channel, drops when
	// full), so wait for the handler loop after each one
	publish := func() map[string]bool {
		ids := map[string]bool{}
		for i := 0; i < per; i++ {
			data := r.Bytes(8 + r.Intn(200))
			id := idFn(&ps_pb.Message{Data: data, From: from})
			ids[id] = true
			for w := 0; w < 2000; w++ {
				if _, ok := topics.VerifMsgIDEntries(h)[id]; ok {
					break
				}
				time.Sleep(100 * time.Microsecond)
			}
		}
		return ids
	}
	peak := 0
	for k := 0; k < rounds && bad == ""; k++ {
		old := publish()
		time.Sleep(ttl + ttl/2) // the first batch expires
		fresh := publish()
		before := topics.VerifMsgIDEntries(h)
		t0 := time.Now()
		h.GC()
		t1 := time.Now()
		after := topics.VerifMsgIDEntries(h)
		for id, t := range before {
			_, kept := after[id]
			if !t.Add(ttl).After(t0) && kept {
				fail("C08/msgid-gc-keeps-expired", fmt.Sprintf("round %d: msg id entry last updated %v before GC (ttl %v) survived GC; %d entries before, %d after (old batch %d, fresh batch %d)", k, t0.Sub(t), ttl, len(before), len(after), len(old), len(fresh)))
			}
			if t.Add(ttl).After(t1) && !kept {
				fail("C08/msgid-gc-drops-live", fmt.Sprintf("round %d: msg id entry last updated %v before GC returned (ttl %v) was removed by GC", k, t1.Sub(t), ttl))
			}
		}
		if len(after) > peak {
			peak = len(after)
		}
		// bounded: what remains after GC is at most the traffic of the last ttl period (here: the two batches of this round)
		if len(after) > 2*per {
			fail("C08/msgid-map-grows", fmt.Sprintf("round %d: %d msg id entries remain after GC although only %d messages were published within the last ttl", k, len(after), 2*per))
		}
	}
	obs := "ok"
	if bad != "" {
		obs = "bad:" + bad
	}
	run.Emit(op, obs)
	run.Tag("msgid-gc/" + obs)
	run.Extra["msgid_gc"] = fmt.Sprintf("%d rounds x 2 x %d distinct messages, ttl %v: at most %d entries after GC", rounds, per, ttl, peak)
}

func genMsgIDGC(run *hx.Run, r *hx.Rng) {
	rounds, per := 3, 20
	if run.Tier == "thorough" {
		rounds, per = 8, 60
	}
	msgIDGC(run, 150, rounds, per, run.Seed*7+1)
}

func msgIDReplay(run *hx.Run, ws []string) {
	var ttl, rounds, per int
	var seed uint64
	if v, ok := kvOf(ws, "ttl"); ok {
		fmt.Sscan(v, &ttl)
	}
	if v, ok := kvOf(ws, "rounds"); ok {
		fmt.Sscan(v, &rounds)
	}
	if v, ok := kvOf(ws, "per"); ok {
		fmt.Sscan(v, &per)
	}
	if v, ok := kvOf(ws, "seed"); ok {
		fmt.Sscan(v, &seed)
	}
	if ttl <= 0 || ttl > 5000 || rounds <= 0 || rounds > 50 || per <= 0 || per > 1000 {
		run.Emit(joinWS(ws), "bad-replay-line")
		return
	}
	msgIDGC(run, ttl, rounds, per, seed)
}

func joinWS(ws []string) string {
	s := ""
	for i, w := range ws {
		if i > 0 {
			s += " "
		}
		s += w
	}
	return s
}
