package main

// Targeted stateful cases for rules that need a specific history (duty counts per epoch, equivocating proposals,
// missing duties, decided-message and partial-signature count limits).

import (
	"time"

	specqbft "github.com/bloxapp/ssv-spec/qbft"
	spectypes "github.com/bloxapp/ssv-spec/types"
	tu "github.com/bloxapp/ssv-spec/types/testingutils"

	"github.com/bloxapp/ssv/zz_verif/lib/hx"
)

func kitSSV(w *World, role spectypes.BeaconRole, m *specqbft.SignedMessage) *spectypes.SSVMessage {
	enc, err := m.Encode()
	if err != nil {
		panic(err)
	}
	return ssvOf(w, vMain, role, spectypes.SSVConsensusMsgType, enc)
}

func leaderOf(w *World, height, round uint64) uint64 {
	return (height+round-1)%uint64(w.N) + 1
}

func targetedC09(run *hx.Run, r *hx.Rng, idx int) {
	w := world([]int{4, 7}[r.Intn(2)])
	ks := w.KS
	id := []byte{1, 2, 3, 4}
	root := tu.TestingQBFTRootData
	at := func(slot uint64, off time.Duration) time.Time { return w.SlotStart(slot).Add(off) }
	switch idx % 7 {
	case 0: // duties per epoch: the same signer moves through slots of one epoch (limit 2), then the next epoch
		role := []spectypes.BeaconRole{spectypes.BNRoleAttester, spectypes.BNRoleAggregator, spectypes.BNRoleSyncCommittee}[r.Intn(3)]
		c := NewCase(run, w, false, "targeted/duties-per-epoch")
		s := uint64(baseSlot + 2)
		for k := uint64(0); k < 4; k++ {
			m := tu.TestingPrepareMessageWithParams(ks.Shares[2], 2, 1, specqbft.Height(s+k), id, root)
			m.FullData = nil
			c.ValidateSSV(kitSSV(w, role, m), at(s+k, 5*time.Second), Env{Mode: "n"}, "targeted:duty-count")
		}
		m := tu.TestingPrepareMessageWithParams(ks.Shares[2], 2, 1, specqbft.Height(baseSlot+32), id, root)
		m.FullData = nil
		c.ValidateSSV(kitSSV(w, role, m), at(baseSlot+32, 5*time.Second), Env{Mode: "n"}, "targeted:duty-count-next-epoch")
	case 1: // equivocating leader: second proposal of the same round with different data; the same data again
		role := consensusRoles[r.Intn(2)]
		c := NewCase(run, w, false, "targeted/second-proposal")
		s := uint64(baseSlot + 4)
		l := leaderOf(w, s, 1)
		p1 := tu.TestingProposalMessageWithParams(ks.Shares[l], l, 1, specqbft.Height(s), root, nil, nil)
		c.ValidateSSV(kitSSV(w, role, p1), at(s, 5*time.Second), Env{Mode: "n"}, "targeted:proposal")
		p2 := tu.TestingProposalMessageWithParams(ks.Shares[l], l, 1, specqbft.Height(s), root, nil, nil)
		p2.FullData = append([]byte{7}, p2.FullData...)
		p2.Message.Root, _ = specqbft.HashDataRoot(p2.FullData)
		c.ValidateSSV(kitSSV(w, role, p2), at(s, 5*time.Second+time.Millisecond), Env{Mode: "n"}, "targeted:second-proposal-different-data")
		c.ValidateSSV(kitSSV(w, role, p1), at(s, 5*time.Second+2*time.Millisecond), Env{Mode: "n"}, "targeted:second-proposal-same-data")
		// a round change with full data fixes the signer's proposal data for round 2, too
		l2 := leaderOf(w, s, 2)
		rc := tu.TestingRoundChangeMessageWithParamsAndFullData(ks.Shares[l2], l2, 2, specqbft.Height(s), root, 1, tu.TestingQBFTFullData, nil)
		c.ValidateSSV(kitSSV(w, role, rc), at(s, 7*time.Second), Env{Mode: "n"}, "targeted:round-change-with-data")
	case 2: // proposer duty missing at an odd slot; present at the even one
		c := NewCase(run, w, false, "targeted/proposer-duty")
		for _, s := range []uint64{baseSlot + 7, baseSlot + 8, baseSlot + 200} {
			l := leaderOf(w, s, 1)
			p := tu.TestingProposalMessageWithParams(ks.Shares[l], l, 1, specqbft.Height(s), root, nil, nil)
			c.ValidateSSV(kitSSV(w, spectypes.BNRoleProposer, p), at(s, time.Second), Env{Mode: "n"}, "targeted:proposer-duty")
		}
	case 3: // sync committee duty of another period
		c := NewCase(run, w, false, "targeted/sync-duty")
		for _, s := range []uint64{baseSlot + 6, baseSlot + 256*32*2} {
			m := tu.TestingPrepareMessageWithParams(ks.Shares[3], 3, 1, specqbft.Height(s), id, root)
			m.FullData = nil
			c.ValidateSSV(kitSSV(w, []spectypes.BeaconRole{spectypes.BNRoleSyncCommittee, spectypes.BNRoleSyncCommitteeContribution}[r.Intn(2)], m),
				at(s, 5*time.Second), Env{Mode: "n"}, "targeted:sync-duty")
		}
	case 4: // decided-message limit N*(f+1) per signer and round
		c := NewCase(run, w, false, "targeted/decided-limit")
		s := uint64(baseSlot + 10)
		n := w.N
		limit := n * ((n-1)/3 + 1)
		var sks = ks.Shares
		ids := []spectypes.OperatorID{}
		for i := 1; i <= int(ks.Threshold); i++ {
			ids = append(ids, spectypes.OperatorID(i))
		}
		d := DecidedKit(ks, specqbft.Height(s), 1, ids)
		_ = sks
		for k := 0; k <= limit+1; k++ {
			c.ValidateSSV(kitSSV(w, spectypes.BNRoleAttester, d), at(s, 5*time.Second+time.Duration(k)*time.Millisecond), Env{Mode: "n"}, "targeted:decided-limit")
		}
	case 6: // pending-queued validator: refused before its activation epoch (1001), accepted from it on
		c := NewCase(run, w, false, "targeted/pending-activation")
		for _, s := range []uint64{baseSlot + 20, baseSlot + 32, baseSlot + 40} {
			m := tu.TestingPrepareMessageWithParams(ks.Shares[2], 2, 1, specqbft.Height(s), id, root)
			m.FullData = nil
			enc, _ := m.Encode()
			c.ValidateSSV(ssvOf(w, vPending, spectypes.BNRoleAttester, spectypes.SSVConsensusMsgType, enc), at(s, 5*time.Second), Env{Mode: "n"}, "targeted:pending-validator")
		}
	case 5: // partial signature count limit (the code lets limit+1 through: strict '>') and slot regression
		c := NewCase(run, w, false, "targeted/partial-limit")
		s := uint64(baseSlot + 12)
		role := spectypes.BNRoleAttester
		for k := 0; k < 4; k++ {
			pm := tu.PostConsensusAttestationMsg(ks.Shares[1], 1, specqbft.Height(s))
			c.ValidateSSV(partialSSV(w, role, pm, s), at(s, 6*time.Second+time.Duration(k)*time.Millisecond), Env{Mode: "n"}, "targeted:partial-limit")
		}
		pm := tu.PostConsensusAttestationMsg(ks.Shares[1], 1, specqbft.Height(s-1))
		c.ValidateSSV(partialSSV(w, role, pm, s-1), at(s, 7*time.Second), Env{Mode: "n"}, "targeted:partial-slot-regression")
	}
}

// DecidedKit: a commit aggregated from the given signers' real signatures with the kit's full data.
func DecidedKit(ks *tu.TestKeySet, height specqbft.Height, round specqbft.Round, ids []spectypes.OperatorID) *specqbft.SignedMessage {
	msg := &specqbft.Message{MsgType: specqbft.CommitMsgType, Height: height, Round: round, Identifier: []byte{1, 2, 3, 4}, Root: tu.TestingQBFTRootData}
	var signed *specqbft.SignedMessage
	for _, id := range ids {
		s := tu.SignQBFTMsg(ks.Shares[id], id, msg)
		if signed == nil {
			signed = s
		} else if err := signed.Aggregate(s); err != nil {
			panic(err)
		}
	}
	signed.FullData = tu.TestingQBFTFullData
	return signed
}
