package main

// Targeted stateful cases for rules that need a specific history (duty counts per epoch, equivocating proposals,
// missing duties, decided-message and partial-signature count limits).

import (
	"fmt"
	"time"

	specqbft "github.com/bloxapp/ssv-spec/qbft"
	spectypes "github.com/bloxapp/ssv-spec/types"
	tu "github.com/bloxapp/ssv-spec/types/testingutils"

	"github.com/bloxapp/ssv/network/commons"
	"github.com/bloxapp/ssv/zz_verif/lib/hx"
)

func kitSSV(w *World, role spectypes.BeaconRole, m *specqbft.SignedMessage) *spectypes.SSVMessage {
	enc, err := m.Encode()
	if err != nil {
		panic(err)
	}
	return ssvOf(w, vMain, role, spectypes.SSVConsensusMsgType, enc)
}

func leaderOf(w *World, height, round uint64) uint64 {
	return (height+round-1)%uint64(w.N) + 1
}

func targetedC09(run *hx.Run, r *hx.Rng, idx int) {
	w := world([]int{4, 7}[r.Intn(2)])
	ks := w.KS
	id := []byte{1, 2, 3, 4}
	root := tu.TestingQBFTRootData
	at := func(slot uint64, off time.Duration) time.Time { return w.SlotStart(slot).Add(off) }
	switch idx % 7 {
	case 0: // duties per epoch: the same signer moves through slots of one epoch (limit 2), then the next epoch
		role := []spectypes.BeaconRole{spectypes.BNRoleAttester, spectypes.BNRoleAggregator, spectypes.BNRoleSyncCommittee}[r.Intn(3)]
		c := NewCase(run, w, false, "targeted/duties-per-epoch")
		s := uint64(baseSlot + 2)
		for k := uint64(0); k < 4; k++ {
			m := tu.TestingPrepareMessageWithParams(ks.Shares[2], 2, 1, specqbft.Height(s+k), id, root)
			m.FullData = nil
			c.ValidateSSV(kitSSV(w, role, m), at(s+k, 5*time.Second), Env{Mode: "n"}, "targeted:duty-count")
		}
		m := tu.TestingPrepareMessageWithParams(ks.Shares[2], 2, 1, specqbft.Height(baseSlot+32), id, root)
		m.FullData = nil
		c.ValidateSSV(kitSSV(w, role, m), at(baseSlot+32, 5*time.Second), Env{Mode: "n"}, "targeted:duty-count-next-epoch")
	case 1: // equivocating leader: second proposal of the same round with different data; the same data again
		role := consensusRoles[r.Intn(2)]
		c := NewCase(run, w, false, "targeted/second-proposal")
		s := uint64(baseSlot + 4)
		l := leaderOf(w, s, 1)
		p1 := tu.TestingProposalMessageWithParams(ks.Shares[l], l, 1, specqbft.Height(s), root, nil, nil)
		c.ValidateSSV(kitSSV(w, role, p1), at(s, 5*time.Second), Env{Mode: "n"}, "targeted:proposal")
		p2 := tu.TestingProposalMessageWithParams(ks.Shares[l], l, 1, specqbft.Height(s), root, nil, nil)
		p2.FullData = append([]byte{7}, p2.FullData...)
		p2.Message.Root, _ = specqbft.HashDataRoot(p2.FullData)
		c.ValidateSSV(kitSSV(w, role, p2), at(s, 5*time.Second+time.Millisecond), Env{Mode: "n"}, "targeted:second-proposal-different-data")
		c.ValidateSSV(kitSSV(w, role, p1), at(s, 5*time.Second+2*time.Millisecond), Env{Mode: "n"}, "targeted:second-proposal-same-data")
		// a round change with full data fixes the signer's proposal data for round 2, too
		l2 := leaderOf(w, s, 2)
		rc := tu.TestingRoundChangeMessageWithParamsAndFullData(ks.Shares[l2], l2, 2, specqbft.Height(s), root, 1, tu.TestingQBFTFullData, nil)
		c.ValidateSSV(kitSSV(w, role, rc), at(s, 7*time.Second), Env{Mode: "n"}, "targeted:round-change-with-data")
	case 2: // proposer duty missing at an odd slot; present at the even one
		c := NewCase(run, w, false, "targeted/proposer-duty")
		for _, s := range []uint64{baseSlot + 7, baseSlot + 8, baseSlot + 200} {
			l := leaderOf(w, s, 1)
			p := tu.TestingProposalMessageWithParams(ks.Shares[l], l, 1, specqbft.Height(s), root, nil, nil)
			c.ValidateSSV(kitSSV(w, spectypes.BNRoleProposer, p), at(s, time.Second), Env{Mode: "n"}, "targeted:proposer-duty")
		}
	case 3: // sync committee duty of another period
		c := NewCase(run, w, false, "targeted/sync-duty")
		for _, s := range []uint64{baseSlot + 6, baseSlot + 256*32*2} {
			m := tu.TestingPrepareMessageWithParams(ks.Shares[3], 3, 1, specqbft.Height(s), id, root)
			m.FullData = nil
			c.ValidateSSV(kitSSV(w, []spectypes.BeaconRole{spectypes.BNRoleSyncCommittee, spectypes.BNRoleSyncCommitteeContribution}[r.Intn(2)], m),
				at(s, 5*time.Second), Env{Mode: "n"}, "targeted:sync-duty")
		}
	case 4: // decided-message limit N*(f+1) per signer and round
		c := NewCase(run, w, false, "targeted/decided-limit")
		s := uint64(baseSlot + 10)
		n := w.N
		limit := n * ((n-1)/3 + 1)
		var sks = ks.Shares
		ids := []spectypes.OperatorID{}
		for i := 1; i <= int(ks.Threshold); i++ {
			ids = append(ids, spectypes.OperatorID(i))
		}
		d := DecidedKit(ks, specqbft.Height(s), 1, ids)
		_ = sks
		for k := 0; k <= limit+1; k++ {
			c.ValidateSSV(kitSSV(w, spectypes.BNRoleAttester, d), at(s, 5*time.Second+time.Duration(k)*time.Millisecond), Env{Mode: "n"}, "targeted:decided-limit")
		}
	case 6: // pending-queued validator: refused before its activation epoch (1001), accepted from it on
		c := NewCase(run, w, false, "targeted/pending-activation")
		for _, s := range []uint64{baseSlot + 20, baseSlot + 32, baseSlot + 40} {
			m := tu.TestingPrepareMessageWithParams(ks.Shares[2], 2, 1, specqbft.Height(s), id, root)
			m.FullData = nil
			enc, _ := m.Encode()
			c.ValidateSSV(ssvOf(w, vPending, spectypes.BNRoleAttester, spectypes.SSVConsensusMsgType, enc), at(s, 5*time.Second), Env{Mode: "n"}, "targeted:pending-validator")
		}
	case 5: // partial signature count limit (the code lets limit+1 through: strict '>') and slot regression
		c := NewCase(run, w, false, "targeted/partial-limit")
		s := uint64(baseSlot + 12)
		role := spectypes.BNRoleAttester
		for k := 0; k < 4; k++ {
			pm := tu.PostConsensusAttestationMsg(ks.Shares[1], 1, specqbft.Height(s))
			c.ValidateSSV(partialSSV(w, role, pm, s), at(s, 6*time.Second+time.Duration(k)*time.Millisecond), Env{Mode: "n"}, "targeted:partial-limit")
		}
		pm := tu.PostConsensusAttestationMsg(ks.Shares[1], 1, specqbft.Height(s-1))
		c.ValidateSSV(partialSSV(w, role, pm, s-1), at(s, 7*time.Second), Env{Mode: "n"}, "targeted:partial-slot-regression")
	}
}

// DecidedKit: a commit aggregated from the given signers' real signatures with the kit's full data.
func DecidedKit(ks *tu.TestKeySet, height specqbft.Height, round specqbft.Round, ids []spectypes.OperatorID) *specqbft.SignedMessage {
	msg := &specqbft.Message{MsgType: specqbft.CommitMsgType, Height: height, Round: round, Identifier: []byte{1, 2, 3, 4}, Root: tu.TestingQBFTRootData}
	var signed *specqbft.SignedMessage
	for _, id := range ids {
		s := tu.SignQBFTMsg(ks.Shares[id], id, msg)
		if signed == nil {
			signed = s
		} else if err := signed.Aggregate(s); err != nil {
			panic(err)
		}
	}
	signed.FullData = tu.TestingQBFTFullData
	return signed
}

// subsetSeenDecided: a decided (quorum-sized) commit where only a SUBSET of its signers has prior state, every subset
// pattern in turn; the seen signers are at the same (slot, round), advanced in round, or advanced in slot. Unseen signers
// listed BEFORE seen ones must not shield the seen ones from the regression / limit checks.
func subsetSeenDecided(run *hx.Run, r *hx.Rng, idx int) {
	w := world([]int{4, 7}[idx%2])
	ks := w.KS
	id := []byte{1, 2, 3, 4}
	root := tu.TestingQBFTRootData
	role := []spectypes.BeaconRole{spectypes.BNRoleAttester, spectypes.BNRoleAggregator}[idx%2]
	s := uint64(baseSlot + 4)
	q := int(ks.Threshold)
	var ids []spectypes.OperatorID
	start := 1 + (idx/2)%(w.N-q+1)
	for i := start; i < start+q; i++ {
		ids = append(ids, spectypes.OperatorID(i))
	}
	pattern := (idx / 2) % (1 << uint(hx.Min(q, 5))) // which of the (first five) signers already have state
	adv := (idx / 3) % 4                             // 0 same slot+round, 1 round 2 of the slot, 2 next slot, 3 mixed
	c := NewCase(run, w, false, fmt.Sprintf("targeted/subset-seen-decided/p%d/a%d", pattern, adv))
	now := w.SlotStart(s).Add(5 * time.Second)
	for bit, op := range ids {
		if bit >= 5 || pattern&(1<<uint(bit)) == 0 {
			continue
		}
		a := adv
		if a == 3 {
			a = bit % 3
		}
		switch a {
		case 0:
			m := tu.TestingPrepareMessageWithParams(ks.Shares[op], op, 1, specqbft.Height(s), id, root)
			m.FullData = nil
			c.ValidateSSV(kitSSV(w, role, m), now, Env{Mode: "n"}, "subset:seen-same-round")
		case 1:
			m := tu.TestingRoundChangeMessageWithParams(ks.Shares[op], op, 2, specqbft.Height(s), [32]byte{}, 0, nil)
			m.FullData = nil
			c.ValidateSSV(kitSSV(w, role, m), now, Env{Mode: "n"}, "subset:seen-round-advanced")
		case 2:
			m := tu.TestingPrepareMessageWithParams(ks.Shares[op], op, 1, specqbft.Height(s+1), id, root)
			m.FullData = nil
			c.ValidateSSV(kitSSV(w, role, m), w.SlotStart(s+1).Add(5*time.Second), Env{Mode: "n"}, "subset:seen-slot-advanced")
			now = w.SlotStart(s + 1).Add(6 * time.Second)
		}
	}
	d := DecidedKit(ks, specqbft.Height(s), 1, ids)
	c.ValidateSSV(kitSSV(w, role, d), now.Add(time.Millisecond), Env{Mode: "n"}, "subset:decided")
	// a second decided message with another signer order pattern: the last signers only
	if len(ids) > 3 {
		d2 := DecidedKit(ks, specqbft.Height(s), 1, ids)
		c.ValidateSSV(kitSSV(w, role, d2), now.Add(2*time.Millisecond), Env{Mode: "n"}, "subset:decided-again")
	}
}

// topicSweep: one honest message of the subnet-7 validator (and of the main validator) through validateP2PMessage on
// EVERY advertised topic, with and without the network prefix, plus near-miss names: only the validator's own topic may pass.
func topicSweep(run *hx.Run, r *hx.Rng) {
	w := world(4)
	ks := w.KS
	s := uint64(baseSlot + 6)
	at := w.SlotStart(s).Add(5 * time.Second)
	for _, flav := range []int{vTopic, vMain} {
		m := tu.TestingPrepareMessageWithParams(ks.Shares[2], 2, 1, specqbft.Height(s), []byte{1, 2, 3, 4}, tu.TestingQBFTRootData)
		m.FullData = nil
		enc, _ := m.Encode()
		msg := ssvOf(w, flav, spectypes.BNRoleAttester, spectypes.SSVConsensusMsgType, enc)
		data, err := msg.Encode()
		if err != nil {
			continue
		}
		own := commons.ValidatorTopicID(msg.GetID().GetPubKey())[0]
		var topics []string
		for i := 0; i < 128; i++ {
			topics = append(topics, commons.GetTopicFullName(commons.SubnetTopicID(i)))
			if flav == vTopic || i%16 == int(r.Intn(16)) {
				topics = append(topics, commons.SubnetTopicID(i))
			}
		}
		topics = append(topics, "", own+"0", "1"+own, "x"+commons.GetTopicFullName(own), commons.GetTopicFullName(own)+" ", "ssv.v2."+commons.GetTopicFullName(own), "ssv.v2.ssv.v2.1"+own)
		for _, tp := range topics {
			c := NewCase(run, w, false, "topic-sweep/"+flavourNames[flav])
			c.ValidateP2P(data, tp, at, "topic-sweep")
		}
	}
}

// largeCommitteeLimits: committees of 10 and 13 operators with EVERY operator active in one slot and round (proposal, n prepares,
// n commits — more distinct signers than a 4- or 7-committee can show), then each per-signer limit is probed again for EARLY and
// late signers: the leader's second proposal with different data, repeated prepare / commit, going back a round after n round
// changes, going back a slot. The per-signer state of every committee member must survive whatever the others send.
func largeCommitteeLimits(run *hx.Run, r *hx.Rng, idx int) {
	w := world([]int{10, 13}[idx%2])
	ks := w.KS
	n := uint64(w.N)
	id := []byte{1, 2, 3, 4}
	root := tu.TestingQBFTRootData
	role := consensusRoles[r.Intn(2)]
	s := uint64(baseSlot + 4 + 2*r.Intn(4))
	at := func(off time.Duration) time.Time { return w.SlotStart(s).Add(off) }
	c := NewCase(run, w, false, fmt.Sprintf("targeted/large-committee-%d", n))
	l := leaderOf(w, s, 1)
	p1 := tu.TestingProposalMessageWithParams(ks.Shares[l], l, 1, specqbft.Height(s), root, nil, nil)
	c.ValidateSSV(kitSSV(w, role, p1), at(4*time.Second), Env{Mode: "n"}, "large:proposal")
	order := r.Perm(int(n))
	k := time.Duration(0)
	for _, i := range order {
		op := uint64(i + 1)
		m := tu.TestingPrepareMessageWithParams(ks.Shares[op], op, 1, specqbft.Height(s), id, root)
		m.FullData = nil
		k++
		c.ValidateSSV(kitSSV(w, role, m), at(4*time.Second+k*time.Millisecond), Env{Mode: "n"}, "large:prepare")
	}
	second := func(kind string) {
		p2 := tu.TestingProposalMessageWithParams(ks.Shares[l], l, 1, specqbft.Height(s), root, nil, nil)
		p2.FullData = append([]byte{7}, p2.FullData...)
		p2.Message.Root, _ = specqbft.HashDataRoot(p2.FullData)
		k++
		c.ValidateSSV(kitSSV(w, role, p2), at(4*time.Second+k*time.Millisecond), Env{Mode: "n"}, kind)
	}
	second("large:second-proposal-after-all-prepares")
	// every signer's prepare again (a second prepare per signer and round must be refused, for the first signers as for the last)
	for _, i := range order {
		op := uint64(i + 1)
		m := tu.TestingPrepareMessageWithParams(ks.Shares[op], op, 1, specqbft.Height(s), id, root)
		m.FullData = nil
		k++
		c.ValidateSSV(kitSSV(w, role, m), at(4*time.Second+k*time.Millisecond), Env{Mode: "n"}, "large:prepare-again")
	}
	for _, i := range order {
		op := uint64(i + 1)
		m := tu.TestingCommitMessageWithParams(ks.Shares[op], op, 1, specqbft.Height(s), id, root)
		m.FullData = nil
		k++
		c.ValidateSSV(kitSSV(w, role, m), at(4*time.Second+k*time.Millisecond), Env{Mode: "n"}, "large:commit")
	}
	second("large:second-proposal-after-all-commits")
	// round changes to round 2 by everybody, then round-1 messages of early signers (going back in round)
	for _, i := range order {
		op := uint64(i + 1)
		m := tu.TestingRoundChangeMessageWithParams(ks.Shares[op], op, 2, specqbft.Height(s), root, 0, nil)
		m.FullData = nil
		m.Message.Root = [32]byte{}
		k++
		c.ValidateSSV(kitSSV(w, role, m), at(7*time.Second+k*time.Millisecond), Env{Mode: "n"}, "large:round-change")
	}
	for _, i := range order[:3] {
		op := uint64(i + 1)
		m := tu.TestingCommitMessageWithParams(ks.Shares[op], op, 1, specqbft.Height(s), id, root)
		m.FullData = nil
		k++
		c.ValidateSSV(kitSSV(w, role, m), at(7*time.Second+k*time.Millisecond), Env{Mode: "n"}, "large:back-in-round")
	}
	// the next slot by everybody, then the old slot again by an early signer (going back in slot)
	for _, i := range order {
		op := uint64(i + 1)
		m := tu.TestingPrepareMessageWithParams(ks.Shares[op], op, 1, specqbft.Height(s+1), id, root)
		m.FullData = nil
		k++
		c.ValidateSSV(kitSSV(w, role, m), w.SlotStart(s+1).Add(5*time.Second+k*time.Millisecond), Env{Mode: "n"}, "large:next-slot")
	}
	op := uint64(order[0] + 1)
	m := tu.TestingPrepareMessageWithParams(ks.Shares[op], op, 2, specqbft.Height(s), id, root)
	m.FullData = nil
	c.ValidateSSV(kitSSV(w, role, m), w.SlotStart(s+1).Add(6*time.Second), Env{Mode: "n"}, "large:back-in-slot")
}
