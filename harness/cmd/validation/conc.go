package main

// Thorough tier (C09): concurrent validation calls for the same and for different (validator, role) ids on ONE real
// validator (run under the race detector), with the sequential Lean model as linearizability oracle: the multiset of
// verdicts (and the final per-signer state) observed must be the one the model produces for SOME sequential order of
// the same calls. Workloads are order-insensitive by construction or small enough to enumerate every order.

import (
	"bufio"
	"flag"
	"fmt"
	"os"
	"os/exec"
	"runtime/debug"
	"sort"
	"strings"
	"sync"
	"time"

	spectypes "github.com/bloxapp/ssv-spec/types"

	"github.com/bloxapp/ssv/message/validation"
	"github.com/bloxapp/ssv/zz_verif/lib/hx"
)

var driverFlag = flag.String("driver", "/verif/lean/.lake/build/bin/m_validation", "native model driver (sequential oracle of the concurrent stage)")

type concCall struct {
	msg *spectypes.SSVMessage
	at  time.Time
	op  string // the `v` op line (abstract input)
	obs string // verdict observed in the concurrent run
}

// modelRun feeds `reset` + the ops in the given order to the model driver; returns verdicts and final state digests.
func modelRun(reset string, ops []string) ([]string, error) {
	cmd := exec.Command(*driverFlag)
	cmd.Stdin = strings.NewReader(reset + "\n" + strings.Join(ops, "\n") + "\n")
	out, err := cmd.Output()
	if err != nil {
		return nil, err
	}
	var res []string
	sc := bufio.NewScanner(strings.NewReader(string(out)))
	sc.Buffer(make([]byte, 1<<20), 1<<26)
	for sc.Scan() {
		res = append(res, sc.Text())
	}
	if len(res) != len(ops)+1 {
		return nil, fmt.Errorf("driver returned %d lines for %d ops", len(res), len(ops)+1)
	}
	return res[1:], nil
}

// modelBatch runs the driver once over many `reset`-delimited cases and returns one output line per input line.
func modelBatch(lines []string) ([]string, error) {
	cmd := exec.Command(*driverFlag)
	cmd.Stdin = strings.NewReader(strings.Join(lines, "\n") + "\n")
	out, err := cmd.Output()
	if err != nil {
		return nil, err
	}
	var res []string
	sc := bufio.NewScanner(strings.NewReader(string(out)))
	sc.Buffer(make([]byte, 1<<20), 1<<26)
	for sc.Scan() {
		res = append(res, sc.Text())
	}
	if len(res) != len(lines) {
		return nil, fmt.Errorf("driver returned %d lines for %d ops", len(res), len(lines))
	}
	return res, nil
}

func verdictOf(obs string) string { return strings.Fields(obs)[0] }

func multiset(xs []string) string {
	s := append([]string{}, xs...)
	sort.Strings(s)
	return strings.Join(s, " ")
}

func permutations(n int, f func([]int) bool) {
	p := make([]int, n)
	for i := range p {
		p[i] = i
	}
	var rec func(k int) bool
	rec = func(k int) bool {
		if k == n {
			return f(p)
		}
		for i := k; i < n; i++ {
			p[k], p[i] = p[i], p[k]
			if !rec(k + 1) {
				return false
			}
			p[k], p[i] = p[i], p[k]
		}
		return true
	}
	rec(0)
}

func genConc(run *hx.Run, r *hx.Rng) {
	for round := 0; round < run.N; round++ {
		t := pickTrace(run, r, round)
		if len(t.Msgs) < 4 {
			continue
		}
		w := t.W
		mv := w.NewValidator(false)
		reset := w.ResetLine(false)
		// the wall clock is set ONCE per round (all calls of a round lie in one epoch), never concurrently
		w.SetClock(t.Time(0))
		kind := round % 4
		var groups [][]*concCall // each group is executed sequentially by one goroutine
		mk := func(i int) *concCall {
			fields, _ := w.Abstract(mv, t.Msgs[i].Msg, t.Time(i), "n")
			return &concCall{msg: t.Msgs[i].Msg, at: t.Time(i), op: "v " + fields}
		}
		label := ""
		switch kind {
		case 0: // same id, the same message 8 times: exactly one accept whatever the order
			label = "same-message"
			i := r.Intn(len(t.Msgs))
			for g := 0; g < 8; g++ {
				groups = append(groups, []*concCall{mk(i)})
			}
		case 1: // same id, a window of consecutive honest messages, one goroutine each (≤ 5: every order is enumerated)
			label = "same-id-window"
			i := r.Intn(len(t.Msgs) - 3)
			for g := 0; g < 4+r.Intn(2) && i+g < len(t.Msgs); g++ {
				groups = append(groups, []*concCall{mk(i + g)})
			}
		case 2: // different ids: the whole trace once per role, each role in its own goroutine (sequential inside)
			label = "different-ids"
			for gi, role := range consensusRoles {
				var grp []*concCall
				for i := range t.Msgs {
					m := &spectypes.SSVMessage{MsgType: t.Msgs[i].Msg.MsgType, MsgID: spectypes.NewMsgID(w.NetCfg.Domain, w.PKs[vMain], role), Data: t.Msgs[i].Msg.Data}
					fields, _ := w.Abstract(mv, m, t.Time(i), "n")
					grp = append(grp, &concCall{msg: m, at: t.Time(i), op: "v " + fields})
				}
				if gi < 4 {
					groups = append(groups, grp)
				}
			}
		case 3: // same id AND different ids mixed: two goroutines per role, each sending the same short prefix
			label = "mixed"
			k := hx.Min(len(t.Msgs), 3)
			for _, role := range consensusRoles[:3] {
				for rep := 0; rep < 2; rep++ {
					var grp []*concCall
					for i := 0; i < k; i++ {
						m := &spectypes.SSVMessage{MsgType: t.Msgs[i].Msg.MsgType, MsgID: spectypes.NewMsgID(w.NetCfg.Domain, w.PKs[vMain], role), Data: t.Msgs[i].Msg.Data}
						fields, _ := w.Abstract(mv, m, t.Time(i), "n")
						grp = append(grp, &concCall{msg: m, at: t.Time(i), op: "v " + fields})
					}
					groups = append(groups, grp)
				}
			}
		}
		// ---- concurrent execution on the real validator
		var wg sync.WaitGroup
		start := make(chan struct{})
		var panicMu sync.Mutex
		panics := []string{}
		for _, grp := range groups {
			wg.Add(1)
			go func(grp []*concCall) {
				defer wg.Done()
				<-start
				for _, c := range grp {
					func() {
						defer func() {
							if p := recover(); p != nil {
								panicMu.Lock()
								panics = append(panics, fmt.Sprint(p)+"\n"+string(debug.Stack()))
								panicMu.Unlock()
								c.obs = "panic"
							}
						}()
						_, _, err := validation.VerifValidateSSVWith(mv, c.msg, c.at, nil)
						o, _, _ := Outcome(err, nil, "")
						c.obs = o
					}()
				}
			}(grp)
		}
		close(start)
		wg.Wait()
		var all []*concCall
		for _, g := range groups {
			all = append(all, g...)
		}
		if len(panics) > 0 {
			run.Violate("C08/panic-in-concurrent-validation", "panic during concurrent validation: "+panics[0][:hx.Min(len(panics[0]), 300)])
		}
		// ---- sequential oracle, per (validator, role) id (calls for different ids commute: C09_validate_commutes_across_ids)
		ids := map[string][][]*concCall{} // id -> per goroutine subsequence
		var idOrder []string
		for _, g := range groups {
			per := map[string][]*concCall{}
			for _, c := range g {
				k := string(c.msg.MsgID[:])
				per[k] = append(per[k], c)
			}
			for k, seq := range per {
				if _, ok := ids[k]; !ok {
					idOrder = append(idOrder, k)
				}
				ids[k] = append(ids[k], seq)
			}
		}
		sort.Strings(idOrder)
		okFound := true
		tried := 0
		inconclusive := false
		gotMS := ""
		for _, k := range idOrder {
			seqs := ids[k]
			var got []string
			for _, sq := range seqs {
				for _, c := range sq {
					got = append(got, c.obs)
				}
			}
			want := multiset(got)
			gotMS += want + " | "
			// all interleavings of the goroutines' subsequences, identical op sequences only once
			const cap = 4000
			seen := map[string]bool{}
			var cands [][]string
			idx := make([]int, len(seqs))
			var cur []string
			exhaustive := true
			var rec func()
			rec = func() {
				if len(cands) >= cap {
					exhaustive = false
					return
				}
				done := true
				for gi := range seqs {
					if idx[gi] < len(seqs[gi]) {
						done = false
						cur = append(cur, seqs[gi][idx[gi]].op)
						idx[gi]++
						key := strings.Join(cur, "\x00")
						if !seen[key] {
							seen[key] = true
							rec()
						}
						idx[gi]--
						cur = cur[:len(cur)-1]
					}
				}
				if done {
					cands = append(cands, append([]string{}, cur...))
				}
			}
			rec()
			// one driver run for all candidate orders
			var input []string
			for _, c := range cands {
				input = append(input, reset)
				input = append(input, c...)
			}
			res, err := modelBatch(input)
			if err != nil {
				fmt.Fprintln(os.Stderr, "model driver:", err)
				inconclusive = true
				continue
			}
			match := false
			pos := 0
			for _, c := range cands {
				pos++ // reset line
				var vs []string
				for range c {
					vs = append(vs, verdictOf(res[pos]))
					pos++
				}
				tried++
				if multiset(vs) == want {
					match = true
				}
			}
			if !match {
				if exhaustive {
					okFound = false
				} else {
					inconclusive = true
				}
			}
		}
		if inconclusive {
			run.Tag("conc-inconclusive")
		}
		run.Emit(fmt.Sprintf("conc round=%d kind=%s calls=%d goroutines=%d orders=%d", round, label, len(all), len(groups), tried), "ok")
		run.Tag("conc/" + label)
		run.Seen("conc|" + label + "|" + gotMS)
		if !okFound {
			var lines []string
			lines = append(lines, reset)
			for _, c := range all {
				lines = append(lines, c.op+" "+rawOfSSV(c.msg))
			}
			run.Violate("C09/concurrent-verdicts-not-linearizable:"+label,
				fmt.Sprintf("verdict multiset of %d concurrent calls {%s} is not produced by any of %d sequential orders of the model", len(all), gotMS, tried), lines...)
		}
	}
}
