package main

// Honest traffic (spec test kit messages + traffic captured from real QBFT runs) and the single-rule-breaking
// mutations applied to it.

import (
	"fmt"
	"time"

	spec "github.com/attestantio/go-eth2-client/spec"
	"github.com/attestantio/go-eth2-client/spec/phase0"
	specqbft "github.com/bloxapp/ssv-spec/qbft"
	spectypes "github.com/bloxapp/ssv-spec/types"
	tu "github.com/bloxapp/ssv-spec/types/testingutils"

	"github.com/bloxapp/ssv/zz_verif/lib/hx"
)

// HMsg is one honest message with its send time.
type HMsg struct {
	Msg  *spectypes.SSVMessage
	At   time.Duration // relative to the start of slot Trace.Slot
	From spectypes.OperatorID
}

type Trace struct {
	Name string
	W    *World
	Role spectypes.BeaconRole
	Slot uint64
	Msgs []HMsg
}

func (t *Trace) Time(i int) time.Time { return t.W.SlotStart(t.Slot).Add(t.Msgs[i].At) }

var consensusRoles = []spectypes.BeaconRole{spectypes.BNRoleAttester, spectypes.BNRoleAggregator, spectypes.BNRoleProposer,
	spectypes.BNRoleSyncCommittee, spectypes.BNRoleSyncCommitteeContribution}

var scenarios = []Scenario{
	{Name: "happy", SameValue: true},
	{Name: "happy-diffvalues"},
	{Name: "rc2", DropProp: 2},                         // round-1 leader too slow: round change without prepared value, justified proposal in round 2
	{Name: "rc3", DropProp: 3},                         // two lost leaders
	{Name: "prepared-rc", DropCom: 2, SameValue: true}, // everybody prepared in round 1, commits lost: prepared round changes, proposal with prepare justifications
	{Name: "prepared-rc-diff", DropCom: 2},
	{Name: "shuffled", Shuffle: true},
	{Name: "one-down", Silent: []spectypes.OperatorID{2}},
	{Name: "max-rounds", DropProp: 1000, MaxRounds: 0}, // no proposal ever arrives: rounds up to the role maximum
	{Name: "overtake", Overtake: 1, SameValue: true},   // per-receiver gossip order: decided aggregates overtake single commits (directed rankings)
	{Name: "overtake-random", Overtake: 2},             // … with sender rankings drawn from the seed
}

func partialSSV(w *World, role spectypes.BeaconRole, m *spectypes.SignedPartialSignatureMessage, slot uint64) *spectypes.SSVMessage {
	m.Message.Slot = phase0.Slot(slot)
	enc, err := m.Encode()
	if err != nil {
		panic(err)
	}
	return ssvOf(w, vMain, role, spectypes.SSVPartialSignatureMsgType, enc)
}

// kitPartials: the spec test kit's pre- and post-consensus messages of every operator for a role.
func kitPartials(w *World, role spectypes.BeaconRole, slot uint64) (pre, post []*spectypes.SignedPartialSignatureMessage, ids []spectypes.OperatorID) {
	ks := w.KS
	for i := 1; i <= w.N; i++ {
		id := spectypes.OperatorID(i)
		sk := ks.Shares[id]
		ids = append(ids, id)
		switch role {
		case spectypes.BNRoleAttester:
			post = append(post, tu.PostConsensusAttestationMsg(sk, id, specqbft.Height(slot)))
		case spectypes.BNRoleAggregator:
			pre = append(pre, tu.PreConsensusSelectionProofMsg(sk, sk, id, id))
			post = append(post, tu.PostConsensusAggregatorMsg(sk, id))
		case spectypes.BNRoleProposer:
			pre = append(pre, tu.PreConsensusRandaoMsg(sk, id))
			post = append(post, tu.PostConsensusProposerMsgV(sk, id, spec.DataVersionCapella))
		case spectypes.BNRoleSyncCommittee:
			post = append(post, tu.PostConsensusSyncCommitteeMsg(sk, id))
		case spectypes.BNRoleSyncCommitteeContribution:
			pre = append(pre, tu.PreConsensusContributionProofMsg(sk, sk, id, id))
			post = append(post, tu.PostConsensusSyncCommitteeContributionMsg(sk, id, ks))
		case spectypes.BNRoleValidatorRegistration:
			pre = append(pre, tu.PreConsensusValidatorRegistrationMsg(sk, id))
		case spectypes.BNRoleVoluntaryExit:
			pre = append(pre, tu.PreConsensusVoluntaryExitMsg(sk, id))
		}
	}
	return
}

// BuildTrace: pre-consensus kit messages, the captured traffic of a real QBFT run, post-consensus kit messages.
func BuildTrace(w *World, role spectypes.BeaconRole, slot uint64, sc Scenario, r *hx.Rng) *Trace {
	t := &Trace{Name: fmt.Sprintf("n%d/role%d/%s", w.N, role, sc.Name), W: w, Role: role, Slot: slot}
	pre, post, ids := kitPartials(w, role, slot)
	for i, m := range pre {
		t.Msgs = append(t.Msgs, HMsg{Msg: partialSSV(w, role, m, slot), At: 100*time.Millisecond + time.Duration(i)*time.Millisecond, From: ids[i]})
	}
	last := consensusStart(role)
	if role != spectypes.BNRoleValidatorRegistration && role != spectypes.BNRoleVoluntaryExit {
		sim := RunScenario(w, role, slot, sc, r)
		for _, e := range sim.Log {
			t.Msgs = append(t.Msgs, HMsg{Msg: e.Msg, At: e.At, From: e.From})
			last = e.At
		}
		if !sim.allDecided() {
			post = nil
		}
	}
	for i, m := range post {
		t.Msgs = append(t.Msgs, HMsg{Msg: partialSSV(w, role, m, slot), At: last + 50*time.Millisecond + time.Duration(i)*time.Millisecond, From: ids[i]})
	}
	return t
}

// ---------------------------------------------------------------- mutations

// Mutated is what a mutation produces: the message to validate, when, and how its envelope is signed.
type Mutated struct {
	Msg *spectypes.SSVMessage
	At  time.Time
	Env Env
}

type mctx struct {
	w    *World
	t    *Trace
	k    int
	msg  *spectypes.SSVMessage
	at   time.Time
	r    *hx.Rng
	qm   *specqbft.SignedMessage                  // decoded copy when consensus
	pm   *spectypes.SignedPartialSignatureMessage // decoded copy when partial signature
	role spectypes.BeaconRole
}

func (c *mctx) reQ() *spectypes.SSVMessage {
	enc, err := c.qm.Encode()
	if err != nil {
		return nil
	}
	return &spectypes.SSVMessage{MsgType: c.msg.MsgType, MsgID: c.msg.MsgID, Data: enc}
}
func (c *mctx) reP() *spectypes.SSVMessage {
	enc, err := c.pm.Encode()
	if err != nil {
		return nil
	}
	return &spectypes.SSVMessage{MsgType: c.msg.MsgType, MsgID: c.msg.MsgID, Data: enc}
}
func (c *mctx) withID(flavour int, role spectypes.BeaconRole) *spectypes.SSVMessage {
	return &spectypes.SSVMessage{MsgType: c.msg.MsgType, MsgID: spectypes.NewMsgID(c.w.NetCfg.Domain, c.w.PKs[flavour], role), Data: c.msg.Data}
}

type Mut struct {
	Name string
	On   string // "q": consensus, "p": partial signature, "*": both
	F    func(c *mctx) *Mutated
}

func qmut(name string, f func(c *mctx, m *specqbft.SignedMessage) bool) Mut {
	return Mut{Name: name, On: "q", F: func(c *mctx) *Mutated {
		if !f(c, c.qm) {
			return nil
		}
		msg := c.reQ()
		if msg == nil {
			return nil
		}
		return &Mutated{Msg: msg, At: c.at, Env: Env{Mode: "n"}}
	}}
}
func pmut(name string, f func(c *mctx, m *spectypes.SignedPartialSignatureMessage) bool) Mut {
	return Mut{Name: name, On: "p", F: func(c *mctx) *Mutated {
		if !f(c, c.pm) {
			return nil
		}
		msg := c.reP()
		if msg == nil {
			return nil
		}
		return &Mutated{Msg: msg, At: c.at, Env: Env{Mode: "n"}}
	}}
}
func amut(name string, f func(c *mctx) *Mutated) Mut { return Mut{Name: name, On: "*", F: f} }

func otherMember(n int, s uint64) uint64 { return s%uint64(n) + 1 }

var zero96 = make([]byte, 96)

func ttlSlots(role spectypes.BeaconRole) uint64 {
	t, _ := ttlOf(role)
	return t
}

var Mutations = []Mut{
	amut("honest", func(c *mctx) *Mutated { return &Mutated{Msg: c.msg, At: c.at, Env: Env{Mode: "n"}} }),
	// ---- rounds
	qmut("round-0", func(c *mctx, m *specqbft.SignedMessage) bool { m.Message.Round = 0; return true }),
	qmut("round-max+1", func(c *mctx, m *specqbft.SignedMessage) bool {
		m.Message.Round = specqbft.Round(maxRoundOf(c.role) + 1)
		return true
	}),
	qmut("round-beyond-window", func(c *mctx, m *specqbft.SignedMessage) bool {
		m.Message.Round = specqbft.Round(maxRoundOf(c.role))
		return true
	}),
	qmut("round-2^63", func(c *mctx, m *specqbft.SignedMessage) bool { m.Message.Round = 1 << 63; return true }),
	qmut("round-maxu64", func(c *mctx, m *specqbft.SignedMessage) bool { m.Message.Round = 1<<64 - 1; return true }),
	// ---- heights / slots
	qmut("height+1", func(c *mctx, m *specqbft.SignedMessage) bool { m.Message.Height++; return true }),
	qmut("height+2^62", func(c *mctx, m *specqbft.SignedMessage) bool { m.Message.Height += 1 << 62; return true }),
	qmut("height-2^63", func(c *mctx, m *specqbft.SignedMessage) bool { m.Message.Height = 1 << 63; return true }),
	qmut("height-maxu64", func(c *mctx, m *specqbft.SignedMessage) bool { m.Message.Height = 1<<64 - 1; return true }),
	qmut("height-0", func(c *mctx, m *specqbft.SignedMessage) bool { m.Message.Height = 0; return true }),
	qmut("height-expired", func(c *mctx, m *specqbft.SignedMessage) bool {
		m.Message.Height -= specqbft.Height(ttlSlots(c.role) + 2)
		return true
	}),
	// ---- signers
	qmut("no-signers", func(c *mctx, m *specqbft.SignedMessage) bool { m.Signers = nil; return true }),
	qmut("signer-0", func(c *mctx, m *specqbft.SignedMessage) bool { m.Signers[0] = 0; return true }),
	qmut("signer-non-member", func(c *mctx, m *specqbft.SignedMessage) bool {
		m.Signers[len(m.Signers)-1] = 99
		return true
	}),
	qmut("signer-duplicated", func(c *mctx, m *specqbft.SignedMessage) bool {
		if len(m.Signers) < 2 {
			return false
		}
		m.Signers[1] = m.Signers[0]
		return true
	}),
	qmut("signers-unsorted", func(c *mctx, m *specqbft.SignedMessage) bool {
		if len(m.Signers) < 2 {
			return false
		}
		m.Signers[0], m.Signers[1] = m.Signers[1], m.Signers[0]
		return true
	}),
	qmut("second-signer-on-single", func(c *mctx, m *specqbft.SignedMessage) bool {
		if len(m.Signers) != 1 {
			return false
		}
		a, b := m.Signers[0], otherMember(c.w.N, m.Signers[0])
		if a > b {
			a, b = b, a
		}
		m.Signers = []uint64{a, b}
		return true
	}),
	qmut("decided-below-quorum", func(c *mctx, m *specqbft.SignedMessage) bool {
		if len(m.Signers) < 2 {
			return false
		}
		m.Signers = m.Signers[:2]
		return true
	}),
	qmut("decided-above-committee", func(c *mctx, m *specqbft.SignedMessage) bool {
		if len(m.Signers) < 2 {
			return false
		}
		var s []uint64
		for i := 1; i <= c.w.N+1; i++ {
			s = append(s, uint64(i))
		}
		m.Signers = s
		return true
	}),
	qmut("proposal-non-leader", func(c *mctx, m *specqbft.SignedMessage) bool {
		if m.Message.MsgType != specqbft.ProposalMsgType {
			return false
		}
		m.Signers[0] = otherMember(c.w.N, m.Signers[0])
		return true
	}),
	// ---- full data / type / signature
	qmut("full-data-mismatch", func(c *mctx, m *specqbft.SignedMessage) bool {
		m.FullData = append(append([]byte{}, m.FullData...), 0x55)
		return true
	}),
	qmut("full-data-attached-ok", func(c *mctx, m *specqbft.SignedMessage) bool {
		if len(m.FullData) != 0 {
			return false
		}
		m.FullData = []byte{9, 9, 9}
		h, _ := specqbft.HashDataRoot(m.FullData)
		m.Message.Root = h
		return true
	}),
	qmut("qbft-type-4", func(c *mctx, m *specqbft.SignedMessage) bool { m.Message.MsgType = 4; return true }),
	qmut("qbft-type-2^63", func(c *mctx, m *specqbft.SignedMessage) bool { m.Message.MsgType = 1 << 63; return true }),
	qmut("type-to-prepare", func(c *mctx, m *specqbft.SignedMessage) bool {
		if m.Message.MsgType == specqbft.PrepareMsgType {
			return false
		}
		m.Message.MsgType = specqbft.PrepareMsgType
		return true
	}),
	qmut("zero-signature", func(c *mctx, m *specqbft.SignedMessage) bool { m.Signature = zero96; return true }),
	// ---- justifications
	qmut("prepare-justification-on-non-proposal", func(c *mctx, m *specqbft.SignedMessage) bool {
		if m.Message.MsgType == specqbft.ProposalMsgType {
			return false
		}
		j, _ := specqbft.MarshalJustifications([]*specqbft.SignedMessage{tu.TestingPrepareMessage(c.w.KS.Shares[1], 1)})
		m.Message.PrepareJustification = j
		return true
	}),
	qmut("rc-justification-on-prepare-or-commit", func(c *mctx, m *specqbft.SignedMessage) bool {
		if m.Message.MsgType != specqbft.PrepareMsgType && m.Message.MsgType != specqbft.CommitMsgType {
			return false
		}
		j, _ := specqbft.MarshalJustifications([]*specqbft.SignedMessage{tu.TestingRoundChangeMessage(c.w.KS.Shares[1], 1)})
		m.Message.RoundChangeJustification = j
		return true
	}),
	qmut("malformed-prepare-justification", func(c *mctx, m *specqbft.SignedMessage) bool {
		m.Message.PrepareJustification = [][]byte{{1, 2, 3}}
		return true
	}),
	qmut("malformed-rc-justification", func(c *mctx, m *specqbft.SignedMessage) bool {
		m.Message.RoundChangeJustification = [][]byte{{1, 2, 3}}
		return true
	}),
	qmut("proposal-justification-dropped", func(c *mctx, m *specqbft.SignedMessage) bool {
		if m.Message.MsgType != specqbft.ProposalMsgType || len(m.Message.RoundChangeJustification) == 0 {
			return false
		}
		m.Message.RoundChangeJustification = m.Message.RoundChangeJustification[:1]
		return true
	}),
	qmut("proposal-unjustified-round", func(c *mctx, m *specqbft.SignedMessage) bool {
		if m.Message.MsgType != specqbft.ProposalMsgType || m.Message.Round != 1 || c.w.N != 4 {
			return false
		}
		// round 5 has the same leader as round 1 for n = 4; no round-change quorum attached
		m.Message.Round = 5
		return true
	}),
	// ---- message id: role / validator / domain
	amut("role-7", func(c *mctx) *Mutated { return &Mutated{Msg: c.withID(vMain, 7), At: c.at, Env: Env{Mode: "n"}} }),
	amut("role-maxu32", func(c *mctx) *Mutated {
		return &Mutated{Msg: c.withID(vMain, spectypes.BeaconRole(1<<32-1)), At: c.at, Env: Env{Mode: "n"}}
	}),
	amut("role-validator-registration", func(c *mctx) *Mutated {
		return &Mutated{Msg: c.withID(vMain, spectypes.BNRoleValidatorRegistration), At: c.at, Env: Env{Mode: "n"}}
	}),
	amut("role-other", func(c *mctx) *Mutated {
		o := consensusRoles[(int(c.role)+1+c.r.Intn(4))%5]
		if o == c.role {
			return nil
		}
		return &Mutated{Msg: c.withID(vMain, o), At: c.at, Env: Env{Mode: "n"}}
	}),
	amut("validator-liquidated", func(c *mctx) *Mutated { return &Mutated{Msg: c.withID(vLiquid, c.role), At: c.at, Env: Env{Mode: "n"}} }),
	amut("validator-no-metadata", func(c *mctx) *Mutated { return &Mutated{Msg: c.withID(vNoMeta, c.role), At: c.at, Env: Env{Mode: "n"}} }),
	amut("validator-exited", func(c *mctx) *Mutated { return &Mutated{Msg: c.withID(vExited, c.role), At: c.at, Env: Env{Mode: "n"}} }),
	amut("validator-pending", func(c *mctx) *Mutated {
		return &Mutated{Msg: c.withID(vPending, c.role), At: c.at, Env: Env{Mode: "n"}}
	}),
	amut("validator-unknown", func(c *mctx) *Mutated {
		m := c.withID(vMain, c.role)
		m.MsgID = spectypes.NewMsgID(c.w.NetCfg.Domain, tu.Testing13SharesSet().Shares[13].GetPublicKey().Serialize(), c.role)
		return &Mutated{Msg: m, At: c.at, Env: Env{Mode: "n"}}
	}),
	amut("validator-key-invalid", func(c *mctx) *Mutated {
		m := c.withID(vMain, c.role)
		bad := make([]byte, 48)
		for i := range bad {
			bad[i] = 0xff
		}
		m.MsgID = spectypes.NewMsgID(c.w.NetCfg.Domain, bad, c.role)
		return &Mutated{Msg: m, At: c.at, Env: Env{Mode: "n"}}
	}),
	amut("wrong-domain", func(c *mctx) *Mutated {
		m := c.withID(vMain, c.role)
		m.MsgID = spectypes.NewMsgID(spectypes.DomainType{9, 9, 9, 9}, c.w.PKs[vMain], c.role)
		return &Mutated{Msg: m, At: c.at, Env: Env{Mode: "n"}}
	}),
	// ---- SSV envelope
	amut("empty-data", func(c *mctx) *Mutated {
		return &Mutated{Msg: &spectypes.SSVMessage{MsgType: c.msg.MsgType, MsgID: c.msg.MsgID}, At: c.at, Env: Env{Mode: "n"}}
	}),
	amut("data-too-big", func(c *mctx) *Mutated {
		return &Mutated{Msg: &spectypes.SSVMessage{MsgType: c.msg.MsgType, MsgID: c.msg.MsgID, Data: make([]byte, 8388609)}, At: c.at, Env: Env{Mode: "n"}}
	}),
	amut("data-truncated", func(c *mctx) *Mutated {
		return &Mutated{Msg: &spectypes.SSVMessage{MsgType: c.msg.MsgType, MsgID: c.msg.MsgID, Data: c.msg.Data[:len(c.msg.Data)/2]}, At: c.at, Env: Env{Mode: "n"}}
	}),
	amut("ssv-type-swapped", func(c *mctx) *Mutated {
		return &Mutated{Msg: &spectypes.SSVMessage{MsgType: 1 - c.msg.MsgType, MsgID: c.msg.MsgID, Data: c.msg.Data}, At: c.at, Env: Env{Mode: "n"}}
	}),
	amut("ssv-type-dkg", func(c *mctx) *Mutated {
		return &Mutated{Msg: &spectypes.SSVMessage{MsgType: spectypes.DKGMsgType, MsgID: c.msg.MsgID, Data: c.msg.Data}, At: c.at, Env: Env{Mode: "n"}}
	}),
	amut("ssv-type-3", func(c *mctx) *Mutated {
		return &Mutated{Msg: &spectypes.SSVMessage{MsgType: 3, MsgID: c.msg.MsgID, Data: c.msg.Data}, At: c.at, Env: Env{Mode: "n"}}
	}),
	amut("ssv-type-event", func(c *mctx) *Mutated {
		return &Mutated{Msg: &spectypes.SSVMessage{MsgType: 200, MsgID: c.msg.MsgID, Data: []byte(`{"Type":0,"Data":"e30="}`)}, At: c.at, Env: Env{Mode: "n"}}
	}),
	// ---- receive time
	amut("received-two-slots-early", func(c *mctx) *Mutated {
		return &Mutated{Msg: c.msg, At: c.w.SlotStart(c.t.Slot - 2).Add(time.Second), Env: Env{Mode: "n"}}
	}),
	amut("received-previous-slot", func(c *mctx) *Mutated {
		return &Mutated{Msg: c.msg, At: c.w.SlotStart(c.t.Slot).Add(-time.Millisecond), Env: Env{Mode: "n"}}
	}),
	amut("received-after-ttl", func(c *mctx) *Mutated {
		return &Mutated{Msg: c.msg, At: c.w.SlotStart(c.t.Slot + ttlSlots(c.role) + 1).Add(4 * time.Second), Env: Env{Mode: "n"}}
	}),
	amut("received-at-ttl-edge", func(c *mctx) *Mutated {
		return &Mutated{Msg: c.msg, At: c.w.SlotStart(c.t.Slot + ttlSlots(c.role)).Add(11 * time.Second), Env: Env{Mode: "n"}}
	}),
	amut("received-before-genesis", func(c *mctx) *Mutated {
		return &Mutated{Msg: c.msg, At: time.Unix(1000, 5), Env: Env{Mode: "n"}}
	}),
	amut("received-year-2200", func(c *mctx) *Mutated {
		return &Mutated{Msg: c.msg, At: time.Unix(7258118400, 999999999), Env: Env{Mode: "n"}}
	}),
	// ---- operator envelope
	amut("envelope-valid", func(c *mctx) *Mutated { return &Mutated{Msg: c.msg, At: c.at, Env: Env{Mode: "v", Op: 1}} }),
	amut("envelope-other-operator", func(c *mctx) *Mutated { return &Mutated{Msg: c.msg, At: c.at, Env: Env{Mode: "v", Op: 9}} }),
	amut("envelope-unknown-operator", func(c *mctx) *Mutated { return &Mutated{Msg: c.msg, At: c.at, Env: Env{Mode: "f", Op: 1}} }),
	amut("envelope-bad-signature", func(c *mctx) *Mutated { return &Mutated{Msg: c.msg, At: c.at, Env: Env{Mode: "i", Op: 1}} }),
	// ---- partial signature messages
	pmut("partial-type-6", func(c *mctx, m *spectypes.SignedPartialSignatureMessage) bool { m.Message.Type = 6; return true }),
	pmut("partial-type-maxu64", func(c *mctx, m *spectypes.SignedPartialSignatureMessage) bool {
		m.Message.Type = 1<<64 - 1
		return true
	}),
	pmut("partial-type-role-mismatch", func(c *mctx, m *spectypes.SignedPartialSignatureMessage) bool {
		if m.Message.Type == spectypes.VoluntaryExitPartialSig {
			m.Message.Type = spectypes.RandaoPartialSig
		} else {
			m.Message.Type = spectypes.VoluntaryExitPartialSig
		}
		return true
	}),
	pmut("partial-signer-0", func(c *mctx, m *spectypes.SignedPartialSignatureMessage) bool {
		m.Signer = 0
		for _, x := range m.Message.Messages {
			x.Signer = 0
		}
		return true
	}),
	pmut("partial-signer-non-member", func(c *mctx, m *spectypes.SignedPartialSignatureMessage) bool {
		m.Signer = 99
		for _, x := range m.Message.Messages {
			x.Signer = 99
		}
		return true
	}),
	pmut("partial-no-messages", func(c *mctx, m *spectypes.SignedPartialSignatureMessage) bool { m.Message.Messages = nil; return true }),
	pmut("partial-duplicated-root", func(c *mctx, m *spectypes.SignedPartialSignatureMessage) bool {
		m.Message.Messages = append(m.Message.Messages, m.Message.Messages[0])
		return true
	}),
	pmut("partial-inner-signer-mismatch", func(c *mctx, m *spectypes.SignedPartialSignatureMessage) bool {
		m.Message.Messages[len(m.Message.Messages)-1].Signer = otherMember(c.w.N, m.Signer)
		return true
	}),
	pmut("partial-zero-inner-signature", func(c *mctx, m *spectypes.SignedPartialSignatureMessage) bool {
		m.Message.Messages[0].PartialSignature = zero96
		return true
	}),
	pmut("partial-zero-signature", func(c *mctx, m *spectypes.SignedPartialSignatureMessage) bool { m.Signature = zero96; return true }),
	pmut("partial-slot+1", func(c *mctx, m *spectypes.SignedPartialSignatureMessage) bool { m.Message.Slot++; return true }),
	pmut("partial-slot+1000000", func(c *mctx, m *spectypes.SignedPartialSignatureMessage) bool { m.Message.Slot += 1000000; return true }),
	pmut("partial-slot+2^62", func(c *mctx, m *spectypes.SignedPartialSignatureMessage) bool { m.Message.Slot += 1 << 62; return true }),
	pmut("partial-slot-maxu64", func(c *mctx, m *spectypes.SignedPartialSignatureMessage) bool {
		m.Message.Slot = 1<<64 - 1
		return true
	}),
	pmut("partial-slot-expired", func(c *mctx, m *spectypes.SignedPartialSignatureMessage) bool {
		m.Message.Slot -= phase0.Slot(ttlSlots(c.role) + 40)
		return true
	}),
	pmut("partial-13-messages", func(c *mctx, m *spectypes.SignedPartialSignatureMessage) bool {
		base := m.Message.Messages[0]
		m.Message.Messages = nil
		for i := 0; i < 13; i++ {
			x := *base
			x.SigningRoot[0] = byte(i + 1)
			m.Message.Messages = append(m.Message.Messages, &x)
		}
		return true
	}),
}

// applicable decodes the honest message and returns the mutation context.
func newMctx(t *Trace, k int, r *hx.Rng) *mctx {
	h := t.Msgs[k]
	c := &mctx{w: t.W, t: t, k: k, msg: h.Msg, at: t.Time(k), r: r, role: h.Msg.MsgID.GetRoleType()}
	switch h.Msg.MsgType {
	case spectypes.SSVConsensusMsgType:
		c.qm = &specqbft.SignedMessage{}
		if err := c.qm.Decode(h.Msg.Data); err != nil {
			panic(err)
		}
	case spectypes.SSVPartialSignatureMsgType:
		c.pm = &spectypes.SignedPartialSignatureMessage{}
		if err := c.pm.Decode(h.Msg.Data); err != nil {
			panic(err)
		}
	}
	return c
}

func (m Mut) applies(c *mctx) bool {
	return m.On == "*" || (m.On == "q" && c.qm != nil) || (m.On == "p" && c.pm != nil)
}
