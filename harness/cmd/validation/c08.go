package main

// C08: (a) structurally valid messages with extreme field values after histories of accepted messages;
// (b) the arithmetic kernels directly; (c) a malformed BYTE stream through ValidatePubsubMessage and the decoders
// (oracle only: recovered panic, per-call timeout, allocation ceiling).

import (
	"context"
	"encoding/base64"
	"encoding/hex"
	"encoding/json"
	"fmt"
	"math"
	"runtime"
	"runtime/debug"
	"strings"
	"time"

	"github.com/attestantio/go-eth2-client/spec/phase0"
	specqbft "github.com/bloxapp/ssv-spec/qbft"
	spectypes "github.com/bloxapp/ssv-spec/types"
	tu "github.com/bloxapp/ssv-spec/types/testingutils"
	"github.com/herumi/bls-eth-go-binary/bls"
	pubsub "github.com/libp2p/go-libp2p-pubsub"
	pspb "github.com/libp2p/go-libp2p-pubsub/pb"
	"github.com/libp2p/go-libp2p/core/crypto"
	"github.com/libp2p/go-libp2p/core/peer"
	"github.com/libp2p/go-libp2p/core/record"

	"github.com/bloxapp/ssv/message/validation"
	"github.com/bloxapp/ssv/network/commons"
	"github.com/bloxapp/ssv/network/peers"
	"github.com/bloxapp/ssv/network/records"
	"github.com/bloxapp/ssv/protocol/v2/ssv/queue"
	"github.com/bloxapp/ssv/zz_verif/lib/hx"
)

func unhex(s string) []byte {
	if s == "-" || s == "" {
		return nil
	}
	b, err := hex.DecodeString(s)
	if err != nil {
		return nil
	}
	return b
}

func topicsOf(m *spectypes.SSVMessage) []string {
	ts := commons.ValidatorTopicID(m.GetID().GetPubKey())
	out := make([]string, len(ts))
	for i, t := range ts {
		out[i] = commons.GetTopicFullName(t)
	}
	return out
}

func otherTopic(t string) string {
	for i := 0; i < 128; i++ {
		if o := commons.GetTopicFullName(commons.SubnetTopicID(i)); o != t {
			return o
		}
	}
	return t + "x"
}

var extremeU64 = []uint64{0, 1, 2, 3, 5, 6, 7, 12, 13, 31, 32, 1 << 31, 1<<32 - 1, 1 << 32, 1 << 62, 1<<63 - 1, 1 << 63, 1<<64 - 2, 1<<64 - 1}

func pickU(r *hx.Rng, near uint64) uint64 {
	switch r.Intn(6) {
	case 0:
		return near
	case 1:
		return near + uint64(r.Intn(5)) - 2
	case 2:
		return near + 1<<62
	default:
		return extremeU64[r.Intn(len(extremeU64))]
	}
}

func extremeSigners(r *hx.Rng, n int, leader uint64) []uint64 {
	switch r.Intn(14) {
	case 0:
		return nil
	case 1:
		return []uint64{leader}
	case 2:
		return []uint64{0}
	case 3:
		return []uint64{99}
	case 4:
		return []uint64{1, 2, 3}
	case 5:
		s := []uint64{}
		for i := 1; i <= n; i++ {
			s = append(s, uint64(i))
		}
		return s
	case 6:
		s := []uint64{}
		for i := 1; i <= 13; i++ {
			s = append(s, uint64(i))
		}
		return s
	case 7:
		return []uint64{2, 2}
	case 8:
		return []uint64{3, 1, 2}
	case 9:
		return []uint64{1<<64 - 1}
	case 10:
		return []uint64{0, 0, 0}
	case 11:
		s := []uint64{}
		for i := 0; i < r.Intn(14); i++ {
			s = append(s, extremeU64[r.Intn(len(extremeU64))])
		}
		return s
	default:
		return []uint64{uint64(1 + r.Intn(n))}
	}
}

func extremeTimes(w *World, slot uint64, r *hx.Rng) time.Time {
	switch r.Intn(16) {
	case 0:
		return time.Unix(0, 0)
	case 1:
		return time.Unix(-100000, 999999999)
	case 2:
		return time.Unix(7258118400, 1)
	case 3:
		return time.Unix(1<<40, 0)
	case 4:
		return time.Unix(1<<62, 5)
	case 5:
		return time.Unix(math.MaxInt64, 0)
	case 6:
		return time.Unix(math.MinInt64, 0)
	case 7:
		return time.Unix(int64(w.NetCfg.Beacon.MinGenesisTime())-1, 0)
	case 8:
		return time.Unix(int64(w.NetCfg.Beacon.MinGenesisTime()), 0)
	case 9:
		return time.Unix(math.MaxInt64-62135596800, 999999999)
	default:
		return w.SlotStart(slot).Add(time.Duration(r.Intn(20000)) * time.Millisecond)
	}
}

func genJust(r *hx.Rng, w *World) [][]byte {
	switch r.Intn(8) {
	case 0:
		return [][]byte{{1, 2, 3}}
	case 1:
		j, _ := specqbft.MarshalJustifications([]*specqbft.SignedMessage{tu.TestingPrepareMessage(w.KS.Shares[1], 1), tu.TestingPrepareMessage(w.KS.Shares[2], 2), tu.TestingPrepareMessage(w.KS.Shares[3], 3)})
		return j
	case 2:
		j, _ := specqbft.MarshalJustifications([]*specqbft.SignedMessage{tu.TestingRoundChangeMessage(w.KS.Shares[1], 1), tu.TestingRoundChangeMessage(w.KS.Shares[2], 2), tu.TestingRoundChangeMessage(w.KS.Shares[3], 3)})
		return j
	case 3:
		var out [][]byte
		for i := 0; i < 13; i++ {
			out = append(out, r.Bytes(r.Intn(40)))
		}
		return out
	case 4:
		return [][]byte{{}}
	default:
		return nil
	}
}

func extremeConsensus(w *World, r *hx.Rng, slot uint64) *spectypes.SSVMessage {
	n := w.N
	h := pickU(r, slot)
	rd := extremeU64[r.Intn(len(extremeU64))]
	if r.Chance(30) {
		rd = uint64(1 + r.Intn(3))
	}
	leader := uint64(1)
	if h < 1<<62 && rd >= 1 && rd < 1<<31 {
		leader = uint64((h+rd-1)%uint64(n)) + 1
	}
	mt := []uint64{0, 0, 0, 1, 2, 2, 3, 3, 4, 5, 1 << 32, 1 << 63, 1<<64 - 1}[r.Intn(13)]
	full := []byte(nil)
	root := [32]byte{}
	copy(root[:], r.Bytes(32))
	switch r.Intn(5) {
	case 0:
		full = r.Bytes(1 + r.Intn(64))
		root, _ = specqbft.HashDataRoot(full)
	case 1:
		full = r.Bytes(1 + r.Intn(64))
	case 2:
		full = make([]byte, 100000)
		root, _ = specqbft.HashDataRoot(full)
	}
	sig := r.Bytes(96)
	if r.Chance(8) {
		sig = zero96
	}
	ident := r.Bytes([]int{0, 4, 56}[r.Intn(3)])
	m := &specqbft.SignedMessage{
		Signature: sig,
		Signers:   extremeSigners(r, n, leader),
		Message: specqbft.Message{MsgType: specqbft.MessageType(mt), Height: specqbft.Height(h), Round: specqbft.Round(rd), Identifier: ident,
			Root: root, DataRound: specqbft.Round(extremeU64[r.Intn(len(extremeU64))]), RoundChangeJustification: genJust(r, w), PrepareJustification: genJust(r, w)},
		FullData: full,
	}
	enc, err := m.Encode()
	if err != nil {
		return nil
	}
	return extremeEnvelope(w, r, spectypes.SSVConsensusMsgType, enc)
}

func extremePartial(w *World, r *hx.Rng, slot uint64) *spectypes.SSVMessage {
	signer := extremeSigners(r, w.N, 1)
	sg := uint64(1 + r.Intn(w.N))
	if len(signer) > 0 && r.Chance(40) {
		sg = signer[0]
	}
	m := &spectypes.SignedPartialSignatureMessage{Signature: r.Bytes(96), Signer: sg}
	if r.Chance(8) {
		m.Signature = zero96
	}
	m.Message.Type = spectypes.PartialSigMsgType([]uint64{0, 0, 1, 2, 3, 4, 5, 6, 7, 1 << 32, 1 << 63, 1<<64 - 1}[r.Intn(12)])
	m.Message.Slot = phase0.Slot(pickU(r, slot))
	k := []int{0, 1, 1, 1, 2, 4, 13}[r.Intn(7)]
	for i := 0; i < k; i++ {
		it := &spectypes.PartialSignatureMessage{PartialSignature: r.Bytes(96), Signer: sg}
		copy(it.SigningRoot[:], r.Bytes(32))
		if r.Chance(15) && i > 0 {
			it.SigningRoot = m.Message.Messages[0].SigningRoot
		}
		if r.Chance(10) {
			it.Signer = extremeU64[r.Intn(len(extremeU64))]
		}
		if r.Chance(8) {
			it.PartialSignature = zero96
		}
		m.Message.Messages = append(m.Message.Messages, it)
	}
	enc, err := m.Encode()
	if err != nil {
		return nil
	}
	return extremeEnvelope(w, r, spectypes.SSVPartialSignatureMsgType, enc)
}

func extremeEnvelope(w *World, r *hx.Rng, mt spectypes.MsgType, data []byte) *spectypes.SSVMessage {
	role := spectypes.BeaconRole([]uint64{0, 1, 2, 3, 4, 5, 6, 0, 2, 7, 8, 1 << 31, 1<<32 - 1}[r.Intn(13)])
	flav := vMain
	if r.Chance(25) {
		flav = r.Intn(vCount)
	}
	msg := ssvOf(w, flav, role, mt, data)
	switch r.Intn(20) {
	case 0:
		msg.MsgID = spectypes.NewMsgID(w.NetCfg.Domain, tu.Testing13SharesSet().Shares[12].GetPublicKey().Serialize(), role)
	case 1:
		msg.MsgID = spectypes.NewMsgID(w.NetCfg.Domain, r.Bytes(48), role)
	case 2:
		msg.MsgID = spectypes.NewMsgID(spectypes.DomainType{1, 2, 3, 4}, w.PKs[flav], role)
	case 3:
		msg.MsgType = spectypes.MsgType([]uint64{2, 3, 200, 1 << 63, 1<<64 - 1}[r.Intn(5)])
	case 4:
		msg.MsgType = 1 - mt
	}
	return msg
}

type p2pLater struct {
	enc   []byte
	topic string
	at    time.Time
	kind  string
}

func genC08(run *hx.Run, r *hx.Rng) {
	nStruct := run.N * 6 / 10
	for i := 0; i < nStruct; i++ {
		t := pickTrace(run, r, i)
		w := t.W
		c := NewCase(run, w, false, "c08/"+t.Name)
		k := 0
		if len(t.Msgs) > 0 && r.Chance(70) {
			k = r.Intn(len(t.Msgs))
		}
		runPrefix(c, t, k)
		var later []p2pLater
		for j := 0; j < 4; j++ {
			var msg *spectypes.SSVMessage
			kind := "extreme-consensus"
			if r.Chance(30) {
				msg, kind = extremePartial(w, r, t.Slot), "extreme-partial"
			} else {
				msg = extremeConsensus(w, r, t.Slot)
			}
			if msg == nil {
				run.Tag("extreme-not-encodable")
				continue
			}
			at := extremeTimes(w, t.Slot, r)
			env := Env{Mode: "n"}
			if r.Chance(15) {
				env = Env{Mode: []string{"v", "f", "i"}[r.Intn(3)], Op: uint64(1 + r.Intn(4))}
				if r.Chance(20) {
					env = Env{Mode: "w", Op: uint64(weirdOpFirst + r.Intn(weirdOpLast-weirdOpFirst+1))}
				}
			}
			if r.Chance(15) {
				// through the pubsub entry point (its own case, after this one)
				if enc, err := msg.Encode(); err == nil {
					later = append(later, p2pLater{enc, topicsOf(msg)[0], at, kind + "-p2p"})
					continue
				}
			}
			c.ValidateSSV(msg, at, env, kind)
		}
		if k < len(t.Msgs) {
			c.ValidateSSV(t.Msgs[k].Msg, t.Time(k), Env{Mode: "n"}, "suffix")
		}
		for _, l := range later {
			signed := r.Chance(50)
			c2 := NewCase(run, w, signed, "c08-p2p")
			data := l.enc
			if signed {
				data, _, _ = c2.envelope(l.enc, Env{Mode: "v", Op: 1})
			}
			c2.ValidateP2P(data, l.topic, l.at, l.kind)
		}
	}
	unservedIDStream(run, r)
	weirdOperatorSweep(run, r)
	pubsubWrapperSweep(run, r)
	genKernels(run, r, run.N/10)
	genFuzz(run, r, run.N*3/10)
	genNodeInfoStruct(run, r, run.N/4)
	genRecords(run, r, run.N/2)
	genMsgIDGC(run, r)
	genMetricsStream(run, r)
	hangBlock(run, r) // last: if it deadlocks the validator the harness reports and exits
}

// ---------------------------------------------------------------- refused traffic must leave no per-id state (resource clause)

// unservedIDStream: ONE validator receives a long stream of messages whose ids do not name a validator this node serves —
// mostly distinct, well-formed, unregistered BLS public keys with the right domain and a valid role (the id space an attacker
// can choose from is unbounded), also registered-but-unserved validators (liquidated, no metadata, exited) in every role, a
// foreign domain, invalid roles and malformed keys — carrying honest bodies, through validateSSVMessage and (every 8th) the
// pubsub entry point. Oracle (exec.go perIDState, on the validator's internals through the shim): none of them leaves a
// validation lock or a consensus state behind; interleaved honest traffic for the served validator keeps the per-id maps at
// their bounded size.
func unservedIDStream(run *hx.Run, r *hx.Rng) {
	n := 120
	if run.Tier == "thorough" {
		n = 3000
	}
	t := pickTrace(run, r, 0)
	if len(t.Msgs) == 0 {
		return
	}
	w := t.W
	c := NewCase(run, w, false, "c08/unserved-id-stream")
	l0, i0 := validation.VerifPerIDStateSizes(c.MV)
	served := 0
	for i := 0; i < n; i++ {
		k := r.Intn(len(t.Msgs))
		body := t.Msgs[k].Msg
		role := spectypes.BeaconRole(r.Intn(7))
		dom := w.NetCfg.Domain
		var pk []byte
		kind := "unserved-id:unknown-validator"
		switch x := r.Intn(100); {
		case x < 70:
			var sk bls.SecretKey
			if err := sk.SetLittleEndian(r.Bytes(31)); err != nil {
				continue
			}
			pk = sk.GetPublicKey().Serialize()
		case x < 82:
			f := []int{vLiquid, vNoMeta, vExited}[r.Intn(3)]
			pk, kind = w.PKs[f], "unserved-id:"+flavourNames[f]
		case x < 88:
			pk, kind = w.PKs[vMain], "unserved-id:foreign-domain"
			dom = spectypes.DomainType{dom[0], dom[1], dom[2], dom[3] ^ byte(1+r.Intn(255))}
		case x < 93:
			pk, kind = w.PKs[vMain], "unserved-id:invalid-role"
			role = spectypes.BeaconRole(7 + r.Intn(1<<20))
		case x < 97:
			pk, kind = r.Bytes(48), "unserved-id:malformed-key"
		default:
			// honest traffic of the served validator in between: creates (bounded) per-id state, must not disturb the accounting
			c.ValidateSSV(body, t.Time(k), Env{Mode: "n"}, "unserved-id:served-in-between")
			served++
			continue
		}
		msg := &spectypes.SSVMessage{MsgType: body.MsgType, MsgID: spectypes.NewMsgID(dom, pk, role), Data: body.Data}
		if i%8 == 7 {
			if enc, err := msg.Encode(); err == nil {
				c.ValidateP2P(enc, topicsOf(msg)[0], t.Time(k), kind+"-p2p")
				continue
			}
		}
		c.ValidateSSV(msg, t.Time(k), Env{Mode: "n"}, kind)
	}
	l1, i1 := validation.VerifPerIDStateSizes(c.MV)
	run.Extra["unserved_id_stream"] = fmt.Sprintf("%d calls for unserved ids (+%d served in between): validation locks %d -> %d, consensus states %d -> %d", c.refusedCalls, served, l0, l1, i0, i1)
	if c.refusedCalls > 0 && (l1 > 7 || i1 > 7) {
		c.violate("C08/unserved-id-leaves-per-id-state", fmt.Sprintf("after %d calls for ids this node does not serve the validator holds %d validation locks and %d consensus states (one served validator: at most 7 each)", c.refusedCalls, l1, i1))
	}
}

// ---------------------------------------------------------------- arithmetic kernels (direct comparison with the model)

var kernelMV validation.MessageValidator

func kmv() validation.MessageValidator {
	if kernelMV == nil {
		kernelMV = world(4).NewValidator(false)
	}
	return kernelMV
}

func doKernel(run *hx.Run, ws []string) {
	op := strings.Join(ws, " ")
	get := func(k string) uint64 {
		v, _ := kvOf(ws, k)
		var x uint64
		fmt.Sscan(v, &x)
		return x
	}
	obs := "?"
	func() {
		defer func() {
			if p := recover(); p != nil {
				obs = "panic:" + panicSite(p, string(debug.Stack()))
				if ws[1] != "leader" {
					run.Violate("C08/panic-in-kernel:"+ws[1], "kernel "+op+" panicked: "+fmt.Sprint(p), op)
				}
			}
		}()
		switch ws[1] {
		case "est":
			v, _ := kvOf(ws, "d")
			var d int64
			fmt.Sscan(v, &d)
			obs = fmt.Sprint(validation.VerifCurrentEstimatedRound(kmv(), time.Duration(d)))
		case "maxdec":
			obs = fmt.Sprint(validation.VerifMaxDecided(int(get("n"))))
		case "slottime":
			w := world(4)
			at := parseNow(ws)
			w.SetClock(at)
			o, _, _ := Outcome(validation.VerifSlotTime(kmv(), phase0.Slot(get("slot")), spectypes.BeaconRole(get("role")), at), nil, "")
			obs = o
		case "leader":
			n := int(get("n"))
			sh := &spectypes.Share{}
			for i := 1; i <= n; i++ {
				sh.Committee = append(sh.Committee, &spectypes.Operator{OperatorID: uint64(i) * 10})
			}
			obs = fmt.Sprint(specqbft.RoundRobinProposer(&specqbft.State{Share: sh, Height: specqbft.Height(get("h"))}, specqbft.Round(get("r"))))
		}
	}()
	run.Emit(op, obs)
	run.Tag("kernel/" + ws[1])
}

func kernelReplay(run *hx.Run, ws []string) { doKernel(run, ws) }

func genKernels(run *hx.Run, r *hx.Rng, n int) {
	w := world(4)
	for i := 0; i < n; i++ {
		switch r.Intn(4) {
		case 0:
			d := int64(r.U64())
			switch r.Intn(4) {
			case 0:
				d = int64(r.Intn(40)) * int64(time.Second) / 2
			case 1:
				d = int64(16*time.Second) + int64(r.Intn(20))*int64(time.Minute) + int64(r.Intn(3)) - 1
			case 2:
				d = []int64{0, 1, -1, math.MaxInt64, math.MinInt64, int64(2*time.Second) - 1, int64(2 * time.Second), int64(16 * time.Second), int64(16*time.Second) - 1}[r.Intn(9)]
			}
			doKernel(run, []string{"k", "est", fmt.Sprintf("d=%d", d)})
		case 1:
			doKernel(run, []string{"k", "maxdec", fmt.Sprintf("n=%d", r.Intn(15))})
		case 2:
			slot := pickU(r, baseSlot)
			at := extremeTimes(w, baseSlot, r)
			doKernel(run, []string{"k", "slottime", fmt.Sprintf("slot=%d", slot), fmt.Sprintf("role=%d", r.Intn(8)), fmt.Sprintf("now=%d.%09d", at.Unix(), at.Nanosecond())})
		case 3:
			doKernel(run, []string{"k", "leader", fmt.Sprintf("n=%d", []int{1, 4, 7, 10, 13}[r.Intn(5)]), fmt.Sprintf("h=%d", pickU(r, baseSlot)), fmt.Sprintf("r=%d", extremeU64[r.Intn(len(extremeU64))])})
		}
	}
}

// ---------------------------------------------------------------- malformed byte stream (oracle only)

const fuzzTimeout = 20 * time.Second

// guarded runs f under recover, with a timeout and an allocation ceiling.
func guarded(run *hx.Run, target string, input []byte, f func()) {
	op := "f " + target + " " + hx.Hex(input)
	if len(input) > 1<<16 {
		op = fmt.Sprintf("f %s big:%d:%d", target, len(input), checksum(input))
	}
	var ms0, ms1 runtime.MemStats
	runtime.ReadMemStats(&ms0)
	done := make(chan string, 1)
	go func() {
		defer func() {
			if p := recover(); p != nil {
				st := string(debug.Stack())
				done <- "panic:" + fuzzSite(st) + ":" + strings.ReplaceAll(fmt.Sprint(p), " ", "_")
				return
			}
			done <- "ok"
		}()
		f()
	}()
	res := ""
	select {
	case res = <-done:
	case <-time.After(fuzzTimeout):
		res = "timeout"
	}
	runtime.ReadMemStats(&ms1)
	alloc := ms1.TotalAlloc - ms0.TotalAlloc
	run.Emit(op, "fz")
	run.Tag("fuzz/" + target)
	switch {
	case strings.HasPrefix(res, "panic:"):
		parts := strings.SplitN(res, ":", 3)
		run.Violate("C08/panic:"+target+":"+parts[1], "decoder/validator panicked on peer bytes ("+res+")", op)
	case res == "timeout":
		run.Violate("C08/hang:"+target, "no result within "+fuzzTimeout.String(), op)
	case alloc > 64<<20+uint64(len(input))*2048:
		run.Violate("C08/allocation:"+target, fmt.Sprintf("allocated %d bytes for %d input bytes", alloc, len(input)), op)
	}
}

func checksum(b []byte) uint32 {
	var s uint32
	for _, x := range b {
		s = s*31 + uint32(x)
	}
	return s
}

// fuzzSite: first repo/spec function on the panic stack.
func fuzzSite(stack string) string {
	for _, l := range strings.Split(stack, "\n") {
		if strings.HasPrefix(l, "github.com/bloxapp/") && !strings.Contains(l, "zz_verif") {
			f := l
			if i := strings.LastIndex(f, "("); i > 0 {
				f = f[:i]
			}
			return strings.TrimPrefix(strings.TrimPrefix(f, "github.com/bloxapp/ssv/"), "github.com/bloxapp/")
		}
	}
	return "unknown"
}

var fuzzMV validation.MessageValidator
var fuzzPeer peer.ID

func fuzzSetup() {
	if fuzzMV != nil {
		return
	}
	w := world(4)
	fuzzMV = w.NewValidator(true)
	priv, _, err := crypto.GenerateSecp256k1Key(strings.NewReader(strings.Repeat("seed-for-fuzz-peer-id", 10)))
	if err == nil {
		fuzzPeer, _ = peer.IDFromPrivateKey(priv)
	}
}

func runFuzzTarget(run *hx.Run, target string, b []byte) {
	fuzzSetup()
	switch target {
	case "pubsub":
		topic := commons.GetTopicFullName(commons.SubnetTopicID(int(checksum(b) % 128)))
		guarded(run, target, b, func() {
			world(4).SetClock(world(4).SlotStart(baseSlot))
			pm := &pubsub.Message{Message: &pspb.Message{Data: b, Topic: &topic}}
			_ = fuzzMV.ValidatePubsubMessage(context.Background(), fuzzPeer, pm)
		})
	case "signed":
		guarded(run, target, b, func() { _, _, _, _ = commons.DecodeSignedSSVMessage(b) })
	case "net":
		guarded(run, target, b, func() { _, _ = commons.DecodeNetworkMsg(b) })
	case "queue":
		guarded(run, target, b, func() {
			if m, err := commons.DecodeNetworkMsg(b); err == nil && m != nil {
				_, _ = queue.DecodeSSVMessage(m)
			}
			for _, mt := range []spectypes.MsgType{0, 1, 200} {
				_, _ = queue.DecodeSSVMessage(&spectypes.SSVMessage{MsgType: mt, Data: b})
			}
		})
	case "nodeinfo":
		guarded(run, target, b, func() {
			_ = (&records.SignedNodeInfo{}).UnmarshalRecord(b)
			_ = (&records.NodeInfo{}).UnmarshalRecord(b)
			_ = (&records.SignedNodeInfo{}).Consume(b)
			_ = (&records.NodeInfo{}).Consume(b)
		})
	case "pubsub-full":
		guarded(run, target, b, func() { pubsubFullTarget(b) })
	case "enr-record":
		guarded(run, target, b, func() { enrRecordTarget(b) })
	case "subnets":
		guarded(run, target, b, func() { _, _ = records.Subnets{}.FromString(string(b)) })
	case "subnets-use":
		// the decoded handshake subnets as the connection handler uses them (records.SharedSubnets / DiffSubnets)
		guarded(run, target, b, func() {
			s, err := records.Subnets{}.FromString(string(b))
			if err != nil {
				return
			}
			all, _ := records.Subnets{}.FromString(records.AllSubnets)
			mine := make(records.Subnets, 128) // a node that is subscribed to subnet 100 only
			mine[100] = 1
			_ = records.DiffSubnets(all, s)
			_ = records.DiffSubnets(s, all)
			_ = records.SharedSubnets(all, s, 1)        // network/peers/connections/conn_handler.go sharesEnoughSubnets(mySubnets, peerSubnets, 1)
			_ = records.SharedSubnets(mine, s, 1)       // the same for a node with few subnets
			_ = records.SharedSubnets(s, all, len(all)) // network/peers/conn_manager.go (peerSubnets, mySubnets, len(mySubnets))
			if len(s) != 0 {
				_ = peers.VerifScorePeer(s, all) // network/peers/conn_manager.go getBestPeers -> scorePeer(peerSubnets, scores)
			}
		})
	}
}

// ---- structured node records: JSON `{"Entries":[…]}` of every small length with valid / invalid / empty / nested entries,
// also sealed in a VALID libp2p record envelope (a peer can seal any payload under the node-info domain and codec)

type rawRecord struct {
	payload []byte
	signed  bool
}

func (r *rawRecord) Domain() string { return (&records.NodeInfo{}).Domain() }
func (r *rawRecord) Codec() []byte {
	if r.signed {
		return (&records.SignedNodeInfo{NodeInfo: &records.NodeInfo{}}).Codec()
	}
	return (&records.NodeInfo{}).Codec()
}
func (r *rawRecord) MarshalRecord() ([]byte, error) { return r.payload, nil }
func (r *rawRecord) UnmarshalRecord(b []byte) error { r.payload = b; return nil }

var sealKey crypto.PrivKey

func sealRaw(payload []byte, signed bool) []byte {
	if sealKey == nil {
		k, _, err := crypto.GenerateSecp256k1Key(strings.NewReader(strings.Repeat("seal-key-of-a-malicious-peer", 10)))
		if err != nil {
			return nil
		}
		sealKey = k
	}
	ev, err := record.Seal(&rawRecord{payload: payload, signed: signed}, sealKey)
	if err != nil {
		return nil
	}
	b, err := ev.Marshal()
	if err != nil {
		return nil
	}
	return b
}

func nodeInfoStructTarget(run *hx.Run, b []byte) {
	guarded(run, "nodeinfo-struct", b, func() {
		_ = (&records.NodeInfo{}).UnmarshalRecord(b)
		_ = (&records.SignedNodeInfo{}).UnmarshalRecord(b)
		_ = (&records.NodeMetadata{}).Decode(b)
		if s := sealRaw(b, false); s != nil {
			_ = (&records.NodeInfo{}).Consume(s)
		}
		if s := sealRaw(b, true); s != nil {
			_ = (&records.SignedNodeInfo{}).Consume(s)
		}
	})
}

func jsonEntries(es []string) []byte {
	b, _ := json.Marshal(map[string][]string{"Entries": es})
	return b
}

func genEntry(r *hx.Rng, depth int) string {
	switch r.Intn(12) {
	case 0:
		return ""
	case 1:
		return "x"
	case 2:
		return base64.StdEncoding.EncodeToString(r.Bytes(r.Intn(40)))
	case 3:
		return "!!not-base64!!"
	case 4:
		return fmt.Sprint(int64(r.U64()))
	case 5:
		return "99999999999999999999999999"
	case 6:
		return `{"NodeVersion":"v","ExecutionNode":"e","ConsensusNode":"c","Subnets":"` + []string{records.AllSubnets, "ff", "", "zz"}[r.Intn(4)] + `"}`
	case 7:
		return `{"NodeVersion":1}`
	case 8:
		return "{"
	case 9, 10:
		if depth < 2 {
			n := r.Intn(5)
			es := make([]string, n)
			for i := range es {
				es[i] = genEntry(r, depth+1)
			}
			return string(jsonEntries(es))
		}
		return "{}"
	default:
		return "verif"
	}
}

func genNodeInfoStruct(run *hx.Run, r *hx.Rng, n int) {
	// exhaustive small shapes first: every length 0..8 with a few uniform fillings
	for l := 0; l <= 8; l++ {
		for _, fill := range []string{"{}", "", "x", "AAAA", "1", `{"Entries":["x"]}`, `{"Entries":["","n"]}`} {
			es := make([]string, l)
			for i := range es {
				es[i] = fill
			}
			nodeInfoStructTarget(run, jsonEntries(es))
		}
	}
	for _, raw := range []string{`{}`, `{"Entries":null}`, `{"Entries":{}}`, `{"Entries":3}`, `null`, `[]`, `{"Entries":[1,2]}`, `{"Entries":[null]}`, `{"entries":["a","b","c"]}`} {
		nodeInfoStructTarget(run, []byte(raw))
	}
	for i := 0; i < n; i++ {
		l := r.Intn(9)
		es := make([]string, l)
		for j := range es {
			es[j] = genEntry(r, 0)
		}
		if r.Chance(40) && l >= 6 {
			// a mostly valid signed record: peer ids, timestamp, key, signature, embedded node info
			es[0] = base64.StdEncoding.EncodeToString([]byte("sender"))
			es[1] = base64.StdEncoding.EncodeToString([]byte("recipient"))
			es[2] = "1700000000"
			es[4] = base64.StdEncoding.EncodeToString([]byte{1, 2, 3})
			inner := make([]string, r.Intn(5))
			for j := range inner {
				inner[j] = genEntry(r, 1)
			}
			es[5] = string(jsonEntries(inner))
		}
		b := jsonEntries(es)
		if r.Chance(15) && len(b) > 2 {
			b = b[:r.Intn(len(b))] // valid prefix, truncated
		}
		nodeInfoStructTarget(run, b)
	}
}

func fuzzReplay(run *hx.Run, ws []string) {
	if len(ws) < 3 {
		return
	}
	if strings.HasPrefix(ws[2], "big:") {
		run.Emit(strings.Join(ws, " "), "fz")
		return
	}
	if ws[1] == "nodeinfo-struct" {
		fuzzSetup()
		nodeInfoStructTarget(run, unhex(ws[2]))
		return
	}
	runFuzzTarget(run, ws[1], unhex(ws[2]))
}

// seeds: real encodings produced by the real encoders
func fuzzSeeds(run *hx.Run, r *hx.Rng) map[string][][]byte {
	seeds := map[string][][]byte{}
	w := world(4)
	c := &Case{run: run, W: w}
	for i := 0; i < 6; i++ {
		t := pickTrace(run, r, i)
		if t.W.N != 4 {
			continue
		}
		for j := 0; j < len(t.Msgs); j += 1 + r.Intn(3) {
			enc, err := t.Msgs[j].Msg.Encode()
			if err != nil {
				continue
			}
			signed, _, _ := c.envelope(enc, Env{Mode: "v", Op: 1})
			seeds["net"] = append(seeds["net"], enc)
			seeds["queue"] = append(seeds["queue"], enc, t.Msgs[j].Msg.Data)
			seeds["signed"] = append(seeds["signed"], signed)
			seeds["pubsub"] = append(seeds["pubsub"], signed, enc)
		}
	}
	ni := &records.NodeInfo{NetworkID: "verif", Metadata: &records.NodeMetadata{NodeVersion: "v1", ExecutionNode: "geth", ConsensusNode: "x", Subnets: records.AllSubnets}}
	if raw, err := ni.MarshalRecord(); err == nil {
		seeds["nodeinfo"] = append(seeds["nodeinfo"], raw)
	}
	sni := &records.SignedNodeInfo{NodeInfo: ni, HandshakeData: records.HandshakeData{SenderPeerID: fuzzPeer, RecipientPeerID: fuzzPeer, Timestamp: time.Unix(1700000000, 0), SenderPublicKey: []byte("pk")}, Signature: []byte{1, 2, 3}}
	if raw, err := sni.MarshalRecord(); err == nil {
		seeds["nodeinfo"] = append(seeds["nodeinfo"], raw)
	}
	if priv, _, err := crypto.GenerateSecp256k1Key(strings.NewReader(strings.Repeat("another-seed-for-records", 10))); err == nil {
		if sealed, err := ni.Seal(priv); err == nil {
			seeds["nodeinfo"] = append(seeds["nodeinfo"], sealed)
		}
		if sealed, err := sni.Seal(priv); err == nil {
			seeds["nodeinfo"] = append(seeds["nodeinfo"], sealed)
		}
	}
	for _, s := range []string{records.AllSubnets, records.ZeroSubnets, "0x" + records.AllSubnets, "ff", "00", "f", "", "0x", "zz", "ffffffffffffffffffffffffffffffff00"} {
		seeds["subnets"] = append(seeds["subnets"], []byte(s))
		seeds["subnets-use"] = append(seeds["subnets-use"], []byte(s))
	}
	return seeds
}

func mutateBytes(r *hx.Rng, b []byte) []byte {
	o := append([]byte{}, b...)
	switch r.Intn(9) {
	case 0: // truncation
		if len(o) > 0 {
			o = o[:r.Intn(len(o))]
		}
	case 1: // bit flips
		for k := 0; k < 1+r.Intn(4) && len(o) > 0; k++ {
			o[r.Intn(len(o))] ^= 1 << uint(r.Intn(8))
		}
	case 2: // length / offset field edit: a 4-byte little-endian word set to an extreme value
		if len(o) >= 4 {
			p := r.Intn(len(o)-3) &^ 3
			v := []uint32{0, 1, 4, uint32(len(o)), uint32(len(o)) + 1, uint32(len(o)) - 1, 0x7fffffff, 0x80000000, 0xffffffff, 0xfffffffc}[r.Intn(10)]
			o[p], o[p+1], o[p+2], o[p+3] = byte(v), byte(v>>8), byte(v>>16), byte(v>>24)
		}
	case 3: // the same edit on one of the first words (the SSZ offset table)
		if len(o) >= 16 {
			p := 4 * r.Intn(hx.Min(len(o)/4, 80))
			v := []uint32{0, 4, uint32(len(o)), uint32(len(o)) + 1, 0xffffffff, 0x80000000}[r.Intn(6)]
			o[p], o[p+1], o[p+2], o[p+3] = byte(v), byte(v>>8), byte(v>>16), byte(v>>24)
		}
	case 4: // append garbage
		o = append(o, r.Bytes(1+r.Intn(64))...)
	case 5: // splice two halves
		if len(o) > 8 {
			p, q := r.Intn(len(o)), r.Intn(len(o))
			o = append(append([]byte{}, o[:p]...), o[q:]...)
		}
	case 6: // random bytes of the same length
		o = r.Bytes(len(o))
	case 7: // duplicate a chunk
		if len(o) > 8 {
			p := r.Intn(len(o) - 4)
			o = append(o[:p], append(append([]byte{}, o[p:p+4]...), o[p:]...)...)
		}
	}
	return o
}

func genFuzz(run *hx.Run, r *hx.Rng, n int) {
	fuzzSetup()
	seeds := fuzzSeeds(run, r)
	targets := []string{"pubsub", "signed", "net", "queue", "nodeinfo", "subnets", "subnets-use", "enr-record"}
	seeds["enr-record"] = enrSeeds(r)
	targets = append(targets, "pubsub-full")
	for _, b := range seeds["net"] {
		seeds["pubsub-full"] = append(seeds["pubsub-full"], append([]byte{0}, b...))
	}
	for _, b := range seeds["signed"] {
		seeds["pubsub-full"] = append(seeds["pubsub-full"], append([]byte{1}, b...))
	}
	for i := 0; i < n; i++ {
		tg := targets[r.Intn(len(targets))]
		var b []byte
		ss := seeds[tg]
		switch {
		case r.Chance(10) || len(ss) == 0:
			b = r.Bytes([]int{0, 1, 3, 8, 63, 264, 265, 300, 1000, 5000}[r.Intn(10)])
		case r.Chance(2):
			b = make([]byte, 1<<20) // large all-zero input
		default:
			b = mutateBytes(r, ss[r.Intn(len(ss))])
			if r.Chance(20) {
				b = mutateBytes(r, b)
			}
		}
		if tg == "subnets" || tg == "subnets-use" {
			if r.Chance(50) {
				const hexd = "0123456789abcdefABCDEFxg"
				b = make([]byte, r.Intn(70))
				for j := range b {
					b[j] = hexd[r.Intn(len(hexd))]
				}
			}
		}
		runFuzzTarget(run, tg, b)
	}
}
