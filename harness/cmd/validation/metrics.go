package main

// C08 resource clause, metrics: the message validator labels Prometheus vectors with values taken from peers' messages BEFORE
// the messages are checked (round, QBFT / SSV message type, number of signers). A vector keeps one series per distinct label
// combination for ever. Oracle on the REAL metrics reporter (shim metricsreporter.VerifValidationSeries): a stream of refused /
// ignored messages for a served validator with many distinct rounds, type values and signer counts, through the real
// ValidatePubsubMessage, may grow the vectors only by a constant.
//
//	ms n=<count> seed=<s>       (model: "ok"; replay re-runs the same stream)

import (
	"fmt"
	"sort"

	specqbft "github.com/bloxapp/ssv-spec/qbft"
	spectypes "github.com/bloxapp/ssv-spec/types"
	tu "github.com/bloxapp/ssv-spec/types/testingutils"

	"github.com/bloxapp/ssv/monitoring/metricsreporter"
	"github.com/bloxapp/ssv/network/commons"
	"github.com/bloxapp/ssv/zz_verif/lib/hx"
)

// every legitimate label combination: results x reasons x roles x rounds 0..16/other, types, signer counts — a constant
const metricsGrowthBound = 90

func metricsStream(run *hx.Run, n int, seed uint64) {
	fuzzSetup()
	op := fmt.Sprintf("ms n=%d seed=%d", n, seed)
	r := hx.NewRng(seed)
	w := world(4)
	ks := w.KS
	fullValidators()
	send := func(msg *spectypes.SSVMessage) {
		if enc, err := commons.EncodeNetworkMsg(msg); err == nil {
			pubsubFullTarget(append([]byte{0}, enc...))
		}
	}
	// warm-up: the legitimate label values (does not count as growth)
	for rd := uint64(0); rd <= 17; rd++ {
		m := tu.TestingPrepareMessageWithParams(ks.Shares[1], 1, specqbft.Round(rd), specqbft.Height(baseSlot), []byte{1, 2, 3, 4}, tu.TestingQBFTRootData)
		m.FullData = nil
		send(kitSSV(w, spectypes.BNRoleAttester, m))
	}
	before := metricsreporter.VerifValidationSeries()
	for i := 0; i < n; i++ {
		signer := spectypes.OperatorID(1 + r.Intn(4))
		m := tu.TestingPrepareMessageWithParams(ks.Shares[signer], signer, 1, specqbft.Height(baseSlot), []byte{1, 2, 3, 4}, tu.TestingQBFTRootData)
		m.FullData = nil
		role := spectypes.BNRoleAttester
		mt := spectypes.SSVConsensusMsgType
		switch i % 4 {
		case 0: // distinct rounds, small and huge: refused (round too high / early / late), labelled with the round
			m.Message.Round = specqbft.Round(20 + uint64(i))
			if i%8 == 0 {
				m.Message.Round = specqbft.Round(1<<40 + uint64(i))
			}
		case 1: // distinct unknown QBFT message types
			m.Message.MsgType = specqbft.MessageType(4 + uint64(i))
			if i%8 == 1 {
				m.Message.MsgType = specqbft.MessageType(1<<32 + uint64(i))
			}
		case 2: // distinct unknown SSV message types
			mt = spectypes.MsgType(5 + uint64(i))
		case 3: // signer counts 1..13 with distinct rounds
			cnt := 1 + i%13
			m.Signers = nil
			for s := 1; s <= cnt; s++ {
				m.Signers = append(m.Signers, spectypes.OperatorID(s))
			}
			m.Message.Round = specqbft.Round(1000 + uint64(i))
		}
		enc, err := m.Encode()
		if err != nil {
			continue
		}
		send(ssvOf(w, vMain, role, mt, enc))
	}
	after := metricsreporter.VerifValidationSeries()
	growth, total := []string{}, 0
	for k, v := range after {
		if d := v - before[k]; d != 0 {
			growth = append(growth, fmt.Sprintf("%s +%d", k, d))
			total += d
		}
	}
	sort.Strings(growth)
	obs := "ok"
	if total > metricsGrowthBound {
		obs = "bad:series-grow"
		run.Violate("C08/metrics-series-grow-with-refused-traffic", fmt.Sprintf("%d refused messages for a served validator with distinct rounds / message type values / signer counts created %d new metric series (%v): one series per distinct attacker-chosen value is kept for ever", n, total, growth), op)
	}
	run.Emit(op, obs)
	run.Tag("metrics-stream/" + obs)
	run.Extra["metrics_stream"] = fmt.Sprintf("%d refused messages: %d new series %v", n, total, growth)
}

func genMetricsStream(run *hx.Run, r *hx.Rng) {
	n := 320
	if run.Tier == "thorough" {
		n = 4000
	}
	metricsStream(run, n, run.Seed*13+5)
}

func metricsReplay(run *hx.Run, ws []string) {
	var n int
	var seed uint64
	if v, ok := kvOf(ws, "n"); ok {
		fmt.Sscan(v, &n)
	}
	if v, ok := kvOf(ws, "seed"); ok {
		fmt.Sscan(v, &seed)
	}
	if n <= 0 || n > 100000 {
		run.Emit(joinWS(ws), "bad-replay-line")
		return
	}
	metricsStream(run, n, seed)
}
