package main

// C10: traffic of REAL duty runners (protocol/v2/ssv/runner via the shared rkit helpers): all operators run the same duty,
// every broadcast — pre-consensus partial signatures, the consensus messages of the real controllers, post-consensus
// partial signatures — is delivered to everybody (loop-back included) in broadcast order. Fault-free, in order, timely.

import (
	"fmt"
	"time"

	eth2apiv1 "github.com/attestantio/go-eth2-client/api/v1"
	"github.com/attestantio/go-eth2-client/spec/phase0"
	specqbft "github.com/bloxapp/ssv-spec/qbft"
	spectypes "github.com/bloxapp/ssv-spec/types"
	"go.uber.org/zap"

	"github.com/bloxapp/ssv/protocol/v2/ssv/queue"
	"github.com/bloxapp/ssv/zz_verif/lib/rkit"
)

var runnerLog = zap.NewNop()

func deliverRunner(e *rkit.Env, m *spectypes.SSVMessage) {
	d, err := queue.DecodeSSVMessage(m)
	if err != nil {
		return
	}
	switch b := d.Body.(type) {
	case *specqbft.SignedMessage:
		_ = e.Runner.ProcessConsensus(e.Log, b)
	case *spectypes.SignedPartialSignatureMessage:
		if b.Message.Type == spectypes.PostConsensusPartialSig {
			_ = e.Runner.ProcessPostConsensus(e.Log, b)
		} else {
			_ = e.Runner.ProcessPreConsensus(e.Log, b)
		}
	}
}

// EnsureDuties makes the world's duty store (and its `reset` line) know the validator's duties for `slot`.
func (w *World) EnsureDuties(slot uint64) {
	e := slot / 32
	key := fmt.Sprintf("%d:%d:%d", e, slot, valIndex)
	if w.Duties.Proposer.ValidatorDuty(phase0.Epoch(e), phase0.Slot(slot), valIndex) == nil {
		w.Duties.Proposer.Add(phase0.Epoch(e), phase0.Slot(slot), valIndex, &eth2apiv1.ProposerDuty{Slot: phase0.Slot(slot), ValidatorIndex: valIndex}, true)
		w.pdLine += "," + key
	}
	period := e / 256
	if w.Duties.SyncCommittee.Duty(period, valIndex) == nil {
		w.Duties.SyncCommittee.Add(period, valIndex, &eth2apiv1.SyncCommitteeDuty{ValidatorIndex: valIndex}, true)
		w.sdLine += fmt.Sprintf(",%d:%d", period, valIndex)
	}
}

// RunnerTrace: the honest traffic of all n operators' real runners for one duty.
func RunnerTrace(w *World, kind rkit.Kind, delta uint64) *Trace {
	n := w.N
	ks := rkit.KeySet(n)
	envs := make([]*rkit.Env, n+1)
	seen := make([]int, n+1)
	duty := kind.Duty(delta)
	t := &Trace{Name: fmt.Sprintf("runners/n%d/%s", n, kind.Name), W: w, Role: kind.Role, Slot: uint64(duty.Slot)}
	w.EnsureDuties(t.Slot)
	base := consensusStart(kind.Role)
	collect := func() {
		for id := 1; id <= n; id++ {
			for ; seen[id] < len(envs[id].Net.Msgs); seen[id]++ {
				t.Msgs = append(t.Msgs, HMsg{Msg: envs[id].Net.Msgs[seen[id]], From: spectypes.OperatorID(id), At: base + time.Duration(len(t.Msgs)+1)*time.Millisecond})
			}
		}
	}
	for id := 1; id <= n; id++ {
		envs[id] = rkit.NewEnv(kind, ks, spectypes.OperatorID(id))
	}
	for id := 1; id <= n; id++ {
		_ = envs[id].Runner.StartNewDuty(runnerLog, kind.Duty(delta))
		collect()
	}
	for i := 0; i < len(t.Msgs) && i < 4000; i++ {
		for id := 1; id <= n; id++ {
			deliverRunner(envs[id], t.Msgs[i].Msg)
			collect()
		}
	}
	return t
}
