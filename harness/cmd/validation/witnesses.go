package main

// Regression witnesses (written once into corpus/Cxx/*.ops with `-mode witnesses -w <name>`; bin/check replays them first).

import (
	"flag"
	"time"

	eth2apiv1 "github.com/attestantio/go-eth2-client/api/v1"
	"github.com/attestantio/go-eth2-client/spec/phase0"
	specqbft "github.com/bloxapp/ssv-spec/qbft"
	spectypes "github.com/bloxapp/ssv-spec/types"
	tu "github.com/bloxapp/ssv-spec/types/testingutils"
	"github.com/herumi/bls-eth-go-binary/bls"

	"github.com/bloxapp/ssv/network/commons"
	"github.com/bloxapp/ssv/operator/duties/dutystore"
	"github.com/bloxapp/ssv/zz_verif/lib/hx"
)

var witnessFlag = flag.String("w", "", "witness set: round0 | fulldata | slotwrap | partialslot | partiallate | unserved | epochs | enr | wrapper | weirdop | large | outside | honestrun")

func genWitnesses(run *hx.Run, r *hx.Rng) {
	w := world(4)
	ks := w.KS
	root := tu.TestingQBFTRootData
	id := []byte{1, 2, 3, 4}
	s := uint64(baseSlot) // 32000 = 0 mod 4
	at := w.SlotStart(s).Add(time.Second)
	switch *witnessFlag {
	case "round0":
		// the defect repaired by 4c22bfb08: round 0 / huge rounds / huge heights in a single-signer proposal
		for _, role := range []spectypes.BeaconRole{spectypes.BNRoleAttester, spectypes.BNRoleProposer} {
			for _, hr := range [][2]uint64{{s, 0}, {s, 1 << 63}, {s, 1<<64 - 1}, {0, 0}, {1 << 63, 1}, {1<<64 - 1, 1}, {s + 1<<62, 1}, {s, 13}} {
				c := NewCase(run, w, false, "witness/round0")
				p := tu.TestingProposalMessageWithParams(ks.Shares[1], 1, specqbft.Round(hr[1]), specqbft.Height(hr[0]), root, nil, nil)
				c.ValidateSSV(kitSSV(w, role, p), at, Env{Mode: "n"}, "witness:round0")
			}
		}
		doKernel(run, []string{"k", "leader", "n=4", "h=8", "r=0"})
		doKernel(run, []string{"k", "leader", "n=4", "h=18446744073709551615", "r=1"})
		doKernel(run, []string{"k", "leader", "n=4", "h=32000", "r=1"})
	case "fulldata":
		// the defect repaired by af0324594: full data that does not hash to the root on prepare / commit
		for _, typ := range []string{"prepare", "commit", "proposal", "roundchange", "decided"} {
			c := NewCase(run, w, false, "witness/fulldata-"+typ)
			var m *specqbft.SignedMessage
			switch typ {
			case "prepare":
				m = tu.TestingPrepareMessageWithParams(ks.Shares[2], 2, 1, specqbft.Height(s), id, root)
			case "commit":
				m = tu.TestingCommitMessageWithParams(ks.Shares[2], 2, 1, specqbft.Height(s), id, root)
			case "proposal":
				m = tu.TestingProposalMessageWithParams(ks.Shares[1], 1, 1, specqbft.Height(s), root, nil, nil)
			case "roundchange":
				m = tu.TestingRoundChangeMessageWithParams(ks.Shares[2], 2, 2, specqbft.Height(s), root, 0, nil)
			case "decided":
				m = DecidedKit(ks, specqbft.Height(s), 1, []spectypes.OperatorID{1, 2, 3})
			}
			m.FullData = []byte("garbage that does not hash to the root")
			c.ValidateSSV(kitSSV(w, spectypes.BNRoleAttester, m), w.SlotStart(s).Add(3*time.Second), Env{Mode: "n"}, "witness:fulldata")
		}
	case "slotwrap":
		// the defect repaired by 635251de7: Height = current slot + 2^62 has the same wrapped start time as the current slot
		c := NewCase(run, w, false, "witness/slotwrap")
		for _, add := range []uint64{1 << 62, 1<<62 + 1, 1 << 63, 3 << 62} {
			m := tu.TestingPrepareMessageWithParams(ks.Shares[2], 2, 1, specqbft.Height(s+add), id, root)
			m.FullData = nil
			c.ValidateSSV(kitSSV(w, spectypes.BNRoleAttester, m), at, Env{Mode: "n"}, "witness:slotwrap")
		}
		m := tu.TestingCommitMessageWithParams(ks.Shares[2], 2, 1, specqbft.Height(s), id, root)
		m.FullData = nil
		c.ValidateSSV(kitSSV(w, spectypes.BNRoleAttester, m), at, Env{Mode: "n"}, "witness:honest-after-slotwrap")
	case "partialslot":
		// REGRESSION for the defect repaired by 6c728adc1 (former known finding C09/partial-sig-slot-window-unchecked): partial
		// signature messages for far-future slots must be turned down (early) and must not mute the signer
		c := NewCase(run, w, false, "witness/partialslot")
		for _, ps := range []uint64{1<<64 - 1, s + 1<<62, s + 1000000, s + 2, s + 1} {
			pm := tu.PostConsensusAttestationMsg(ks.Shares[1], 1, specqbft.Height(s))
			pm.Message.Slot = phase0.Slot(ps)
			enc, _ := pm.Encode()
			c.ValidateSSV(ssvOf(w, vMain, spectypes.BNRoleAttester, spectypes.SSVPartialSignatureMsgType, enc), at, Env{Mode: "n"}, "witness:partial-future-slot")
		}
		m := tu.TestingPrepareMessageWithParams(ks.Shares[1], 1, 1, specqbft.Height(s), id, root)
		m.FullData = nil
		c.ValidateSSV(kitSSV(w, spectypes.BNRoleAttester, m), at, Env{Mode: "n"}, "witness:honest-after-partial")
		pm := tu.PostConsensusAttestationMsg(ks.Shares[1], 1, specqbft.Height(s))
		pm.Message.Slot = phase0.Slot(s)
		enc, _ := pm.Encode()
		c.ValidateSSV(ssvOf(w, vMain, spectypes.BNRoleAttester, spectypes.SSVPartialSignatureMsgType, enc), at, Env{Mode: "n"}, "witness:honest-partial-current-slot")
	case "partiallate":
		// KNOWN FINDING C09/partial-sig-late-slot-unchecked: a partial signature message for a long-finished slot is accepted by a
		// peer without a newer entry for the signer; it cannot mute the signer (the honest messages afterwards are accepted), and
		// it is refused (slot already advanced) once the entry has moved on
		c := NewCase(run, w, false, "witness/partiallate")
		for _, back := range []uint64{1000, 100} {
			pm := tu.PostConsensusAttestationMsg(ks.Shares[1], 1, specqbft.Height(s))
			pm.Message.Slot = phase0.Slot(s - back)
			enc, _ := pm.Encode()
			c.ValidateSSV(ssvOf(w, vMain, spectypes.BNRoleAttester, spectypes.SSVPartialSignatureMsgType, enc), at, Env{Mode: "n"}, "witness:partial-late-slot")
		}
		m := tu.TestingPrepareMessageWithParams(ks.Shares[1], 1, 1, specqbft.Height(s), id, root)
		m.FullData = nil
		c.ValidateSSV(kitSSV(w, spectypes.BNRoleAttester, m), at, Env{Mode: "n"}, "witness:honest-after-late-partial")
		pm := tu.PostConsensusAttestationMsg(ks.Shares[1], 1, specqbft.Height(s))
		pm.Message.Slot = phase0.Slot(s - 50)
		enc, _ := pm.Encode()
		c.ValidateSSV(ssvOf(w, vMain, spectypes.BNRoleAttester, spectypes.SSVPartialSignatureMsgType, enc), at, Env{Mode: "n"}, "witness:partial-late-slot-after-honest")
	case "unserved":
		// C08 resource clause (seeded change C08b-m2): messages for ids this node does not serve — unknown well-formed keys in every
		// role, liquidated / metadata-less / exited validators, a foreign domain, an invalid role, a malformed key — are refused and
		// must leave no per-id lock or consensus state behind (oracle on the validator's internals)
		c := NewCase(run, w, false, "witness/unserved")
		m := tu.TestingCommitMessageWithParams(ks.Shares[2], 2, 1, specqbft.Height(s), id, root)
		m.FullData = nil
		body := kitSSV(w, spectypes.BNRoleAttester, m)
		send := func(dom spectypes.DomainType, pk []byte, role spectypes.BeaconRole, kind string) {
			c.ValidateSSV(&spectypes.SSVMessage{MsgType: body.MsgType, MsgID: spectypes.NewMsgID(dom, pk, role), Data: body.Data}, at, Env{Mode: "n"}, kind)
		}
		for role := spectypes.BeaconRole(0); role < 7; role++ {
			var sk bls.SecretKey
			_ = sk.SetLittleEndian(r.Bytes(31))
			send(w.NetCfg.Domain, sk.GetPublicKey().Serialize(), role, "witness:unserved-unknown")
		}
		for _, f := range []int{vLiquid, vNoMeta, vExited} {
			send(w.NetCfg.Domain, w.PKs[f], spectypes.BNRoleAttester, "witness:unserved-"+flavourNames[f])
		}
		send(spectypes.DomainType{9, 9, 9, 9}, w.PKs[vMain], spectypes.BNRoleAttester, "witness:unserved-domain")
		send(w.NetCfg.Domain, w.PKs[vMain], spectypes.BeaconRole(77), "witness:unserved-role")
		send(w.NetCfg.Domain, make([]byte, 48), spectypes.BNRoleAttester, "witness:unserved-key")
		c.ValidateSSV(body, at, Env{Mode: "n"}, "witness:served")
	case "epochs":
		// C10 (seeded change C10b-m1): operator 1 commits for its single attester / aggregator duty in six consecutive epochs, and
		// sends its validator-registration partial signature once per epoch; the same peer must accept every one of them
		for _, role := range []spectypes.BeaconRole{spectypes.BNRoleAttester, spectypes.BNRoleAggregator, spectypes.BNRoleValidatorRegistration} {
			c := NewCase(run, w, false, "witness/epochs")
			for e := uint64(0); e < 6; e++ {
				slot := s + 32*e + (7*e)%32
				c.Honest = 2
				if role == spectypes.BNRoleValidatorRegistration {
					pre, _, _ := kitPartials(w, role, slot)
					c.ValidateSSV(partialSSV(w, role, pre[0], slot), w.SlotStart(slot).Add(time.Second), Env{Mode: "n"}, "c10:witness-epochs")
					continue
				}
				m := tu.TestingCommitMessageWithParams(ks.Shares[1], 1, 1, specqbft.Height(slot), id, root)
				m.FullData = nil
				c.ValidateSSV(kitSSV(w, role, m), w.SlotStart(slot).Add(5*time.Second), Env{Mode: "n"}, "c10:witness-epochs")
			}
		}
	case "enr":
		// the defect repaired by aac5f5f72: a `domaintype` entry shorter than four bytes in a discovered peer's node record
		// (empty string, 1..3 bytes, small integers) made DomainTypeEntry.DecodeRLP panic; plus the neighbouring cases
		for _, l := range []int{0, 1, 2, 3, 4, 5, 32} {
			b := make([]byte, l)
			for i := range b {
				b[i] = byte(0xa0 + i)
			}
			doEntry(run, "domaintype", rlpStr(b), true)
		}
		for _, raw := range [][]byte{{0x05}, {0x80}, {0xc0}, {0xc4, 1, 2, 3, 4}} {
			doEntry(run, "domaintype", raw, true)
		}
		doEntry(run, "domaintype", nil, false)
		for _, l := range []int{0, 1, 15, 16, 17, 40} {
			b := make([]byte, l)
			for i := range b {
				b[i] = byte(0x11 * (i%15 + 1))
			}
			doEntry(run, "subnets", rlpStr(b), true)
		}
		doEntry(run, "subnets", []byte{0xc0}, true)
		doEntry(run, "subnets", nil, false)
	case "wrapper":
		// seeded change Y-m03: the full ValidatePubsubMessage path (Descriptor fields, log, metrics labels) for QBFT message types
		// 0..6 and two large ones, before and after the fork
		fuzzSetup()
		c := &Case{run: run, W: w}
		for _, mt := range []uint64{0, 1, 2, 3, 4, 5, 6, 1 << 32, 1<<64 - 1} {
			m := tu.TestingCommitMessageWithParams(ks.Shares[1], 1, 1, specqbft.Height(s), id, root)
			m.FullData = nil
			m.Message.MsgType = specqbft.MessageType(mt)
			enc, _ := commons.EncodeNetworkMsg(kitSSV(w, spectypes.BNRoleAttester, m))
			runFuzzTarget(run, "pubsub-full", append([]byte{0}, enc...))
			wrapped, _, _ := c.envelope(enc, Env{Mode: "v", Op: 1})
			runFuzzTarget(run, "pubsub-full", append([]byte{1}, wrapped...))
		}
	case "weirdop":
		// seeded change Y-m08: signed envelopes naming operators whose REGISTERED key is not a usable RSA key (ECDSA / Ed25519 PKIX
		// PEM, garbage DER, other PEM type, non-PEM, empty, non-base64): the signature check fails, nothing panics
		m := tu.TestingCommitMessageWithParams(ks.Shares[1], 1, 1, specqbft.Height(s), id, root)
		m.FullData = nil
		msg := kitSSV(w, spectypes.BNRoleAttester, m)
		enc, _ := msg.Encode()
		for op := spectypes.OperatorID(weirdOpFirst); op <= weirdOpLast; op++ {
			c := NewCase(run, w, false, "witness/weirdop")
			c.ValidateSSV(msg, at, Env{Mode: "w", Op: op}, "witness:weirdop")
			c2 := NewCase(run, w, true, "witness/weirdop-p2p")
			data, _, _ := c2.envelope(enc, Env{Mode: "w", Op: op})
			c2.ValidateP2P(data, topicsOf(msg)[0], at, "witness:weirdop-p2p")
			runFuzzTarget(run, "pubsub-full", append([]byte{1}, data...))
		}
	case "large":
		// seeded change Y-m04: committees of 10 and 13 with every operator active in one slot and round, then every per-signer limit again
		largeCommitteeLimits(run, r, 0)
		largeCommitteeLimits(run, r, 1)
	case "outside":
		// seeded change Y-m05: the validating node is not in the validator's committee: the proposer duty is stored with
		// inCommittee = false (real dutystore Add); the honest proposal and prepare for that duty must be accepted
		ds := dutystore.New()
		c := NewCaseWithStore(run, w, ds, true, "witness/outside")
		ds.Proposer.Add(phase0.Epoch(s/32), phase0.Slot(s), valIndex, &eth2apiv1.ProposerDuty{Slot: phase0.Slot(s), ValidatorIndex: valIndex}, false)
		c.AnnounceDuties([]uint64{s, s + 1}, nil)
		l := leaderOf(w, s, 1)
		p := tu.TestingProposalMessageWithParams(ks.Shares[l], l, 1, specqbft.Height(s), root, nil, nil)
		c.Honest = 2
		c.ValidateSSV(kitSSV(w, spectypes.BNRoleProposer, p), at, Env{Mode: "n"}, "c10:witness-outside")
		m := tu.TestingPrepareMessageWithParams(ks.Shares[2], 2, 1, specqbft.Height(s), id, root)
		m.FullData = nil
		c.Honest = 2
		c.ValidateSSV(kitSSV(w, spectypes.BNRoleProposer, m), at.Add(time.Millisecond), Env{Mode: "n"}, "c10:witness-outside")
		c.Honest = 0
		p1 := tu.TestingProposalMessageWithParams(ks.Shares[leaderOf(w, s+1, 1)], leaderOf(w, s+1, 1), 1, specqbft.Height(s+1), root, nil, nil)
		c.ValidateSSV(kitSSV(w, spectypes.BNRoleProposer, p1), w.SlotStart(s+1).Add(time.Second), Env{Mode: "n"}, "witness:no-duty-at-this-slot")
	case "honestrun":
		// one complete honest run with a prepared round change (C10)
		t := BuildTrace(w, spectypes.BNRoleAttester, s+2, scenarios[4], r)
		c := NewCase(run, w, false, "witness/honestrun")
		for k := range t.Msgs {
			c.Honest = 1
			c.ValidateSSV(t.Msgs[k].Msg, t.Time(k), Env{Mode: "n"}, "c10:witness")
		}
	}
}
