package main

// One self-contained case = `reset` + a sequence of validation calls on ONE fresh real validator.
// Every call: run the real entry point under recover, write op line + canonical observation,
// evaluate the implementation-side oracles (C08: no panic; C09: rules re-evaluated independently on the
// real objects for every accepted message; C10: see sim.go).

import (
	"bytes"
	"encoding/hex"
	"fmt"
	"math/big"
	"runtime/debug"
	"sort"
	"strings"
	"time"

	eth2apiv1 "github.com/attestantio/go-eth2-client/api/v1"
	"github.com/attestantio/go-eth2-client/spec/phase0"
	specqbft "github.com/bloxapp/ssv-spec/qbft"
	spectypes "github.com/bloxapp/ssv-spec/types"
	pubsub "github.com/libp2p/go-libp2p-pubsub"
	pspb "github.com/libp2p/go-libp2p-pubsub/pb"

	"github.com/bloxapp/ssv/message/validation"
	"github.com/bloxapp/ssv/network/commons"
	"github.com/bloxapp/ssv/operator/duties/dutystore"
	"github.com/bloxapp/ssv/protocol/v2/ssv/queue"
	ssvtypes "github.com/bloxapp/ssv/protocol/v2/types"
	"github.com/bloxapp/ssv/zz_verif/lib/hx"
)

// Env says how the operator envelope signature is produced for a call.
type Env struct {
	Mode string // n: no verifier (before the fork) | v: signed by Op | f: signed by an unregistered operator id | i: corrupted signature | w: names operator Op whose REGISTERED key is not an RSA key (signed with some RSA key)
	Op   spectypes.OperatorID
}

type sigKey struct {
	pk     string
	role   spectypes.BeaconRole
	signer uint64
}
type roundKey struct {
	slot, round uint64
	typ         uint64
}

type Case struct {
	run    *hx.Run
	W      *World
	MV     validation.MessageValidator
	Signed bool
	Lines  []string
	// oracle bookkeeping (independent of the validator): accepted consensus messages per signer
	last         map[sigKey][2]uint64
	counts       map[sigKey]map[roundKey]int
	props        map[sigKey]map[roundKey][]byte
	Label        string
	DS           *dutystore.Store // the duty store of THIS case's validator when it is not the world's (handler-driven scenarios)
	dsKeys       [][3]uint64      // proposer entries put by a replayed `duties` line
	Honest       int              // C10: 1 = the next message was emitted by a correct operator (must not be rejected), 2 = … in a fault-free in-order timely run (must be accepted)
	Outside      bool             // the case's own duty store holds duties with inCommittee = false (the node does not run the validator)
	refusedCalls int              // calls for ids this node does not serve (per-id state oracle)
	Exempt       bool             // the case touches the out-of-scope empty-committee validator: panics are compared with the model, not flagged
}

func NewCase(run *hx.Run, w *World, signed bool, label string) *Case {
	c := &Case{run: run, W: w, Signed: signed, MV: w.NewValidator(signed), Label: label,
		last: map[sigKey][2]uint64{}, counts: map[sigKey]map[roundKey]int{}, props: map[sigKey]map[roundKey][]byte{}}
	l := w.ResetLine(signed)
	c.Lines = append(c.Lines, l)
	run.Emit(l, "ok")
	return c
}

// NewCaseWithStore: a fresh validator that shares `ds` (e.g. with real duty handlers). The `reset` line carries no
// duties; `duties` ops announce the store's contents to the model whenever they are sampled.
func NewCaseWithStore(run *hx.Run, w *World, ds *dutystore.Store, outside bool, label string) *Case {
	c := &Case{run: run, W: w, DS: ds, Label: label, Outside: outside,
		last: map[sigKey][2]uint64{}, counts: map[sigKey]map[roundKey]int{}, props: map[sigKey]map[roundKey][]byte{}}
	c.MV = validation.NewMessageValidator(w.NetCfg, validation.WithNodeStorage(w.NS), validation.WithDutyStore(ds))
	b := w.NetCfg.Beacon
	own := 1
	if outside {
		own = 2 // the duty store holds the validator's duties with inCommittee = false
	}
	l := fmt.Sprintf("reset w=%d fork=0 own=%d g=%d d=%d spe=%d epp=%d perm=%d pd=- sd=-", w.N, own, b.MinGenesisTime(),
		uint64(b.SlotDurationSec().Seconds()), b.SlotsPerEpoch(), b.EpochsPerSyncCommitteePeriod(), uint64(w.NetCfg.PermissionlessActivationEpoch))
	c.Lines = append(c.Lines, l)
	run.Emit(l, "ok")
	return c
}

// AnnounceDuties samples the case's duty store at the given proposer slots / sync periods and emits the `duties` op.
func (c *Case) AnnounceDuties(slots []uint64, periods []uint64) {
	var pd, sd []string
	for _, s := range slots {
		e := s / 32
		// raw store contents (shim), not the accessor the validator itself uses
		if stored, _ := dutystore.VerifStoredProposer(c.DS.Proposer, phase0.Epoch(e), phase0.Slot(s), valIndex); stored {
			pd = append(pd, fmt.Sprintf("%d:%d:%d", e, s, valIndex))
		}
	}
	for _, p := range periods {
		if stored, _ := dutystore.VerifStoredSync(c.DS.SyncCommittee, p, valIndex); stored {
			sd = append(sd, fmt.Sprintf("%d:%d", p, valIndex))
		}
	}
	j := func(x []string) string {
		if len(x) == 0 {
			return "-"
		}
		return strings.Join(x, ",")
	}
	c.emit("duties pd="+j(pd)+" sd="+j(sd), "ok")
}

// ReplayDuties makes the case's own duty store contain exactly the entries of a `duties` line.
func (c *Case) ReplayDuties(ws []string) {
	if c.DS == nil {
		return
	}
	for _, k := range c.dsKeys {
		c.DS.Proposer.ResetEpoch(phase0.Epoch(k[0]))
		c.DS.SyncCommittee.Reset(k[0])
	}
	c.dsKeys = nil
	pd, _ := kvOf(ws, "pd")
	sd, _ := kvOf(ws, "sd")
	if pd != "-" && pd != "" {
		for _, t := range strings.Split(pd, ",") {
			var e, s, i uint64
			fmt.Sscanf(t, "%d:%d:%d", &e, &s, &i)
			c.DS.Proposer.Add(phase0.Epoch(e), phase0.Slot(s), phase0.ValidatorIndex(i), &eth2apiv1.ProposerDuty{Slot: phase0.Slot(s), ValidatorIndex: phase0.ValidatorIndex(i)}, !c.Outside)
			c.dsKeys = append(c.dsKeys, [3]uint64{e, s, i})
		}
	}
	if sd != "-" && sd != "" {
		for _, t := range strings.Split(sd, ",") {
			var p, i uint64
			fmt.Sscanf(t, "%d:%d", &p, &i)
			c.DS.SyncCommittee.Add(p, phase0.ValidatorIndex(i), &eth2apiv1.SyncCommitteeDuty{ValidatorIndex: phase0.ValidatorIndex(i)}, !c.Outside)
			c.dsKeys = append(c.dsKeys, [3]uint64{p, 0, i})
		}
	}
	c.emit(strings.Join(ws, " "), "ok")
}

func (c *Case) emit(op, obs string) {
	c.Lines = append(c.Lines, op)
	c.run.Emit(op, obs)
}

func (c *Case) violate(sig, detail string) {
	c.run.Violate(sig, detail+" [case "+c.Label+"]", c.Lines...)
}

// envelope builds the real signed envelope for an encoded SSVMessage.
func (c *Case) envelope(encoded []byte, env Env) (wrapped []byte, opID spectypes.OperatorID, sig []byte) {
	op := env.Op
	if op == 0 {
		op = 1
	}
	key := c.W.OpKeys[op]
	if key == nil {
		key = c.W.OpKeys[1]
	}
	sig, err := key.Sign(encoded)
	if err != nil {
		panic(err)
	}
	opID = op
	switch env.Mode {
	case "f":
		opID = unknownOpID
	case "i":
		sig = append([]byte{}, sig...)
		sig[7] ^= 0x40
	}
	return commons.EncodeSignedSSVMessage(encoded, opID, sig), opID, sig
}

// sigLetter: the abstract result of the operator signature check for the model. For an operator registered with a key that
// is not a usable RSA key the result is fixed by construction ("i": verification must fail) — the real check then runs only
// INSIDE the guarded validation call, where a panic is a finding and not a harness crash.
func (c *Case) sigLetter(payload []byte, opID spectypes.OperatorID, sig []byte) string {
	if isWeirdOp(opID) {
		return "i"
	}
	return envLetterOf(validation.VerifVerifySignature(c.MV, payload, opID, sig))
}

func envLetterOf(err error) string {
	if err == nil {
		return "v"
	}
	tag, _, _ := validation.VerifErrTag(err)
	switch tag {
	case "OperatorNotFound":
		return "f"
	case "SignatureVerification":
		return "i"
	}
	return "?" + tag
}

// ValidateSSV runs validateSSVMessage(msg, at, verifier) on the case's validator.
func (c *Case) ValidateSSV(msg *spectypes.SSVMessage, at time.Time, env Env, kind string) (class, tag string) {
	c.W.SetClock(at)
	var verifier func() error
	letter := "n"
	if env.Mode != "n" {
		enc, err := commons.EncodeNetworkMsg(msg)
		if err != nil {
			enc = []byte{1}
		}
		_, opID, sig := c.envelope(enc, env)
		letter = c.sigLetter(enc, opID, sig)
		verifier = func() error { return validation.VerifVerifySignature(c.MV, enc, opID, sig) }
	}
	fields, signers := c.W.Abstract(c.MV, msg, at, letter)
	op := "v " + fields + fmt.Sprintf(" envm=%s envop=%d hon=%d ", env.Mode, env.Op, c.Honest) + rawOfSSV(msg)
	var verr error
	var pan any
	var stack string
	var dec *queue.DecodedSSVMessage
	l0, i0 := validation.VerifPerIDStateSizes(c.MV)
	func() {
		defer func() {
			if r := recover(); r != nil {
				pan, stack = r, string(debug.Stack())
			}
		}()
		dec, _, verr = validation.VerifValidateSSVWith(c.MV, msg, at, verifier)
	}()
	obs, class, tag := Outcome(verr, pan, stack)
	c.emit(op, obs+" st="+StateDigest(c.MV, msg, signers))
	c.perIDState(msg, at, l0, i0, class, tag)
	c.after(kind, class, tag, msg, dec, at, nil, env)
	return class, tag
}

// ValidateP2P runs validateP2PMessage on a real pubsub message.
func (c *Case) ValidateP2P(data []byte, topic string, at time.Time, kind string) (class, tag string) {
	c.W.SetClock(at)
	cfg := c.W.NetCfg
	if c.Signed {
		cfg = c.W.NetCfgS
	}
	active := cfg.Beacon.EstimatedEpochAtSlot(cfg.Beacon.EstimatedSlotAtTime(at.Unix())) > cfg.PermissionlessActivationEpoch
	payload := data
	sdo := true
	letter := "n"
	var envOp spectypes.OperatorID
	if active {
		p, opID, sig, err := commons.DecodeSignedSSVMessage(data)
		sdo = err == nil
		payload = p
		envOp = opID
		if sdo {
			letter = c.sigLetter(p, opID, sig)
		}
	}
	var inner *spectypes.SSVMessage
	ndo := false
	if len(payload) > 0 {
		if m, err := commons.DecodeNetworkMsg(payload); err == nil && m != nil {
			inner, ndo = m, true
		}
	}
	top := false
	var fields string
	var signers []uint64
	if inner != nil {
		base := commons.GetTopicBaseName(topic)
		for _, t := range commons.ValidatorTopicID(inner.GetID().GetPubKey()) {
			if t == base {
				top = true
			}
		}
		fields, signers = c.W.Abstract(c.MV, inner, at, letter)
	} else {
		fields = fmt.Sprintf("vid=0 role=0 dlen=0 dom=0 pk=0 sh=- now=%d.%09d we=0 env=%s b=u", at.Unix(), at.Nanosecond(), letter)
	}
	tp := hex.EncodeToString([]byte(topic))
	if tp == "" {
		tp = "-"
	}
	pd := hx.Hex(data)
	if len(data) > 1<<16 && isZero(data) {
		pd = fmt.Sprintf("z%d", len(data))
	}
	op := fmt.Sprintf("p sdo=%d plen=%d ndo=%d top=%d %s topic=%s pdata=%s", b2i(sdo), len(payload), b2i(ndo), b2i(top), fields, tp, pd)
	pm := &pubsub.Message{Message: &pspb.Message{Data: data, Topic: &topic}}
	l0, i0 := validation.VerifPerIDStateSizes(c.MV)
	var verr error
	var pan any
	var stack string
	var dec *queue.DecodedSSVMessage
	func() {
		defer func() {
			if r := recover(); r != nil {
				pan, stack = r, string(debug.Stack())
			}
		}()
		dec, _, verr = validation.VerifValidateP2P(c.MV, pm, at)
	}()
	obs, class, tag := Outcome(verr, pan, stack)
	st := "-"
	if inner != nil {
		st = StateDigest(c.MV, inner, signers)
	}
	c.emit(op, obs+" st="+st)
	c.perIDState(inner, at, l0, i0, class, tag)
	c.after(kind, class, tag, inner, dec, at, &p2pFacts{active: active, topicOK: top, sigLetter: letter, op: envOp}, Env{Mode: "n"})
	return class, tag
}

// servedID: does the message ID name a validator this node serves (right domain, valid role, well-formed key of a registered,
// non-liquidated share with metadata that is attesting)? Evaluated on the world's storage, not by the validator.
func (c *Case) servedID(msg *spectypes.SSVMessage, at time.Time) bool {
	w := c.W
	if !bytes.Equal(msg.MsgID.GetDomain(), w.NetCfg.Domain[:]) || msg.MsgID.GetRoleType() > spectypes.BNRoleVoluntaryExit {
		return false
	}
	pk, err := ssvtypes.DeserializeBLSPublicKey(msg.MsgID.GetPubKey())
	if err != nil {
		return false
	}
	var share *ssvtypes.SSVShare
	w.NS.Shares().Range(nil, func(s *ssvtypes.SSVShare) bool {
		if bytes.Equal(s.ValidatorPubKey, pk.Serialize()) {
			share = s
			return false
		}
		return true
	})
	if share == nil || share.Liquidated || share.BeaconMetadata == nil {
		return false
	}
	epoch := w.NetCfg.Beacon.EstimatedEpochAtSlot(w.NetCfg.Beacon.EstimatedSlotAtTime(at.Unix()))
	st := share.BeaconMetadata.Status
	return st.IsAttesting() || (st == eth2apiv1.ValidatorStatePendingQueued && share.BeaconMetadata.ActivationEpoch <= epoch)
}

// perIDState is the C08 resource oracle on the validator's internals: a call whose message ID does not name a served
// validator (the ID space is attacker-chosen and unbounded), or that carried no decodable message at all, must leave neither
// a per-message-ID lock nor a consensus-state entry behind.
func (c *Case) perIDState(msg *spectypes.SSVMessage, at time.Time, l0, i0 int, class, tag string) {
	if !oracleOn("c08") || class == "panic" {
		return
	}
	l1, i1 := validation.VerifPerIDStateSizes(c.MV)
	c.refusedCalls++
	if msg != nil && c.servedID(msg, at) {
		c.refusedCalls--
		return
	}
	if l1 != l0 || i1 != i0 {
		c.violate("C08/unserved-id-leaves-per-id-state", fmt.Sprintf("a message for an id this node does not serve (verdict %s:%s) left per-id state behind: validation locks %d -> %d, consensus states %d -> %d; the id space is attacker-chosen, so memory grows without bound with network input", class, tag, l0, l1, i0, i1))
	}
}

// oracleOn: each property's check evaluates its own oracle (mode all: every oracle)
func oracleOn(m string) bool { return *modeFlag == m || *modeFlag == "all" }

type p2pFacts struct {
	active    bool
	topicOK   bool
	sigLetter string
	op        spectypes.OperatorID
}

// ---------------------------------------------------------------- oracles

func (c *Case) after(kind, class, tag string, msg *spectypes.SSVMessage, dec *queue.DecodedSSVMessage, at time.Time, p2p *p2pFacts, env Env) {
	run := c.run
	run.Tag("outcome/" + class + ":" + tag)
	run.Tag("kind/" + kind)
	stateClass := "fresh"
	if len(c.last) > 0 {
		stateClass = "hist"
	}
	run.Seen(kind + "|" + class + ":" + tag + "|" + stateClass)
	if c.Honest > 0 && msg != nil && oracleOn("c10") {
		mt := "partial"
		if msg.MsgType == spectypes.SSVConsensusMsgType {
			mt = "consensus"
		}
		if class == "reject" {
			c.violate("C10/honest-message-rejected:"+tag+":"+mt, "a message emitted by a correct operator was classified as reject ("+tag+")")
		} else if c.Honest == 2 && class != "accept" {
			c.violate("C10/not-accepted-in-fault-free-run:"+tag+":"+mt, "fault-free in-order timely run: an honest message was not accepted ("+class+":"+tag+")")
		}
	}
	if class == "panic" && !oracleOn("c08") {
		return
	}
	if class == "panic" {
		if c.Exempt || (msg != nil && bytes.Equal(msg.MsgID.GetPubKey(), c.W.PKs[vEmptyCom])) {
			run.Tag("panic-on-out-of-scope-empty-committee")
			return
		}
		c.violate("C08/panic:"+tag, "message validation panicked ("+tag+") on a "+kind+" input")
		return
	}
	if class != "accept" || msg == nil || !oracleOn("c09") {
		return
	}
	if dec == nil {
		c.violate("C09/accepted-without-decoded-message", "accept verdict without a decoded message")
		return
	}
	c.checkRules(kind, msg, dec, at, p2p, env)
}

// bigSlotStart: genesis + slot*dur in exact arithmetic (seconds)
func (c *Case) bigSlotStart(slot uint64) *big.Int {
	b := c.W.NetCfg.Beacon
	x := new(big.Int).Mul(new(big.Int).SetUint64(slot), big.NewInt(int64(b.SlotDurationSec().Seconds())))
	return x.Add(x, new(big.Int).SetUint64(b.MinGenesisTime()))
}

func ttlOf(role spectypes.BeaconRole) (uint64, bool) {
	switch role {
	case spectypes.BNRoleProposer, spectypes.BNRoleSyncCommittee, spectypes.BNRoleSyncCommitteeContribution:
		return 3, true
	case spectypes.BNRoleAttester, spectypes.BNRoleAggregator:
		return 34, true
	}
	return 0, false // registration / exit: no lateness bound in the code; the property names no window for them
}

func maxRoundOf(role spectypes.BeaconRole) uint64 {
	switch role {
	case spectypes.BNRoleAttester, spectypes.BNRoleAggregator:
		return 12
	case spectypes.BNRoleProposer, spectypes.BNRoleSyncCommittee, spectypes.BNRoleSyncCommitteeContribution:
		return 6
	}
	return 0
}

// checkRules re-evaluates the gossip rules of C09 on the real objects of an ACCEPTED message,
// in exact arithmetic and without calling into the validator's own rule code.
func (c *Case) checkRules(kind string, msg *spectypes.SSVMessage, dec *queue.DecodedSSVMessage, at time.Time, p2p *p2pFacts, env Env) {
	w := c.W
	pk := msg.MsgID.GetPubKey()
	role := msg.MsgID.GetRoleType()
	// known / active / not liquidated
	var share *ssvtypes.SSVShare
	w.NS.Shares().Range(nil, func(s *ssvtypes.SSVShare) bool {
		if bytes.Equal(s.ValidatorPubKey, pk) {
			share = s
			return false
		}
		return true
	})
	if share == nil {
		c.violate("C09/accepted-unknown-validator", "accepted a message for a validator that is not in the share storage")
		return
	}
	if share.Liquidated {
		c.violate("C09/accepted-liquidated-validator", "accepted a message for a liquidated validator")
	}
	if share.BeaconMetadata == nil || !(share.BeaconMetadata.Status.IsAttesting() ||
		(share.BeaconMetadata.Status == eth2apiv1.ValidatorStatePendingQueued && uint64(share.BeaconMetadata.ActivationEpoch) <= uint64(w.NetCfg.Beacon.EstimatedCurrentEpoch()))) {
		c.violate("C09/accepted-inactive-validator", "accepted a message for a validator that is not active")
	}
	if p2p != nil {
		if !p2p.topicOK {
			c.violate("C09/accepted-wrong-topic", "accepted a message published on a topic that is not the validator's")
		}
		if p2p.active && p2p.sigLetter != "v" {
			c.violate("C09/accepted-bad-operator-signature", "signed envelopes are active and the accepted message has no valid signature of a registered operator ("+p2p.sigLetter+")")
		}
	} else if env.Mode == "f" || env.Mode == "i" {
		c.violate("C09/accepted-bad-operator-signature", "the accepted message's envelope signature does not verify ("+env.Mode+")")
	}
	committee := map[uint64]bool{}
	for _, o := range share.Committee {
		committee[o.OperatorID] = true
	}
	cur := new(big.Int).Sub(big.NewInt(at.Unix()), new(big.Int).SetUint64(w.NetCfg.Beacon.MinGenesisTime()))
	dur := int64(w.NetCfg.Beacon.SlotDurationSec().Seconds())
	curSlot := new(big.Int)
	if cur.Sign() > 0 {
		curSlot.Div(cur, big.NewInt(dur))
	}
	slotWindow := func(slot uint64, what string) {
		s := new(big.Int).SetUint64(slot)
		// not from the future: the slot must have started (one slot of slack for clock error)
		if s.Cmp(new(big.Int).Add(curSlot, big.NewInt(1))) > 0 {
			switch {
			case what == "partial-sig":
				// repaired by 6c728adc1 (earlyMessage guard in validatePartialSignatureMessage): must never fire again
				c.violate("C09/partial-sig-slot-window-unchecked", fmt.Sprintf("accepted a partial signature message for slot %d while the current slot is %v", slot, curSlot))
			case slot-curSlot.Uint64() >= 1<<61:
				c.violate("C09/slot-window-wraparound-accepted", fmt.Sprintf("accepted a %s message for slot %d while the current slot is %v", what, slot, curSlot))
			default:
				c.violate("C09/"+what+"-future-slot-accepted", fmt.Sprintf("accepted a %s message for slot %d while the current slot is %v", what, slot, curSlot))
			}
		}
		if ttl, ok := ttlOf(role); ok {
			lim := new(big.Int).Add(s, new(big.Int).SetUint64(ttl+1))
			if curSlot.Cmp(lim) > 0 && what == "partial-sig" {
				// KNOWN finding: only the future side is guarded (repair 6c728adc1), the late side is not
				c.violate("C09/partial-sig-late-slot-unchecked", fmt.Sprintf("accepted a partial signature message for slot %d (role %d) at current slot %v", slot, role, curSlot))
			} else if curSlot.Cmp(lim) > 0 {
				c.violate("C09/"+what+"-expired-slot-accepted", fmt.Sprintf("accepted a %s message for slot %d (role %d) at current slot %v", what, slot, role, curSlot))
			}
		}
	}
	switch m := dec.Body.(type) {
	case *specqbft.SignedMessage:
		// signers
		if len(m.Signers) == 0 {
			c.violate("C09/accepted-no-signers", "accepted a consensus message without signers")
			return
		}
		for i, s := range m.Signers {
			if s == 0 {
				c.violate("C09/accepted-zero-signer", "accepted a consensus message with signer 0")
			}
			if !committee[s] {
				c.violate("C09/accepted-non-member-signer", fmt.Sprintf("accepted a consensus message signed by %d, not a committee member", s))
			}
			if i > 0 && m.Signers[i-1] >= s {
				c.violate("C09/accepted-unsorted-or-duplicate-signers", fmt.Sprintf("accepted signers %v", m.Signers))
			}
		}
		if len(m.Signers) > 1 {
			if m.Message.MsgType != specqbft.CommitMsgType {
				c.violate("C09/accepted-multi-signer-non-commit", fmt.Sprintf("accepted a type-%d message with %d signers", m.Message.MsgType, len(m.Signers)))
			}
			if uint64(len(m.Signers)) < share.Quorum || len(m.Signers) > len(share.Committee) {
				c.violate("C09/accepted-decided-wrong-size", fmt.Sprintf("accepted a commit with %d signers (quorum %d, committee %d)", len(m.Signers), share.Quorum, len(share.Committee)))
			}
		}
		if uint64(m.Message.MsgType) > uint64(specqbft.RoundChangeMsgType) {
			c.violate("C09/accepted-unknown-qbft-type", "accepted an unknown QBFT message type")
		}
		// leader
		r := uint64(m.Message.Round)
		if m.Message.MsgType == specqbft.ProposalMsgType && len(m.Signers) == 1 && r >= 1 && len(share.Committee) > 0 {
			n := new(big.Int).SetInt64(int64(len(share.Committee)))
			idx := new(big.Int).SetUint64(uint64(m.Message.Height))
			idx.Add(idx, new(big.Int).SetUint64(r-1))
			idx.Mod(idx, n)
			if share.Committee[idx.Int64()].OperatorID != m.Signers[0] {
				c.violate("C09/accepted-proposal-from-non-leader", fmt.Sprintf("accepted a proposal of %d for height %d round %d", m.Signers[0], m.Message.Height, r))
			}
		}
		// full data
		if len(m.FullData) != 0 {
			if h, _ := specqbft.HashDataRoot(m.FullData); h != m.Message.Root {
				c.violate(fmt.Sprintf("C09/accepted-full-data-mismatch-type%d", m.Message.MsgType), "accepted a message whose full data does not hash to its root")
			}
		}
		// slot and round windows
		slotWindow(uint64(m.Message.Height), "consensus")
		if r < 1 || r > maxRoundOf(role) {
			c.violate("C09/accepted-round-out-of-role-range", fmt.Sprintf("accepted round %d for role %d", r, role))
		}
		since := new(big.Int).Sub(new(big.Int).Add(new(big.Int).Mul(big.NewInt(at.Unix()), big.NewInt(1e9)), big.NewInt(int64(at.Nanosecond()))),
			new(big.Int).Mul(c.bigSlotStart(uint64(m.Message.Height)), big.NewInt(1e9)))
		est := big.NewInt(1)
		if since.Sign() > 0 {
			q := new(big.Int).Div(since, big.NewInt(int64(2*time.Second)))
			if q.Cmp(big.NewInt(7)) <= 0 {
				est.Add(est, q)
			} else {
				rest := new(big.Int).Sub(since, big.NewInt(int64(16*time.Second)))
				est = new(big.Int).Add(big.NewInt(9), new(big.Int).Div(rest, big.NewInt(int64(2*time.Minute))))
			}
		}
		if new(big.Int).SetUint64(r).Cmp(new(big.Int).Add(est, big.NewInt(1))) > 0 {
			c.violate("C09/accepted-round-beyond-window", fmt.Sprintf("accepted round %d although the estimated round is %v", r, est))
		}
		// per-signer limits over the accepted history (kept by the harness)
		slot := uint64(m.Message.Height)
		typ := uint64(m.Message.MsgType)
		if typ == uint64(specqbft.CommitMsgType) && len(m.Signers) > 1 {
			typ = 100 // decided
		}
		for _, s := range m.Signers {
			k := sigKey{string(pk), role, s}
			if l, ok := c.last[k]; ok {
				if slot < l[0] {
					c.violate("C09/accepted-slot-regression", fmt.Sprintf("signer %d went back from slot %d to %d", s, l[0], slot))
				} else if slot == l[0] && r < l[1] {
					c.violate("C09/accepted-round-regression", fmt.Sprintf("signer %d went back from round %d to %d in slot %d", s, l[1], r, slot))
				}
			}
			if l, ok := c.last[k]; !ok || slot > l[0] || (slot == l[0] && r > l[1]) {
				c.last[k] = [2]uint64{slot, r}
			}
			if c.counts[k] == nil {
				c.counts[k] = map[roundKey]int{}
				c.props[k] = map[roundKey][]byte{}
			}
			rk := roundKey{slot, r, typ}
			c.counts[k][rk]++
			limit := 1
			if typ == 100 {
				n := len(share.Committee)
				limit = n * ((n-1)/3 + 1)
			}
			if c.counts[k][rk] > limit {
				c.violate(fmt.Sprintf("C09/accepted-too-many-type%d-per-round", typ), fmt.Sprintf("signer %d: %d accepted messages of type %d in slot %d round %d", s, c.counts[k][rk], typ, slot, r))
			}
			if typ == uint64(specqbft.ProposalMsgType) {
				if prev, ok := c.props[k][rk]; ok && !bytes.Equal(prev, m.FullData) {
					c.violate("C09/accepted-second-proposal-different-data", fmt.Sprintf("signer %d: two accepted proposals with different data in slot %d round %d", s, slot, r))
				}
				c.props[k][rk] = m.FullData
			}
		}
	case *spectypes.SignedPartialSignatureMessage:
		if m.Signer == 0 || !committee[m.Signer] {
			c.violate("C09/accepted-partial-non-member-signer", fmt.Sprintf("accepted a partial signature message of signer %d", m.Signer))
		}
		slotWindow(uint64(m.Message.Slot), "partial-sig")
	default:
		c.violate("C09/accepted-non-protocol-message", "accepted a message that is neither consensus nor partial signature")
	}
}

// ---------------------------------------------------------------- small helpers shared by the generators

func slotOf(m *specqbft.SignedMessage) uint64 { return uint64(m.Message.Height) }

func encodeQ(m *specqbft.SignedMessage) ([]byte, error) { return m.Encode() }

func ssvOf(w *World, flavour int, role spectypes.BeaconRole, mt spectypes.MsgType, data []byte) *spectypes.SSVMessage {
	return &spectypes.SSVMessage{MsgType: mt, MsgID: spectypes.NewMsgID(w.NetCfg.Domain, w.PKs[flavour], role), Data: data}
}

func sortedU(xs []uint64) []uint64 {
	o := append([]uint64{}, xs...)
	sort.Slice(o, func(i, j int) bool { return o[i] < o[j] })
	return o
}

var _ = phase0.Slot(0)
var _ = strings.TrimSpace
