package main

// The real objects the validator works on: in-memory Badger node storage with real shares (known, liquidated,
// metadata-less, exited, pending validators), operator RSA keys, a real duty store, a beacon network whose
// wall clock is driven by the harness, and the abstraction function from real messages to op lines.

import (
	"bytes"
	"crypto/ecdsa"
	"crypto/ed25519"
	"crypto/elliptic"
	"crypto/sha256"
	"crypto/x509"
	"encoding/base64"
	"encoding/hex"
	"encoding/pem"
	"errors"
	"fmt"
	"sort"
	"strings"
	"time"

	eth2apiv1 "github.com/attestantio/go-eth2-client/api/v1"
	"github.com/attestantio/go-eth2-client/spec/phase0"
	specqbft "github.com/bloxapp/ssv-spec/qbft"
	spectypes "github.com/bloxapp/ssv-spec/types"
	tu "github.com/bloxapp/ssv-spec/types/testingutils"
	"github.com/ethereum/go-ethereum/common"
	"go.uber.org/zap"

	"github.com/bloxapp/ssv/message/validation"
	"github.com/bloxapp/ssv/networkconfig"
	"github.com/bloxapp/ssv/operator/duties/dutystore"
	"github.com/bloxapp/ssv/operator/keys"
	operatorstorage "github.com/bloxapp/ssv/operator/storage"
	"github.com/bloxapp/ssv/protocol/v2/blockchain/beacon"
	"github.com/bloxapp/ssv/protocol/v2/ssv/queue"
	ssvtypes "github.com/bloxapp/ssv/protocol/v2/types"
	registrystorage "github.com/bloxapp/ssv/registry/storage"
	"github.com/bloxapp/ssv/storage/basedb"
	"github.com/bloxapp/ssv/storage/kv"
)

// clockBeacon is the real beacon.Network with the wall clock (time.Now) replaced by a harness-driven value.
type clockBeacon struct {
	beacon.Network
	now *int64
}

func (c clockBeacon) EstimatedCurrentSlot() phase0.Slot { return c.Network.EstimatedSlotAtTime(*c.now) }
func (c clockBeacon) EstimatedCurrentEpoch() phase0.Epoch {
	return c.Network.EstimatedEpochAtSlot(c.EstimatedCurrentSlot())
}

const (
	baseSlot    = 32 * 1000 // first slot of epoch 1000
	valIndex    = 123
	nOperators  = 13
	unknownOpID = 77
)

// validator flavours stored in every world
const (
	vMain     = iota // active, committee of the world's key set
	vLiquid          // liquidated
	vNoMeta          // no beacon metadata
	vExited          // status exited
	vPending         // pending queued, activation at epoch 1001
	vEmptyCom        // active, EMPTY committee: impossible given the registry invariants; kept to tie the model's panic outcome
	vTopic           // active, key on subnet 7: its topic id is a suffix of 17, 27, …, 127 (topic rule sweeps)
	vCount
)

var flavourNames = []string{"main", "liquidated", "nometa", "exited", "pending", "emptycom", "topic7"}

type World struct {
	N       int
	KS      *tu.TestKeySet
	NS      operatorstorage.Storage
	Duties  *dutystore.Store
	NetCfg  networkconfig.NetworkConfig // fork far in the future (unsigned path)
	NetCfgS networkconfig.NetworkConfig // fork active (signed envelopes)
	clock   *int64
	PKs     [vCount][]byte
	OpKeys  map[spectypes.OperatorID]keys.OperatorPrivateKey
	pdLine  string
	sdLine  string
}

var rsaPool []keys.OperatorPrivateKey

func rsaKey(i int) keys.OperatorPrivateKey {
	for len(rsaPool) <= i {
		k, err := keys.GeneratePrivateKey()
		if err != nil {
			panic(err)
		}
		rsaPool = append(rsaPool, k)
	}
	return rsaPool[i]
}

func NewWorld(n int) *World {
	logger := zap.NewNop()
	db, err := kv.NewInMemory(logger, basedb.Options{})
	if err != nil {
		panic(err)
	}
	ns, err := operatorstorage.NewNodeStorage(logger, db)
	if err != nil {
		panic(err)
	}
	w := &World{N: n, NS: ns, Duties: dutystore.New(), clock: new(int64), OpKeys: map[spectypes.OperatorID]keys.OperatorPrivateKey{}}
	switch n {
	case 4:
		w.KS = tu.Testing4SharesSet()
	case 7:
		w.KS = tu.Testing7SharesSet()
	case 10:
		w.KS = tu.Testing10SharesSet()
	case 13:
		w.KS = tu.Testing13SharesSet()
	default:
		panic("committee size")
	}
	bn := clockBeacon{Network: beacon.NewNetwork(spectypes.PraterNetwork), now: w.clock}
	w.NetCfg = networkconfig.NetworkConfig{Name: "verif", Beacon: bn, Domain: tu.TestingSSVDomainType, PermissionlessActivationEpoch: 1 << 60}
	w.NetCfgS = w.NetCfg
	w.NetCfgS.PermissionlessActivationEpoch = 0

	other := tu.Testing10SharesSet()
	if n == 10 {
		other = tu.Testing13SharesSet()
	}
	for f := 0; f < vCount; f++ {
		sh := &ssvtypes.SSVShare{Share: *tu.TestingShare(w.KS)}
		sh.Quorum, sh.PartialQuorum = ssvtypes.ComputeQuorumAndPartialQuorum(len(sh.Committee))
		meta := &beacon.ValidatorMetadata{Status: eth2apiv1.ValidatorStateActiveOngoing, Index: valIndex}
		sh.Metadata = ssvtypes.Metadata{BeaconMetadata: meta}
		if f != vMain {
			sh.ValidatorPubKey = other.Shares[spectypes.OperatorID(f)].GetPublicKey().Serialize()
		}
		switch f {
		case vLiquid:
			sh.Liquidated = true
		case vNoMeta:
			sh.Metadata.BeaconMetadata = nil
		case vExited:
			meta.Status = eth2apiv1.ValidatorStateExitedUnslashed
		case vPending:
			meta.Status = eth2apiv1.ValidatorStatePendingQueued
			meta.ActivationEpoch = 1001
		case vEmptyCom:
			sh.Committee = nil
		}
		if err := ns.Shares().Save(nil, sh); err != nil {
			panic(err)
		}
		w.PKs[f] = sh.ValidatorPubKey
	}
	for i := 1; i <= nOperators; i++ {
		k := rsaKey(i)
		pub, err := k.Public().Base64()
		if err != nil {
			panic(err)
		}
		if _, err := ns.SaveOperatorData(nil, &registrystorage.OperatorData{ID: spectypes.OperatorID(i), PublicKey: pub, OwnerAddress: common.Address{}}); err != nil {
			panic(err)
		}
		w.OpKeys[spectypes.OperatorID(i)] = k
	}
	// operators whose REGISTERED key is not a usable RSA key (the contract stores the bytes unchecked): well-formed PKIX PEM of an
	// ECDSA and an Ed25519 key, PEM with garbage DER, PEM of another block type, non-PEM text, empty, non-base64
	for id, pk := range weirdOperatorKeys() {
		if _, err := ns.SaveOperatorData(nil, &registrystorage.OperatorData{ID: id, PublicKey: []byte(pk), OwnerAddress: common.Address{}}); err != nil {
			panic(err)
		}
	}
	// duty store: proposer duties on even slots of epochs 1000 and 1001, sync committee duty in the period of epoch 1000
	var pd, sd []string
	for s := uint64(baseSlot); s < baseSlot+64; s += 2 {
		e := s / 32
		w.Duties.Proposer.Add(phase0.Epoch(e), phase0.Slot(s), valIndex, &eth2apiv1.ProposerDuty{Slot: phase0.Slot(s), ValidatorIndex: valIndex}, true)
		pd = append(pd, fmt.Sprintf("%d:%d:%d", e, s, valIndex))
	}
	period := uint64(1000 / 256)
	w.Duties.SyncCommittee.Add(period, valIndex, &eth2apiv1.SyncCommitteeDuty{ValidatorIndex: valIndex}, true)
	sd = append(sd, fmt.Sprintf("%d:%d", period, valIndex))
	w.pdLine, w.sdLine = strings.Join(pd, ","), strings.Join(sd, ",")
	return w
}

// ResetLine is the `reset` op: network constants and duty store contents, as the model needs them.
func (w *World) ResetLine(signedFork bool) string {
	perm := w.NetCfg.PermissionlessActivationEpoch
	if signedFork {
		perm = w.NetCfgS.PermissionlessActivationEpoch
	}
	b := w.NetCfg.Beacon
	return fmt.Sprintf("reset w=%d fork=%d g=%d d=%d spe=%d epp=%d perm=%d pd=%s sd=%s", w.N, b2i(signedFork), b.MinGenesisTime(),
		uint64(b.SlotDurationSec().Seconds()), b.SlotsPerEpoch(), b.EpochsPerSyncCommitteePeriod(), uint64(perm), w.pdLine, w.sdLine)
}

func (w *World) NewValidator(signedFork bool) validation.MessageValidator {
	cfg := w.NetCfg
	if signedFork {
		cfg = w.NetCfgS
	}
	return validation.NewMessageValidator(cfg, validation.WithNodeStorage(w.NS), validation.WithDutyStore(w.Duties))
}

func (w *World) SlotStart(slot uint64) time.Time {
	return w.NetCfg.Beacon.GetSlotStartTime(phase0.Slot(slot))
}
func (w *World) SetClock(t time.Time) { *w.clock = t.Unix() }

func b2i(b bool) int {
	if b {
		return 1
	}
	return 0
}

// ---------------------------------------------------------------- interning

type interner struct {
	m map[string]int
}

func (i *interner) id(b []byte) int {
	if i.m == nil {
		i.m = map[string]int{}
	}
	k := string(b)
	if v, ok := i.m[k]; ok {
		return v
	}
	v := len(i.m) + 1
	i.m[k] = v
	return v
}

var rootIDs, vidIDs, prootIDs interner

// ---------------------------------------------------------------- abstraction: real message -> op fields

func joinU(xs []uint64) string {
	if len(xs) == 0 {
		return "-"
	}
	s := make([]string, len(xs))
	for i, x := range xs {
		s[i] = fmt.Sprint(x)
	}
	return strings.Join(s, ",")
}

func isZero(b []byte) bool {
	for _, x := range b {
		if x != 0 {
			return false
		}
	}
	return true
}

// Abstract computes the fields of a `v` op for the real message (everything through the real decoders / predicates).
// envLetter is n (no verifier), v, f (operator not found), i (invalid).
func (w *World) Abstract(mv validation.MessageValidator, msg *spectypes.SSVMessage, at time.Time, envLetter string) (fields string, signers []uint64) {
	var b strings.Builder
	pk := msg.MsgID.GetPubKey()
	role := msg.MsgID.GetRoleType()
	fmt.Fprintf(&b, "vid=%d role=%d dlen=%d dom=%d", vidIDs.id(pk), uint64(role), len(msg.Data), b2i(bytes.Equal(msg.MsgID.GetDomain(), w.NetCfg.Domain[:])))
	var share *ssvtypes.SSVShare
	blsPK, err := ssvtypes.DeserializeBLSPublicKey(pk)
	fmt.Fprintf(&b, " pk=%d", b2i(err == nil))
	if err == nil {
		share = w.NS.Shares().Get(nil, blsPK.Serialize())
	}
	if share == nil {
		b.WriteString(" sh=-")
	} else {
		var com []uint64
		for _, o := range share.Committee {
			com = append(com, o.OperatorID)
		}
		att, pend, ae, ix := false, false, uint64(0), uint64(0)
		if share.BeaconMetadata != nil {
			att = share.BeaconMetadata.Status.IsAttesting()
			pend = share.BeaconMetadata.Status == eth2apiv1.ValidatorStatePendingQueued
			ae = uint64(share.BeaconMetadata.ActivationEpoch)
			ix = uint64(share.BeaconMetadata.Index)
		}
		fmt.Fprintf(&b, " shc=%s shq=%d shf=%d%d%d%d shae=%d shix=%d", joinU(com), share.Quorum,
			b2i(share.Liquidated), b2i(share.BeaconMetadata != nil), b2i(att), b2i(pend), ae, ix)
	}
	fmt.Fprintf(&b, " now=%d.%09d we=%d env=%s", at.Unix(), at.Nanosecond(), uint64(w.NetCfg.Beacon.EstimatedCurrentEpoch()), envLetter)
	dec, derr := queue.DecodeSSVMessage(msg)
	switch {
	case derr != nil && errors.Is(derr, queue.ErrUnknownMessageType):
		b.WriteString(" b=u")
	case derr != nil:
		b.WriteString(" b=m")
	default:
		switch m := dec.Body.(type) {
		case *specqbft.SignedMessage:
			signers = m.Signers
			fd := "-"
			if len(m.FullData) != 0 {
				h, _ := specqbft.HashDataRoot(m.FullData)
				fd = fmt.Sprint(rootIDs.id(h[:]))
			}
			_, pjErr := m.Message.GetPrepareJustifications()
			_, rcErr := m.Message.GetRoundChangeJustifications()
			jok := false
			if share != nil && pjErr == nil && rcErr == nil && m.Message.MsgType == specqbft.ProposalMsgType {
				jok, _ = validation.VerifIsProposalJustification(mv, share, m)
			}
			fmt.Fprintf(&b, " b=c mt=%d h=%d r=%d root=%d fd=%s sg=%s sl=%d sz=%d pjm=%d pjl=%d rcm=%d rcl=%d jok=%d",
				uint64(m.Message.MsgType), uint64(m.Message.Height), uint64(m.Message.Round), rootIDs.id(m.Message.Root[:]), fd,
				joinU(m.Signers), len(m.Signature), b2i(isZero(m.Signature)), b2i(pjErr != nil), len(m.Message.PrepareJustification),
				b2i(rcErr != nil), len(m.Message.RoundChangeJustification), b2i(jok))
		case *spectypes.SignedPartialSignatureMessage:
			signers = []uint64{m.Signer}
			var its []string
			for _, it := range m.Message.Messages {
				its = append(its, fmt.Sprintf("%d:%d:%d:%d", it.Signer, prootIDs.id(it.SigningRoot[:]), len(it.PartialSignature), b2i(isZero(it.PartialSignature))))
			}
			itStr := "-"
			if len(its) > 0 {
				itStr = strings.Join(its, ",")
			}
			fmt.Fprintf(&b, " b=p pt=%d ps=%d psg=%d it=%s sl=%d sz=%d", uint64(m.Message.Type), uint64(m.Message.Slot), m.Signer, itStr,
				len(m.Signature), b2i(isZero(m.Signature)))
		default:
			b.WriteString(" b=e")
		}
	}
	return b.String(), signers
}

// StateDigest renders the per-signer state of the message's signers after the call.
func StateDigest(mv validation.MessageValidator, msg *spectypes.SSVMessage, signers []uint64) string {
	if len(signers) == 0 {
		return "-"
	}
	if len(signers) > 13 {
		signers = signers[:13]
	}
	seen := map[uint64]bool{}
	var out []string
	for _, s := range signers {
		if seen[s] {
			continue
		}
		seen[s] = true
		ss := validation.VerifSignerStateOf(mv, msg.MsgID.GetPubKey(), msg.MsgID.GetRoleType(), s)
		if !ss.Found {
			out = append(out, fmt.Sprintf("%d:-", s))
			continue
		}
		pd := "-"
		if ss.ProposalData != nil {
			h := sha256.Sum256(ss.ProposalData)
			pd = fmt.Sprint(rootIDs.id(h[:]))
		}
		c := ss.Counts
		out = append(out, fmt.Sprintf("%d:%d,%d,%d,%d,%d,%d,%d,%d,%d,%s,%d", s, ss.Slot, ss.Round, c[0], c[1], c[2], c[3], c[4], c[5], c[6], pd, ss.EpochDuties))
	}
	return strings.Join(out, ";")
}

// Outcome canonicalises the result of a validation call.
func Outcome(err error, panicked any, stack string) (obs string, class string, tag string) {
	if panicked != nil {
		site := panicSite(panicked, stack)
		return "panic:" + site, "panic", site
	}
	if err == nil {
		return "accept", "accept", ""
	}
	tag, reject, _ := validation.VerifErrTag(err)
	if reject {
		return "reject:" + tag, "reject", tag
	}
	return "ignore:" + tag, "ignore", tag
}

// panicSite maps a recovered panic to the model's site name, by the function on the stack that raised it.
func panicSite(p any, stack string) string {
	s := fmt.Sprint(p)
	has := func(fn string) bool { return strings.Contains(stack, fn) }
	switch {
	case has("qbft.RoundRobinProposer") && strings.Contains(s, "divide by zero"):
		return "leaderModZero"
	case has("qbft.RoundRobinProposer") && strings.Contains(s, "index out of range"):
		return "leaderIndexOutOfRange"
	case has(".maxRound("):
		return "maxRoundUnknownRole"
	case has(".partialSignatureTypeMatchesRole("):
		return "partialTypeRoleUnknownRole"
	case has("MessageCounts).ValidateConsensusMessage("):
		return "countsValidateUnknownType"
	case has("MessageCounts).RecordConsensusMessage(") && s == "expected signers":
		return "countsRecordNoSigners"
	case has("MessageCounts).RecordConsensusMessage("):
		return "countsRecordUnknownType"
	case has("MessageCounts).ValidatePartialSignatureMessage("):
		return "partialCountsUnknownType"
	case has("MessageCounts).RecordPartialSignatureMessage("):
		return "partialRecordUnknownType"
	case has(".validateSignatureFormat("):
		return "sigArrayConversion"
	}
	// first repo / spec frame on the stack (the harness' own frames are in package main)
	return "other(" + fuzzSite(stack) + ")"
}

// ---------------------------------------------------------------- raw encodings for replay

func rawOfSSV(msg *spectypes.SSVMessage) string {
	data := hex.EncodeToString(msg.Data)
	if len(msg.Data) > 1<<16 && isZero(msg.Data) {
		data = fmt.Sprintf("z%d", len(msg.Data))
	}
	if data == "" {
		data = "-"
	}
	return fmt.Sprintf("rmt=%d rid=%s rdata=%s", uint64(msg.MsgType), hex.EncodeToString(msg.MsgID[:]), data)
}

func kvOf(ws []string, k string) (string, bool) {
	for _, w := range ws {
		if strings.HasPrefix(w, k+"=") {
			return w[len(k)+1:], true
		}
	}
	return "", false
}

func ssvOfRaw(ws []string) (*spectypes.SSVMessage, error) {
	mt, _ := kvOf(ws, "rmt")
	id, _ := kvOf(ws, "rid")
	data, _ := kvOf(ws, "rdata")
	var t uint64
	if _, err := fmt.Sscan(mt, &t); err != nil {
		return nil, err
	}
	idb, err := hex.DecodeString(id)
	if err != nil || len(idb) != 56 {
		return nil, fmt.Errorf("bad rid")
	}
	var d []byte
	switch {
	case data == "-":
	case strings.HasPrefix(data, "z"):
		var n int
		if _, err := fmt.Sscan(data[1:], &n); err != nil {
			return nil, err
		}
		d = make([]byte, n)
	default:
		if d, err = hex.DecodeString(data); err != nil {
			return nil, err
		}
	}
	m := &spectypes.SSVMessage{MsgType: spectypes.MsgType(t), Data: d}
	copy(m.MsgID[:], idb)
	return m, nil
}

func sortedKeys(m map[string]int) []string {
	ks := make([]string, 0, len(m))
	for k := range m {
		ks = append(ks, k)
	}
	sort.Strings(ks)
	return ks
}

// weird operators: ids 101..107
const weirdOpFirst, weirdOpLast = 101, 107

func isWeirdOp(id spectypes.OperatorID) bool { return id >= weirdOpFirst && id <= weirdOpLast }

var weirdKeys map[spectypes.OperatorID]string

func weirdOperatorKeys() map[spectypes.OperatorID]string {
	if weirdKeys != nil {
		return weirdKeys
	}
	b64 := func(b []byte) string { return base64.StdEncoding.EncodeToString(b) }
	pemOf := func(typ string, der []byte) []byte { return pem.EncodeToMemory(&pem.Block{Type: typ, Bytes: der}) }
	ec, err := ecdsa.GenerateKey(elliptic.P256(), strings.NewReader(strings.Repeat("deterministic-seed-for-an-ecdsa-operator-key", 20)))
	if err != nil {
		panic(err)
	}
	ecDER, err := x509.MarshalPKIXPublicKey(&ec.PublicKey)
	if err != nil {
		panic(err)
	}
	edPub := ed25519.NewKeyFromSeed([]byte("seed-of-an-ed25519-operator-key!")).Public()
	edDER, err := x509.MarshalPKIXPublicKey(edPub)
	if err != nil {
		panic(err)
	}
	weirdKeys = map[spectypes.OperatorID]string{
		101: b64(pemOf("RSA PUBLIC KEY", ecDER)),
		102: b64(pemOf("PUBLIC KEY", edDER)),
		103: b64(pemOf("RSA PUBLIC KEY", []byte{0x30, 0x03, 0x02, 0x01, 0x01})),
		104: b64(pemOf("CERTIFICATE", ecDER)),
		105: b64([]byte("this is not a PEM block")),
		106: "",
		107: "***not base64***",
	}
	return weirdKeys
}
