// The REAL wall clock of the node (campaign V, V-m02): every other op of this harness sets the clock through a BeaconNetwork
// wrapper, so the real beacon.Network clock functions — which AddShare / BumpSlashingProtection use to compute the minimal
// slashing-protection records — are never executed by them. This probe builds the signer with the real network object of
// networkconfig.TestNetwork (12-second slots, real time.Now) on a real database and replays, in real time, the sequence in which a
// lagging clock releases two different blocks for one slot:
//
//	late in slot k some component asks the network for the current slot; early in slot k+1 the share is added; a block for the
//	current slot is requested; the share is removed and added again (records rebuilt from the clock); another block for the
//	same slot is requested.
//
// Oracle (property, not model): two different blocks for one slot are never both signed. One-sided side condition, reported
// separately: the proposal record written by AddShare is not below the slot that had started before AddShare was called.
//
//	op: realclock   -> done        (takes up to ~14 s of wall-clock time)
package main

import (
	"fmt"
	"os"
	"time"

	"github.com/attestantio/go-eth2-client/spec/phase0"
	spectypes "github.com/bloxapp/ssv-spec/types"
	"github.com/herumi/bls-eth-go-binary/bls"
	"go.uber.org/zap"

	"github.com/bloxapp/ssv/ekm"
	"github.com/bloxapp/ssv/networkconfig"
	"github.com/bloxapp/ssv/storage/basedb"
	"github.com/bloxapp/ssv/storage/kv"
	"github.com/bloxapp/ssv/zz_verif/lib/hx"
)

func realClockProbe(run *hx.Run) {
	const line = "realclock"
	defer run.Emit(line, "done")
	net := networkconfig.TestNetwork.Beacon // the real beacon.Network, as the node uses it
	dir, err := os.MkdirTemp("", "verif-ekm-rc-")
	if err != nil {
		panic(err)
	}
	defer os.RemoveAll(dir)
	logger := zap.NewNop()
	db, err := kv.New(logger, basedb.Options{Path: dir})
	if err != nil {
		panic(err)
	}
	defer db.Close()
	km, err := ekm.NewETHKeyManagerSigner(logger, db, networkconfig.NetworkConfig{Beacon: net, Domain: networkconfig.TestNetwork.Domain}, true, "")
	if err != nil {
		panic(err)
	}
	raw := ekm.VerifInstrument(km, func(string) error { return nil })
	genesis := int64(net.MinGenesisTime())
	dur := int64(net.SlotDurationSec().Seconds())
	slotAt := func(t time.Time) uint64 { return uint64((t.Unix() - genesis) / dur) }
	offset := func() int64 { return (time.Now().Unix() - genesis) % dur }
	// 1. late in a slot (its last two seconds): some component reads the clock
	for offset() < dur-2 {
		time.Sleep(100 * time.Millisecond)
	}
	k := uint64(net.EstimatedCurrentSlot())
	// 2. early in the next slot (at least one full second in, so that whole-second arithmetic agrees)
	for slotAt(time.Now()) <= k || offset() < 1 {
		time.Sleep(100 * time.Millisecond)
	}
	sk := &bls.SecretKey{}
	sk.SetByCSPRNG()
	pk := sk.GetPublicKey().Serialize()
	started := slotAt(time.Now())
	if err := km.AddShare(sk); err != nil {
		run.Tag("realclock/add-failed")
		return
	}
	p, found, err := raw.RetrieveHighestProposal(pk)
	if err == nil && found && uint64(p) < started {
		run.Violate("C04/real-clock:minimal-record-below-started-slot",
			fmt.Sprintf("AddShare was called in slot %d (real clock, slot had started at least a second earlier); it wrote the proposal record %d", started, uint64(p)), line)
	}
	slot := started
	sign := func(salt uint64) bool {
		sig, _, err := km.SignBeaconObject(mkBlock(slot, salt), phase0.Domain{}, pk, spectypes.DomainProposer)
		return err == nil && len(sig) > 0
	}
	first := sign(1)
	_ = km.RemoveShare(sk.GetPublicKey().SerializeToHexStr())
	if err := km.AddShare(sk); err != nil {
		run.Tag("realclock/re-add-failed")
		return
	}
	second := sign(2)
	run.Tag("op/realclock")
	run.Tag(fmt.Sprintf("realclock/first-signed=%v/second-signed=%v", first, second))
	run.Seen(fmt.Sprintf("realclock/%v/%v", first, second))
	if first && second {
		run.Violate("C04/slashable-pair:double-proposal:real-clock",
			fmt.Sprintf("two different blocks for slot %d were signed: the share was removed and added again %d s after the slot began, and the records rebuilt from the node's clock were below the slot already signed", slot, offset()), line)
	}
}
