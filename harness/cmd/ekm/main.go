// Harness for engine `ekm` (property C04): drives the REAL ethKeyManagerSigner (ekm.NewETHKeyManagerSigner)
// on a REAL Badger database on disk (storage/kv) with real BLS share keys. restart = close the database,
// reopen it, NewETHKeyManagerSigner. The only mocks are the clock (a BeaconNetwork wrapper whose current slot
// is set by the harness) and a storage decorator installed by ekm.VerifInstrument that can pause the real
// BumpSlashingProtection at the entry of its storage calls (to interleave it with sign requests) or make a
// storage call fail (fault injection); both delegate to the real implementation.
//
// For every op the harness writes the op line and the implementation's canonical observation
// (outcome + read-back of the two stored records and the wallet account); bin/check diffs them against the
// Lean model (lean/Driver/Ekm.lean). Independently of the model it evaluates the property oracle: pairwise
// slashability of ALL signatures released for a share over the whole history, "record missing => refused",
// "restart changes no record".
package main

import (
	"bytes"
	"errors"
	"os"
	"runtime"
	"sort"
	"strconv"
	"strings"
	"sync"
	"sync/atomic"
	"time"

	apiv1capella "github.com/attestantio/go-eth2-client/api/v1/capella"
	"github.com/attestantio/go-eth2-client/spec/altair"
	"github.com/attestantio/go-eth2-client/spec/bellatrix"
	"github.com/attestantio/go-eth2-client/spec/capella"
	"github.com/attestantio/go-eth2-client/spec/phase0"
	"github.com/bloxapp/eth2-key-manager/core"
	"github.com/bloxapp/eth2-key-manager/signer"
	spectypes "github.com/bloxapp/ssv-spec/types"
	ssz "github.com/ferranbt/fastssz"
	"github.com/herumi/bls-eth-go-binary/bls"
	"github.com/prysmaticlabs/go-bitfield"
	"go.uber.org/zap"

	"github.com/bloxapp/ssv/ekm"
	"github.com/bloxapp/ssv/networkconfig"
	"github.com/bloxapp/ssv/protocol/v2/blockchain/beacon"
	"github.com/bloxapp/ssv/storage/basedb"
	"github.com/bloxapp/ssv/storage/kv"
	"github.com/bloxapp/ssv/utils/threshold"
	"github.com/bloxapp/ssv/zz_verif/lib/hx"
)

// ---------------------------------------------------------------- clock mock

// fakeNet is the real beacon.Network of networkconfig.TestNetwork with the wall clock replaced.
type fakeNet struct {
	beacon.Network
	slot atomic.Uint64
	gate func(call string) error
}

// EstimatedCurrentSlot: the value is read first; a split bump is then paused ("clock" pause point: clock read, nothing
// else done yet) — the gate only stops the goroutine that runs the split bump.
func (f *fakeNet) EstimatedCurrentSlot() phase0.Slot {
	v := phase0.Slot(f.slot.Load())
	if f.gate != nil {
		_ = f.gate("clock")
	}
	return v
}
func (f *fakeNet) EstimatedCurrentEpoch() phase0.Epoch {
	return f.EstimatedEpochAtSlot(f.EstimatedCurrentSlot())
}

// far-future window: generated "ordinary" epochs/slots stay <= smallEpoch/smallSlot (checked valid with the real
// library function at start-up), "far" ones are farEpoch/farSlot (checked invalid). The model uses the small
// bounds as its thresholds, so model and library agree on every generated value.
const (
	smallEpoch = 100000
	smallSlot  = 3200000
	farEpoch   = uint64(1) << 62
	farSlot    = uint64(1) << 62
)

// ---------------------------------------------------------------- world: db + signer + gate

// opTimeout: per-op watchdog. A call into the key manager that the model does not expect to wait (those are issued as
// delayed requests) and that has not returned after this long is observed as `hang`; the world is abandoned.
const opTimeout = 6 * time.Second

var errHang = errors.New("verif: the request did not return within the per-op watchdog")

var (
	errAbort = errors.New("verif: bump aborted (process restart)")
	errFault = errors.New("verif: injected storage fault")
)

type world struct {
	dir    string
	db     *kv.BadgerDB
	km     spectypes.KeyManager
	raw    ekm.Storage
	net    *fakeNet
	logger *zap.Logger

	// gate
	turnBump atomic.Bool  // true while the split-bump goroutine runs
	bumpGID  atomic.Int64 // goroutine id of the split bump (0 = none)
	ev       chan string  // bump goroutine -> harness: "at:<call>" | "done:<tag>"
	rel      chan error   // harness -> bump goroutine
	at       string       // "" = no bump in flight, else the call it is parked at
	failCall string       // main-goroutine fault injection: this call fails once
	failHit  bool

	wg sync.WaitGroup // harness goroutines that may be inside the key manager / database of this world

	dbFault    string // "" | err | close : fault for the next slashing-record write at database level
	dbFaultHit bool
	closed     bool
}

// faultDB forwards everything to the real on-disk Badger database. When armed it makes the next WRITE of a
// slashing record (the single storage write of a sign request) fail in one of two realistic ways:
//
//	err   : the write returns an error without touching the database
//	close : the real database is CLOSED just before the write (a shutdown landing between the request's slashing
//	        check and its record update); the write is then delegated to the closed database
type faultDB struct {
	basedb.Database
	w *world
}

func (d *faultDB) Set(prefix, key, value []byte) error {
	if d.w.dbFault != "" && (bytes.Contains(prefix, []byte("highest_att-")) || bytes.Contains(prefix, []byte("highest_prop-"))) {
		mode := d.w.dbFault
		d.w.dbFault = ""
		d.w.dbFaultHit = true
		if mode == "err" {
			return errFault
		}
		_ = d.Database.Close()
		d.w.closed = true
	}
	return d.Database.Set(prefix, key, value)
}

func (d *faultDB) Using(rw basedb.ReadWriter) basedb.ReadWriter {
	if rw == nil {
		return d
	}
	return rw
}

// goid: id of the calling goroutine (the gate must only stop the goroutine that runs the split bump, not a request
// that was waiting for the wallet lock and starts running the moment the bump releases it)
func goid() int64 {
	var buf [64]byte
	n := runtime.Stack(buf[:], false)
	f := strings.Fields(string(buf[:n]))
	if len(f) < 2 {
		return -1
	}
	id, _ := strconv.ParseInt(f[1], 10, 64)
	return id
}

func (w *world) hook(call string) error {
	if call == "clock" {
		if g := w.bumpGID.Load(); g == 0 || g != goid() {
			return nil
		}
	}
	if g := w.bumpGID.Load(); g != 0 && g == goid() {
		w.ev <- "at:" + call
		return <-w.rel
	}
	if w.failCall != "" && w.failCall == call {
		w.failCall = ""
		w.failHit = true
		return errFault
	}
	return nil
}

func (w *world) open() {
	db, err := kv.New(w.logger, basedb.Options{Path: w.dir})
	if err != nil {
		panic(err)
	}
	w.db = db
	w.closed = false
	nc := networkconfig.NetworkConfig{Beacon: w.net, Domain: networkconfig.TestNetwork.Domain}
	km, err := ekm.NewETHKeyManagerSigner(w.logger, &faultDB{Database: db, w: w}, nc, true, "")
	if err != nil {
		panic(err)
	}
	w.km = km
	w.raw = ekm.VerifInstrument(km, w.hook)
}

// sweepStale removes database directories left behind by harness processes that were killed (timeout) before their
// own clean-up: anything of ours that has not been touched for 3 hours (no run lasts that long).
func sweepStale() {
	ents, err := os.ReadDir(os.TempDir())
	if err != nil {
		return
	}
	for _, e := range ents {
		if !e.IsDir() || !strings.HasPrefix(e.Name(), "verif-ekm-") {
			continue
		}
		if info, err := e.Info(); err == nil && time.Since(info.ModTime()) > 3*time.Hour {
			_ = os.RemoveAll(os.TempDir() + "/" + e.Name())
		}
	}
}

func newWorld() *world {
	dir, err := os.MkdirTemp("", "verif-ekm-")
	if err != nil {
		panic(err)
	}
	w := &world{dir: dir, logger: zap.NewNop(), ev: make(chan string), rel: make(chan error)}
	w.net = &fakeNet{Network: networkconfig.TestNetwork.Beacon.GetNetwork()}
	w.net.gate = w.hook
	w.open()
	return w
}

// abortBump makes an in-flight split bump return (as a process kill would stop it) without writing.
func (w *world) abortBump() bool {
	if w.at == "" {
		return true
	}
	w.turnBump.Store(true)
	for {
		select {
		case w.rel <- errAbort:
		case <-time.After(opTimeout):
			return false
		}
		select {
		case e := <-w.ev:
			if strings.HasPrefix(e, "done:") {
				w.turnBump.Store(false)
				w.at = ""
				return true
			}
		case <-time.After(opTimeout):
			return false
		}
	}
}

// panicErr: a panic inside a harness goroutine, reported as that request's outcome instead of killing the process
type panicErr struct{ v interface{} }

func (p panicErr) Error() string { return hx.Sprintf("panic: %v", p.v) }

func safely(f func() error) (err error) {
	defer func() {
		if r := recover(); r != nil {
			err = panicErr{r}
		}
	}()
	return f()
}

// spawn starts a harness goroutine that may call into the key manager / database of this world. Every such
// goroutine is counted; the database is closed or reopened only after all of them have returned (joinAll).
func (w *world) spawn(f func()) {
	w.wg.Add(1)
	go func() {
		defer w.wg.Done()
		f()
	}()
}

// joinAll blocks until every goroutine started with spawn has returned. Explicit synchronisation, no sleeps; the
// watchdog only turns a harness bug (a goroutine that can never return) into a harness error instead of a silent hang.
func (w *world) joinAll() bool {
	done := make(chan struct{})
	go func() { w.wg.Wait(); close(done) }()
	select {
	case <-done:
		return true
	case <-time.After(2 * opTimeout):
		return false
	}
}

// restart: close + reopen + new signer. The caller has quiesced the world (H.quiesce): no bump in flight, no delayed
// request, no goroutine inside the key manager.
func (w *world) restart() {
	if w.at != "" {
		panic("harness error: restart with a bump in flight (quiesce first)")
	}
	if !w.joinAll() {
		panic("harness error: restart of a world that still has goroutines inside it (quiesce first)")
	}
	if !w.closed {
		if err := w.db.Close(); err != nil {
			panic(err)
		}
	}
	w.open()
}

// shutdown closes the database of a quiesced world and removes its directory.
func (w *world) shutdown() {
	if w.at != "" {
		panic("harness error: shutdown with a bump in flight (quiesce first)")
	}
	if !w.joinAll() {
		return // something is still inside: leave the database alone, the process exits anyway
	}
	if !w.closed {
		_ = w.db.Close()
		w.closed = true
	}
	_ = os.RemoveAll(w.dir)
}

// ---------------------------------------------------------------- shares, read-back, oracle

type relAtt struct {
	s, t uint64
	line int
}
type relBlk struct {
	slot uint64
	line int
}

// lowering: a write of a split BumpSlashingProtection, performed after the clock had advanced past the bump's
// clock reading, that left a record below its previous value
type lowering struct {
	line   int
	att    bool   // attestation record (else proposal record)
	hs, ht uint64 // the record after the write
	hp     uint64
}
type share struct {
	sk        *bls.SecretKey
	pk        []byte
	atts      []relAtt
	blocks    []relBlk
	lowerings []lowering
}

// uncoveredAtt: between the releases of o and n a stale bump write left the attestation record below o
func (sh *share) uncoveredAtt(o relAtt, nLine int) bool {
	for _, l := range sh.lowerings {
		if l.att && l.line > o.line && l.line < nLine && (o.s > l.hs || o.t > l.ht) {
			return true
		}
	}
	return false
}
func (sh *share) uncoveredBlk(o relBlk, nLine int) bool {
	for _, l := range sh.lowerings {
		if !l.att && l.line > o.line && l.line < nLine && o.slot > l.hp {
			return true
		}
	}
	return false
}

type caseState struct {
	kind    string // wf | race | malformed
	shares  []*share
	lines   []string // op lines of the current case (replay)
	bumpK   int      // share of the in-flight bump
	bumpAt0 uint64   // clock slot read by the in-flight bump
}

func (w *world) readback(sh *share) string {
	var b strings.Builder
	a, found, err := w.raw.RetrieveHighestAttestation(sh.pk)
	switch {
	case err != nil:
		b.WriteString("att=err")
	case !found || a == nil:
		b.WriteString("att=-")
	default:
		b.WriteString(hx.Sprintf("att=%d,%d", uint64(a.Source.Epoch), uint64(a.Target.Epoch)))
	}
	p, found, err := w.raw.RetrieveHighestProposal(sh.pk)
	switch {
	case err != nil:
		b.WriteString(" prop=err")
	case !found:
		b.WriteString(" prop=-")
	default:
		b.WriteString(hx.Sprintf(" prop=%d", uint64(p)))
	}
	if ekm.VerifHasAccountNoLock(w.km, sh.pk) { // no wallet lock: a paused bump may hold it
		b.WriteString(" acc=1")
	} else {
		b.WriteString(" acc=0")
	}
	return b.String()
}

func (w *world) records(sh *share) (hasAtt bool, hs, ht uint64, hasProp bool, hp uint64) {
	a, found, err := w.raw.RetrieveHighestAttestation(sh.pk)
	if err == nil && found && a != nil {
		hasAtt, hs, ht = true, uint64(a.Source.Epoch), uint64(a.Target.Epoch)
	}
	p, found, err := w.raw.RetrieveHighestProposal(sh.pk)
	if err == nil && found {
		hasProp, hp = true, uint64(p)
	}
	return
}

func slashKind(a, b relAtt) string {
	switch {
	case a.t == b.t:
		return "double-vote"
	case a.s < b.s && b.t < a.t, b.s < a.s && a.t < b.t:
		return "surround"
	}
	return ""
}

// refusal tag from the error text of the pinned library (diagnostic classes; the pinned module cannot be
// reworded without a version bump, which the regenerated fingerprints catch first)
func refuseTag(err error) string {
	if _, ok := err.(panicErr); ok {
		return "panic"
	}
	m := err.Error()
	switch {
	case strings.Contains(m, "account not found"):
		return "noAccount"
	case strings.Contains(m, "target epoch too far"):
		return "farFutureTarget"
	case strings.Contains(m, "source epoch too far"):
		return "farFutureSource"
	case strings.Contains(m, "slot too far"):
		return "farFutureSlot"
	case strings.Contains(m, "slot can not be 0"):
		return "slotZero"
	case strings.Contains(m, "highest attestation data is not found"):
		return "attMissing"
	case strings.Contains(m, "highest proposal data is not found"):
		return "propMissing"
	case strings.Contains(m, "slashable attestation"):
		return "slashableAtt"
	case strings.Contains(m, "slashable proposal"):
		return "slashableProp"
	}
	return "other"
}

func opErrTag(err error) string {
	switch {
	case err == nil:
		return "ok"
	case errors.Is(err, errFault):
		return "fault"
	case errors.Is(err, errAbort):
		return "aborted"
	}
	if _, ok := err.(panicErr); ok {
		return "panic"
	}
	return "err"
}

// ---------------------------------------------------------------- signed objects

func root32(b byte, salt uint64) (r [32]byte) {
	for i := range r {
		r[i] = b + byte(i)
	}
	for i := 0; i < 8; i++ {
		r[i] ^= byte(salt >> (8 * i))
	}
	return
}

func mkAtt(slot, s, t, salt uint64) *phase0.AttestationData {
	return &phase0.AttestationData{
		Slot: phase0.Slot(slot), Index: 1, BeaconBlockRoot: root32(1, salt),
		Source: &phase0.Checkpoint{Epoch: phase0.Epoch(s), Root: root32(2, salt)},
		Target: &phase0.Checkpoint{Epoch: phase0.Epoch(t), Root: root32(3, salt)},
	}
}

func mkBlock(slot, salt uint64) *capella.BeaconBlock {
	return &capella.BeaconBlock{
		Slot: phase0.Slot(slot), ProposerIndex: 1, ParentRoot: root32(4, salt), StateRoot: root32(5, salt),
		Body: &capella.BeaconBlockBody{
			ETH1Data:          &phase0.ETH1Data{BlockHash: make([]byte, 32)},
			Graffiti:          root32(6, salt),
			ProposerSlashings: []*phase0.ProposerSlashing{}, AttesterSlashings: []*phase0.AttesterSlashing{},
			Attestations: []*phase0.Attestation{}, Deposits: []*phase0.Deposit{}, VoluntaryExits: []*phase0.SignedVoluntaryExit{},
			SyncAggregate: &altair.SyncAggregate{SyncCommitteeBits: bitfield.NewBitvector512()},
			ExecutionPayload: &capella.ExecutionPayload{
				Transactions: []bellatrix.Transaction{}, Withdrawals: []*capella.Withdrawal{},
			},
			BLSToExecutionChanges: []*capella.SignedBLSToExecutionChange{},
		},
	}
}

func mkBlinded(slot, salt uint64) *apiv1capella.BlindedBeaconBlock {
	return &apiv1capella.BlindedBeaconBlock{
		Slot: phase0.Slot(slot), ProposerIndex: 1, ParentRoot: root32(4, salt), StateRoot: root32(5, salt),
		Body: &apiv1capella.BlindedBeaconBlockBody{
			ETH1Data:          &phase0.ETH1Data{BlockHash: make([]byte, 32)},
			Graffiti:          root32(7, salt),
			ProposerSlashings: []*phase0.ProposerSlashing{}, AttesterSlashings: []*phase0.AttesterSlashing{},
			Attestations: []*phase0.Attestation{}, Deposits: []*phase0.Deposit{}, VoluntaryExits: []*phase0.SignedVoluntaryExit{},
			SyncAggregate:          &altair.SyncAggregate{SyncCommitteeBits: bitfield.NewBitvector512()},
			ExecutionPayloadHeader: &capella.ExecutionPayloadHeader{},
			BLSToExecutionChanges:  []*capella.SignedBLSToExecutionChange{},
		},
	}
}

// ---------------------------------------------------------------- the driver

type H struct {
	run       *hx.Run
	w         *world
	cs        *caseState
	salt      uint64
	rng       *hx.Rng
	spe       uint64
	cur       string // the op line being executed
	hangs     int
	concHangs int // concurrent bursts that hung in the pinned library (observation; limits further bursts)
	sigCount  map[string]int

	delayed    *delayedOp // a lock-taking request issued while a paused bump holds the wallet lock
	delayedObs string     // its observation, once it has completed (reported by `resume`)
	delayedK   int        // share of the delayed request (generator bookkeeping)
	delayedSh  *share     // share of the delayed request
	abandoned  []*world   // wedged worlds (never closed; directories removed at exit)
}

// delayedOp: the request runs in its own goroutine (it blocks on the wallet lock); done() is run on the harness
// goroutine after the bump has finished and evaluates the oracle / builds the observation.
type delayedOp struct {
	ch   chan error
	done func(err error) string
}

// quiesce brings the world to rest before its database is closed / reopened or the next case starts: the in-flight
// bump is aborted (it returns without further writes and releases the wallet lock), the request that was waiting for
// it is joined (it runs now), and every other harness goroutine of the world has returned.
// It reports false when something did not come back within the watchdog (a hanging implementation): the caller then
// abandons the world instead of closing it.
func (h *H) quiesce() bool {
	return h.w.abortBump() && h.collectDelayed() && h.w.joinAll()
}

// call runs one call into the key manager under the per-op watchdog.
func (h *H) call(f func() error) error {
	ch := make(chan error, 1)
	h.w.spawn(func() { ch <- safely(f) })
	select {
	case err := <-ch:
		return err
	case <-time.After(opTimeout):
		return errHang
	}
}

// hangOp: the op did not complete although the model does not make it wait: observation `hang` (a model≠impl
// disagreement with this case as replay); the world is discarded and the case ends.
func (h *H) hangOp(line string) {
	h.run.Tag("hang:" + strings.Fields(line)[0])
	h.run.Seen("hang:" + strings.Fields(line)[0])
	h.emit(line, "hang")
	h.hangs++
	h.abandon()
}

// abandon: the signer of the current world is wedged (goroutines parked for ever inside the pinned library's lock).
// Its database is NOT closed (a goroutine could still be inside it) — it is left alone and its directory is removed
// when the process exits; a fresh world takes over.
func (h *H) abandon() {
	old := h.w
	h.abandoned = append(h.abandoned, old)
	h.delayed, h.delayedObs = nil, ""
	h.w = newWorld()
	h.w.net.slot.Store(old.net.slot.Load())
	h.cs = nil
}

// collectDelayed waits for the delayed request once the bump has released the lock. A request that does not
// come back is a HARNESS ERROR (the process exits non-zero), never a pass.
func (h *H) collectDelayed() bool {
	if h.delayed == nil {
		return true
	}
	select {
	case err := <-h.delayed.ch:
		h.delayedObs = h.delayed.done(err)
		h.delayed = nil
		return true
	case <-time.After(opTimeout):
		h.delayedObs = "hang" // the bump has finished but the waiting request still does not return
		h.delayed = nil
		return false
	}
}

// recordAtt / recordBlk: oracle for one RELEASED signature (pairwise against everything released before for the
// share, and "released => the record read back dominates it")
func (h *H) recordAtt(sh *share, s, t uint64) {
	if _, hs1, ht1, _, _ := h.w.records(sh); hs1 < s || ht1 < t {
		h.violate("C04/signature-released-without-persisted-mark", hx.Sprintf("attestation (%d,%d) was released but the stored highest attestation is (%d,%d)", s, t, hs1, ht1))
	}
	na := relAtt{s, t, len(h.cs.lines)}
	for _, o := range sh.atts {
		if k := slashKind(o, na); k != "" {
			h.reportPair(sh.uncoveredAtt(o, na.line), k, hx.Sprintf("attestations (%d,%d) and (%d,%d) both signed for one share", o.s, o.t, s, t))
		}
	}
	sh.atts = append(sh.atts, na)
}

func (h *H) recordBlk(sh *share, slot uint64) {
	if _, _, _, _, hp1 := h.w.records(sh); hp1 < slot {
		h.violate("C04/signature-released-without-persisted-mark", hx.Sprintf("block at slot %d was released but the stored highest proposal is %d", slot, hp1))
	}
	nb := relBlk{slot, len(h.cs.lines)}
	for _, o := range sh.blocks {
		if o.slot == slot {
			h.reportPair(sh.uncoveredBlk(o, nb.line), "double-proposal", hx.Sprintf("two blocks signed for slot %d for one share", slot))
		}
	}
	sh.blocks = append(sh.blocks, nb)
}

// issueDelayed: a lock-taking request while the paused bump holds the wallet lock for writing: the real request is
// started in a goroutine (it blocks inside the key manager), the op is observed as `blocked`, and it is expected to
// complete only after the bump has finished (collectDelayed). One waiting request at a time.
func (h *H) issueDelayed(line string, ws []string, sh *share) {
	w := h.w
	if h.delayed != nil || h.delayedObs != "" {
		h.emit(line, "badop "+w.readback(sh))
		return
	}
	var call func() error
	var done func(err error) string
	switch ws[0] {
	case "add":
		call = func() error { return w.km.AddShare(sh.sk) }
		done = func(err error) string { return opErrTag(err) }
	case "remove":
		call = func() error { return w.km.RemoveShare(hx.Hex(sh.pk)) }
		done = func(err error) string { return opErrTag(err) }
	case "bump":
		call = func() error { return w.km.(ekm.StorageProvider).BumpSlashingProtection(sh.pk) }
		done = func(err error) string { return opErrTag(err) }
	case "satt":
		s, _ := kvOf(ws, "s")
		t, _ := kvOf(ws, "t")
		h.salt++
		att := mkAtt(h.clock(), s, t, h.salt)
		call = func() error {
			sig, _, err := w.km.SignBeaconObject(att, phase0.Domain{}, sh.pk, spectypes.DomainAttester)
			if err == nil && len(sig) == 0 {
				return errors.New("empty signature")
			}
			return err
		}
		done = func(err error) string {
			if err != nil {
				return "refused:" + refuseTag(err)
			}
			h.recordAtt(sh, s, t)
			return "signed"
		}
	case "sblk":
		slot, _ := kvOf(ws, "slot")
		h.salt++
		var obj ssz.HashRoot = mkBlock(slot, h.salt)
		if kvStr(ws, "kind") == "blind" {
			obj = mkBlinded(slot, h.salt)
		}
		call = func() error {
			sig, _, err := w.km.SignBeaconObject(obj, phase0.Domain{}, sh.pk, spectypes.DomainProposer)
			if err == nil && len(sig) == 0 {
				return errors.New("empty signature")
			}
			return err
		}
		done = func(err error) string {
			if err != nil {
				return "refused:" + refuseTag(err)
			}
			h.recordBlk(sh, slot)
			return "signed"
		}
	default: // fault-injecting variants and concurrent blocks are not issued behind a bump
		h.emit(line, "badop "+w.readback(sh))
		return
	}
	d := &delayedOp{ch: make(chan error, 1), done: done}
	w.spawn(func() { d.ch <- safely(call) })
	h.delayed = d
	h.delayedSh = sh
	h.run.Seen("delayed:" + ws[0])
	h.run.Tag("delayed-behind-bump")
	h.emit(line, "blocked "+w.readback(sh))
}

// each hang costs a timeout and an abandoned signer; after this many the concurrent requests stop
const maxHangs = 8

func kvOf(ws []string, k string) (uint64, bool) {
	for _, x := range ws {
		if strings.HasPrefix(x, k+"=") {
			v, err := strconv.ParseUint(x[len(k)+1:], 10, 64)
			return v, err == nil
		}
	}
	return 0, false
}
func kvStr(ws []string, k string) string {
	for _, x := range ws {
		if strings.HasPrefix(x, k+"=") {
			return x[len(k)+1:]
		}
	}
	return ""
}

func (h *H) emit(line, obs string) {
	h.cs.lines = append(h.cs.lines, line)
	h.run.Emit(line, obs)
}

func (h *H) clock() uint64 { return h.w.net.slot.Load() }
func (h *H) epoch() uint64 { return h.clock() / h.spe }

// violate records an oracle violation with the case's op lines up to and including the current one
func (h *H) violate(sig, detail string) {
	h.sigCount[sig]++
	h.run.Tag("oracle:" + sig)
	if h.sigCount[sig] > 3 { // keep room in the (capped) violation list for other cause signatures
		return
	}
	h.run.Violate(sig, detail, append(append([]string(nil), h.cs.lines...), h.cur)...)
}

func (h *H) newShare() *share {
	sk := &bls.SecretKey{}
	for {
		if err := sk.SetLittleEndianMod(h.rng.Bytes(32)); err == nil && !sk.IsZero() {
			break
		}
	}
	return &share{sk: sk, pk: sk.GetPublicKey().Serialize()}
}

// waitBump hands the turn to the split-bump goroutine and waits for its next event.
func (h *H) waitBump() string {
	var e string
	select {
	case e = <-h.w.ev:
	case <-time.After(opTimeout):
		return "hang" // the bump neither reached its next pause point nor returned
	}
	h.w.turnBump.Store(false)
	if strings.HasPrefix(e, "at:") {
		h.w.at = e[3:]
		return "pending"
	}
	h.w.at = ""
	return e[5:]
}

func (h *H) doOp(line string) {
	ws := strings.Fields(line)
	if len(ws) == 0 {
		return
	}
	run, w := h.run, h.w
	h.cur = line
	if ws[0] == "realclock" {
		realClockProbe(run)
		return
	}
	if ws[0] == "reset" {
		// a new self-contained case: fresh share keys on the SAME database, clock set by the line
		if !h.quiesce() {
			h.abandon()
			w = h.w
		}
		h.delayedObs = ""
		n, _ := kvOf(ws, "shares")
		c, _ := kvOf(ws, "clock")
		h.cs = &caseState{kind: kvStr(ws, "kind"), bumpK: -1}
		for i := uint64(0); i < n; i++ {
			h.cs.shares = append(h.cs.shares, h.newShare())
		}
		w.net.slot.Store(c)
		h.emit(line, "ok")
		return
	}
	if h.cs == nil {
		return // the case was abandoned (hang): skip to the next reset
	}
	cs := h.cs
	run.Tag("op:" + ws[0])
	var sh *share
	if k, ok := kvOf(ws, "k"); ok {
		if int(k) >= len(cs.shares) {
			panic("bad share index: " + line)
		}
		sh = cs.shares[k]
	}
	switch ws[0] {
	case "add", "addfail", "remove", "removefail", "bump", "satt", "sattf", "sblk", "sblkf", "conc", "xconc":
		// Will the request have to wait? Probed on the real lock (TryLock / TryRLock), not assumed: sign requests take the
		// wallet lock for reading, add / remove / bump for writing. A request that does not have to wait is executed
		// right away even if a bump is paused (its observation is then what the real code does; the model says `blocked`).
		if w.at != "" {
			held, readersBlock := ekm.VerifWalletState(w.km)
			needsWrite := !strings.HasPrefix(ws[0], "s") && ws[0] != "conc" && ws[0] != "xconc"
			if readersBlock || (needsWrite && held) {
				h.issueDelayed(line, ws, sh)
				return
			}
			run.Tag("request-not-blocked-by-paused-bump")
		}
	}
	switch ws[0] {
	case "resume":
		if h.delayedObs == "" || h.delayedSh != sh {
			h.emit(line, "badop "+w.readback(sh))
			return
		}
		obs := h.delayedObs
		h.delayedObs = ""
		h.emit(line, obs+" "+w.readback(sh)) // outcome of the delayed request + the records as they are now
	case "tick":
		dt, _ := kvOf(ws, "dt")
		w.net.slot.Add(dt)
		h.emit(line, "ok")
	case "restart":
		inflight := w.at != ""
		if !h.quiesce() { // the in-flight bump is aborted, a request that was waiting for it runs now (before the process goes down)
			h.hangOp(line)
			return
		}
		before := make([]string, len(cs.shares))
		for i, s := range cs.shares {
			before[i] = w.readback(s)
		}
		w.restart()
		cs.bumpK = -1
		for i, s := range cs.shares {
			if after := w.readback(s); after != before[i] {
				h.violate("C04/restart-changed-durable-state", hx.Sprintf("share %d: %s -> %s", i, before[i], after))
			}
		}
		run.Seen(hx.Sprintf("restart:inflight=%v", inflight))
		h.emit(line, "ok")
	case "add", "addfail":
		if ws[0] == "addfail" {
			n, _ := kvOf(ws, "n")
			w.failCall = map[bool]string{true: "saveAtt", false: "saveProp"}[n == 0]
		}
		w.failHit = false
		had := ekm.VerifHasAccountNoLock(w.km, sh.pk)
		err := h.call(func() error { return w.km.AddShare(sh.sk) })
		w.failCall = ""
		if errors.Is(err, errHang) {
			h.hangOp(line)
			return
		}
		run.Seen(hx.Sprintf("%s:had=%v:%s:hit=%v", ws[0], had, opErrTag(err), w.failHit))
		h.emit(line, opErrTag(err)+" "+w.readback(sh))
	case "remove", "removefail":
		if ws[0] == "removefail" {
			n, _ := kvOf(ws, "n")
			w.failCall = map[bool]string{true: "rmAtt", false: "rmProp"}[n == 0]
		}
		w.failHit = false
		had := ekm.VerifHasAccountNoLock(w.km, sh.pk)
		err := h.call(func() error { return w.km.RemoveShare(hx.Hex(sh.pk)) })
		w.failCall = ""
		if errors.Is(err, errHang) {
			h.hangOp(line)
			return
		}
		run.Seen(hx.Sprintf("%s:had=%v:%s", ws[0], had, opErrTag(err)))
		h.emit(line, opErrTag(err)+" "+w.readback(sh))
	case "bump":
		hasA, _, _, hasP, _ := w.records(sh)
		err := h.call(func() error { return w.km.(ekm.StorageProvider).BumpSlashingProtection(sh.pk) })
		if errors.Is(err, errHang) {
			h.hangOp(line)
			return
		}
		run.Seen(hx.Sprintf("bump:att=%v:prop=%v:%s", hasA, hasP, opErrTag(err)))
		h.emit(line, opErrTag(err)+" "+w.readback(sh))
	case "bbegin":
		if w.at != "" {
			h.emit(line, "badop "+w.readback(sh))
			return
		}
		cs.bumpK = indexOf(cs.shares, sh)
		cs.bumpAt0 = h.clock()
		w.turnBump.Store(true)
		pk := sh.pk
		w.spawn(func() {
			w.bumpGID.Store(goid())
			err := safely(func() error { return w.km.(ekm.StorageProvider).BumpSlashingProtection(pk) })
			w.bumpGID.Store(0)
			w.ev <- "done:" + opErrTag(err)
		})
		if res := h.waitBump(); res == "hang" {
			h.hangOp(line)
		} else {
			h.emit(line, res+" "+w.readback(sh))
		}
	case "bread", "bwrite":
		want := map[string]bool{"clock": true, "retrAtt": true, "retrProp": true}
		if ws[0] == "bwrite" {
			want = map[string]bool{"saveAtt": true, "saveProp": true}
		}
		if !want[w.at] || cs.bumpK != indexOf(cs.shares, sh) {
			h.emit(line, "badop "+w.readback(sh))
			return
		}
		hasA, hs0, ht0, hasP, hp0 := w.records(sh)
		res := "pending"
		if w.at == "clock" { // from "clock read" to "about to read the attestation record": nothing observable happens
			w.rel <- nil
			res = h.waitBump()
		}
		at := w.at
		if res == "pending" {
			w.turnBump.Store(true)
			w.rel <- nil
			res = h.waitBump()
		}
		if res == "hang" {
			h.hangOp(line)
			return
		}
		if res != "pending" {
			cs.bumpK = -1
		}
		_, hs1, ht1, _, hp1 := w.records(sh)
		if res != "pending" && !h.collectDelayed() { // the bump has released the wallet lock: the waiting request executes now
			h.hangOp(line)
			return
		}
		stale := h.clock() != cs.bumpAt0
		if at == "saveAtt" && hasA && (hs1 < hs0 || ht1 < ht0) || at == "saveProp" && hasP && hp1 < hp0 {
			run.Tag("bump-write-lowered-record")
			if stale {
				sh.lowerings = append(sh.lowerings, lowering{line: len(cs.lines), att: at == "saveAtt", hs: hs1, ht: ht1, hp: hp1})
			}
		}
		run.Seen(hx.Sprintf("%s:%s:%s:stale=%v", ws[0], at, res, stale))
		h.emit(line, res+" "+w.readback(sh))
	case "satt", "sattf":
		mode := kvStr(ws, "mode")
		s, _ := kvOf(ws, "s")
		t, _ := kvOf(ws, "t")
		h.salt++
		att := mkAtt(h.clock(), s, t, h.salt)
		hasA, hs, ht, _, _ := w.records(sh)
		chk := "ok"
		if ws[0] == "sattf" {
			w.dbFault, w.dbFaultHit = mode, false
		}
		var sig spectypes.Signature
		err := h.call(func() error {
			if e := w.km.(spectypes.BeaconSigner).IsAttestationSlashable(sh.pk, att); e != nil {
				chk = refuseTag(e)
			}
			var e error
			sig, _, e = w.km.SignBeaconObject(att, phase0.Domain{}, sh.pk, spectypes.DomainAttester)
			return e
		})
		w.dbFault = ""
		if errors.Is(err, errHang) {
			h.hangOp(line)
			return
		}
		out := "signed"
		if err != nil {
			out = "refused:" + refuseTag(err)
			if w.dbFaultHit {
				out = "refused:writeFailed"
			}
		} else if len(sig) == 0 {
			out = "empty-signature"
		}
		if ws[0] == "sattf" && mode == "close" {
			if !h.quiesce() {
				h.hangOp(line)
				return
			}
			w.restart() // reopen the same database (the process that was shutting down is gone)
			cs.bumpK = -1
		}
		if ws[0] == "sattf" {
			run.Seen(hx.Sprintf("sattf:%s:hit=%v:%s", mode, w.dbFaultHit, out))
		}
		w.dbFaultHit = false
		wf := s < t && t <= h.epoch()
		if err == nil {
			if !hasA {
				h.violate("C04/signed-with-missing-attestation-record", hx.Sprintf("attestation (%d,%d) signed while no highest-attestation record existed", s, t))
			}
			h.recordAtt(sh, s, t)
		}
		cls := "none"
		if hasA {
			cls = hx.Sprintf("s%s,t%s", cmp3(s, hs), cmp3(t, ht))
		}
		run.Seen(hx.Sprintf("satt:%s:wf=%v:%s:chk=%s", cls, wf, out, chk))
		run.Tag("satt:" + out)
		h.emit(line, out+" chk="+chk+" "+w.readback(sh))
	case "sblk", "sblkf":
		mode := kvStr(ws, "mode")
		slot, _ := kvOf(ws, "slot")
		kind := kvStr(ws, "kind")
		h.salt++
		var obj ssz.HashRoot
		if kind == "blind" {
			obj = mkBlinded(slot, h.salt)
		} else {
			obj = mkBlock(slot, h.salt)
		}
		_, _, _, hasP, hp := w.records(sh)
		chk := "ok"
		if ws[0] == "sblkf" {
			w.dbFault, w.dbFaultHit = mode, false
		}
		var sig spectypes.Signature
		err := h.call(func() error {
			if e := w.km.(spectypes.BeaconSigner).IsBeaconBlockSlashable(sh.pk, phase0.Slot(slot)); e != nil {
				chk = refuseTag(e)
			}
			var e error
			sig, _, e = w.km.SignBeaconObject(obj, phase0.Domain{}, sh.pk, spectypes.DomainProposer)
			return e
		})
		w.dbFault = ""
		if errors.Is(err, errHang) {
			h.hangOp(line)
			return
		}
		out := "signed"
		if err != nil {
			out = "refused:" + refuseTag(err)
			if w.dbFaultHit {
				out = "refused:writeFailed"
			}
		} else if len(sig) == 0 {
			out = "empty-signature"
		}
		if ws[0] == "sblkf" && mode == "close" {
			if !h.quiesce() {
				h.hangOp(line)
				return
			}
			w.restart()
			cs.bumpK = -1
		}
		if ws[0] == "sblkf" {
			run.Seen(hx.Sprintf("sblkf:%s:hit=%v:%s", mode, w.dbFaultHit, out))
		}
		w.dbFaultHit = false
		if err == nil {
			if !hasP {
				h.violate("C04/signed-with-missing-proposal-record", hx.Sprintf("block at slot %d signed while no highest-proposal record existed", slot))
			}
			h.recordBlk(sh, slot)
		}
		cls := "none"
		if hasP {
			cls = "p" + cmp3(slot, hp)
		}
		run.Seen(hx.Sprintf("sblk:%s:%s:wf=%v:%s:chk=%s", kind, cls, slot <= h.clock(), out, chk))
		run.Tag("sblk:" + out)
		h.emit(line, out+" chk="+chk+" "+w.readback(sh))
	case "conc":
		h.doConc(line, ws, sh)
	case "xconc":
		h.doXconc(line, ws, sh)
	default:
		panic("unknown op: " + line)
	}
}

func cmp3(a, b uint64) string {
	switch {
	case a < b:
		return "<"
	case a == b:
		return "="
	}
	return ">"
}

func indexOf(xs []*share, s *share) int {
	for i, x := range xs {
		if x == s {
			return i
		}
	}
	return -1
}

// reportPair classifies a slashable pair of RELEASED signatures.
//
//	wf case            -> violation (the property's quantifier is met)
//	race case          -> violation with the stale-bump cause signature when a split bump's write lowered a record
//	                      after the clock had advanced; otherwise the generic signature
//	malformed case     -> outside the property's quantifier (target/slot beyond the clock, source >= target):
//	                      recorded as an observation only
func (h *H) reportPair(staleBump bool, kind, detail string) {
	switch h.cs.kind {
	case "malformed":
		h.run.Tag("excluded-point:slashable-pair:" + kind)
		if _, ok := h.run.Extra["excluded_point_example"]; !ok {
			h.run.Extra["excluded_point_example"] = append(append([]string(nil), h.cs.lines...), h.cur, "# "+detail)
		}
	default:
		if staleBump {
			h.violate("C04/stale-bump-write-lowers-record/"+kind, detail+" — a BumpSlashingProtection that read the clock before it advanced wrote its (older) minimal record over a newer one")
		} else {
			h.violate("C04/slashable-pair/"+kind, detail)
		}
	}
}

// doConc: n concurrent sign requests for one share (thorough tier). Outcomes are not deterministic, so the op
// line carries the observed outcome bits and the model answers whether SOME sequential order of the requests
// explains them (linearizability) and continues from the resulting state. A hang (the pinned library's
// lock()/unlock() pair can deadlock on overlapping requests for one account) is an observation: the signer
// instance is abandoned, nothing is emitted for the op and a new case starts on a new database.
func (h *H) doConc(line string, ws []string, sh *share) {
	reqs := strings.Split(kvStr(ws, "reqs"), ";")
	type res struct {
		i  int
		ok bool
	}
	ch := make(chan res, len(reqs))
	atts := make([]relAtt, len(reqs))
	for i, rq := range reqs {
		p := strings.Split(rq, ":")
		s, _ := strconv.ParseUint(p[0], 10, 64)
		t, _ := strconv.ParseUint(p[1], 10, 64)
		atts[i] = relAtt{s: s, t: t}
		h.salt++
		att := mkAtt(h.clock(), s, t, h.salt)
		i, w := i, h.w
		w.spawn(func() {
			err := safely(func() error {
				_, _, err := w.km.SignBeaconObject(att, phase0.Domain{}, sh.pk, spectypes.DomainAttester)
				return err
			})
			ch <- res{i, err == nil}
		})
	}
	got := make([]byte, len(reqs))
	for i := range got {
		got[i] = '?'
	}
	deadline := time.After(3 * time.Second)
	for n := 0; n < len(reqs); n++ {
		select {
		case r := <-ch:
			got[r.i] = map[bool]byte{true: '1', false: '0'}[r.ok]
		case <-deadline:
			n = len(reqs)
		}
	}
	released := 0
	for i, g := range got {
		if g == '1' {
			released++
			na := atts[i]
			na.line = len(h.cs.lines)
			for _, o := range sh.atts {
				if k := slashKind(o, na); k != "" {
					h.reportPair(false, k, hx.Sprintf("attestations (%d,%d) and (%d,%d) both signed for one share (concurrent requests)", o.s, o.t, na.s, na.t))
				}
			}
			sh.atts = append(sh.atts, na)
		}
	}
	if strings.Contains(string(got), "?") {
		h.run.Tag("conc:hang")
		h.concHangs++
		n, _ := h.run.Extra["concurrent_hangs"].(int)
		h.run.Extra["concurrent_hangs"] = n + 1
		if _, ok := h.run.Extra["concurrent_hang_example"]; !ok {
			h.run.Extra["concurrent_hang_example"] = append(append([]string(nil), h.cs.lines...), line+" got="+string(got))
		}
		// the signer is wedged (goroutines parked inside the library hold its locks): abandon it
		h.abandon()
		return
	}
	h.run.Tag(hx.Sprintf("conc:done:released=%d", released))
	h.run.Seen(hx.Sprintf("conc:n=%d:released=%d", len(reqs), released))
	h.emit(line+" got="+string(got), "lin "+h.w.readback(sh))
}

// doXconc: share k keeps requesting attestations / blocks that its OWN stored records refuse (same target with another
// root or source, lower source, already signed slot) while one goroutine per OTHER share hammers the read-only
// pre-checks IsAttestationSlashable / IsBeaconBlockSlashable of that share (what runners do during consensus).
// Every request must be refused, so the op changes nothing (the model runs each listed request once). Oracle:
// pairwise slashability of everything released for the share. Requests run under a timeout (a hang is an observation).
func (h *H) doXconc(line string, ws []string, sh *share) {
	w, cs := h.w, h.cs
	n, _ := kvOf(ws, "n")
	var reqs []relAtt
	if rs := kvStr(ws, "reqs"); rs != "" && rs != "-" {
		for _, rq := range strings.Split(rs, ";") {
			p := strings.Split(rq, ":")
			s, _ := strconv.ParseUint(p[0], 10, 64)
			t, _ := strconv.ParseUint(p[1], 10, 64)
			reqs = append(reqs, relAtt{s: s, t: t})
		}
	}
	var slots []uint64
	if ss := kvStr(ws, "slots"); ss != "" && ss != "-" {
		for _, x := range strings.Split(ss, ";") {
			v, _ := strconv.ParseUint(x, 10, 64)
			slots = append(slots, v)
		}
	}
	var stop atomic.Bool
	done := make(chan struct{}, len(cs.shares))
	others := 0
	clock, epoch := h.clock(), h.epoch()
	for _, o := range cs.shares {
		if o == sh {
			continue
		}
		others++
		pk := o.pk
		w.spawn(func() {
			_ = safely(func() error {
				probe := mkAtt(clock, epoch, epoch+1, 7)
				bs := w.km.(spectypes.BeaconSigner)
				for !stop.Load() {
					_ = bs.IsAttestationSlashable(pk, probe)
					_ = bs.IsBeaconBlockSlashable(pk, phase0.Slot(clock+1))
				}
				return nil
			})
			done <- struct{}{}
		})
	}
	hung := false
	released := 0
	type res struct{ ok bool }
	call := func(f func() error) (ok, hang bool) {
		ch := make(chan error, 1)
		w.spawn(func() { ch <- safely(f) })
		select {
		case err := <-ch:
			return err == nil, false
		case <-time.After(5 * time.Second):
			return false, true
		}
	}
	total := len(reqs) + len(slots)
	for i := 0; i < int(n) && total > 0 && !hung; i++ {
		j := i % total
		h.salt++
		if j < len(reqs) {
			rq := reqs[j]
			att := mkAtt(clock, rq.s, rq.t, h.salt)
			ok, hang := call(func() error {
				_, _, err := w.km.SignBeaconObject(att, phase0.Domain{}, sh.pk, spectypes.DomainAttester)
				return err
			})
			hung = hang
			if ok {
				released++
				na := relAtt{rq.s, rq.t, len(cs.lines)}
				for _, o := range sh.atts {
					if k := slashKind(o, na); k != "" {
						h.violate("C04/slashable-pair/"+k+":concurrent-other-share", hx.Sprintf("attestations (%d,%d) and (%d,%d) both signed for one share; the second while other shares were being pre-checked concurrently (attempt %d)", o.s, o.t, na.s, na.t, i))
					}
				}
				sh.atts = append(sh.atts, na)
			}
		} else {
			slot := slots[j-len(reqs)]
			var obj ssz.HashRoot = mkBlock(slot, h.salt)
			if i%2 == 1 {
				obj = mkBlinded(slot, h.salt)
			}
			ok, hang := call(func() error {
				_, _, err := w.km.SignBeaconObject(obj, phase0.Domain{}, sh.pk, spectypes.DomainProposer)
				return err
			})
			hung = hang
			if ok {
				released++
				for _, o := range sh.blocks {
					if o.slot == slot {
						h.violate("C04/slashable-pair/double-proposal:concurrent-other-share", hx.Sprintf("two blocks signed for slot %d for one share; the second while other shares were being pre-checked concurrently (attempt %d)", slot, i))
					}
				}
				sh.blocks = append(sh.blocks, relBlk{slot, len(cs.lines)})
			}
		}
	}
	stop.Store(true)
	if hung {
		h.run.Tag("xconc:hang")
		h.concHangs++
		h.abandon()
		return
	}
	for i := 0; i < others; i++ {
		<-done
	}
	h.run.Tag(hx.Sprintf("xconc:released=%d", hx.Min(released, 2)))
	h.run.Seen(hx.Sprintf("xconc:others=%d:reqs=%d:slots=%d:released=%v", others, hx.Min(len(reqs), 3), hx.Min(len(slots), 2), released > 0))
	h.emit(line, "ok "+w.readback(sh))
}

// genXconcCase: >= 3 shares with DIFFERENT records: the others keep the record of their registration, share 0 signs
// an attestation and a block above it; then share 0 is asked for conflicting objects while the others are pre-checked.
func (h *H) genXconcCase() {
	r := h.rng
	nsh := 3 + r.Intn(3)
	c0 := uint64(2+r.Intn(40))*h.spe + uint64(r.Intn(int(h.spe)))
	h.doOp(hx.Sprintf("reset kind=wf shares=%d clock=%d spe=%d ffe=%d ffs=%d", nsh, c0, h.spe, smallEpoch, smallSlot))
	for k := 0; k < nsh; k++ {
		h.doOp(hx.Sprintf("add k=%d", k))
	}
	h.doOp(hx.Sprintf("tick dt=%d", int(h.spe)*(2+r.Intn(2))))
	e := h.epoch()
	s0 := e - 1 - uint64(r.Intn(2))
	h.doOp(hx.Sprintf("satt k=0 s=%d t=%d", s0, e))
	h.doOp(hx.Sprintf("sblk k=0 slot=%d kind=full", h.clock()))
	blk := h.clock()
	if r.Chance(50) {
		h.doOp(hx.Sprintf("tick dt=%d", int(h.spe)))
	}
	e2 := h.epoch()
	// all refused by share 0's own record (s0,e) / blk, all accepted by the others' older records
	reqs := []string{hx.Sprintf("%d:%d", s0, e)}
	if s0 > 0 {
		reqs = append(reqs, hx.Sprintf("%d:%d", s0-1, e)) // same target, other source
	}
	if e2 > e && s0 > 0 {
		reqs = append(reqs, hx.Sprintf("%d:%d", s0-1, e2)) // would surround (s0,e)
	}
	h.doOp(hx.Sprintf("xconc k=0 n=%d reqs=%s slots=%d", 400+r.Intn(300), strings.Join(reqs, ";"), blk))
	if h.cs != nil {
		h.doOp(hx.Sprintf("satt k=1 s=%d t=%d", e2-1, e2))
		h.run.Tag("case:xconc")
	}
}

// ---------------------------------------------------------------- generator

func (h *H) genCase(idx int) {
	r := h.rng
	kind := "wf"
	switch x := r.Intn(100); {
	case x < 22:
		kind = "race"
	case x < 40:
		kind = "malformed"
	}
	nsh := 1 + r.Intn(2)
	var c0 uint64
	switch r.Intn(12) {
	case 0:
		c0 = 0
	case 1:
		c0 = uint64(r.Intn(int(h.spe)))
	default:
		c0 = uint64(1+r.Intn(40))*h.spe + uint64(r.Intn(int(h.spe)))
	}
	h.doOp(hx.Sprintf("reset kind=%s shares=%d clock=%d spe=%d ffe=%d ffs=%d", kind, nsh, c0, h.spe, smallEpoch, smallSlot))
	for k := 0; k < nsh; k++ { // most histories start with the share registered
		if r.Chance(88) {
			h.doOp(hx.Sprintf("add k=%d", k))
		}
	}
	if r.Chance(70) {
		h.doOp(hx.Sprintf("tick dt=%d", r.Pick(1, 31, 32, 33, 64)))
	}
	if kind == "race" && r.Chance(55) {
		h.racePrologue(r.Intn(nsh))
	}
	nops := 18 + r.Intn(24)
	concOK := h.run.Tier == "thorough" && kind == "wf" && r.Chance(15)
	for i := 0; i < nops && h.cs != nil; i++ {
		k := r.Intn(nsh)
		sh := h.cs.shares[k]
		hasA, hs, ht, hasP, hp := h.w.records(sh)
		e, c := h.epoch(), h.clock()
		x := r.Intn(100)
		inflight := h.w.at != ""
		if !ekm.VerifHasAccountNoLock(h.w.km, sh.pk) && r.Chance(30) {
			x = 0 // re-register a removed / never added share
		}
		if h.delayedObs != "" { // the request that waited behind the bump has completed: collect its outcome
			h.doOp(hx.Sprintf("resume k=%d", h.delayedK))
			continue
		}
		if inflight {
			// a bump is in flight (it holds the wallet lock): advance it, advance the clock, restart, or issue ONE
			// lock-taking request that has to wait for it
			bk := h.cs.bumpK
			switch y := r.Intn(100); {
			case y < 50:
				op := "bread"
				if h.w.at == "saveAtt" || h.w.at == "saveProp" {
					op = "bwrite"
				}
				if r.Chance(4) { // wrong step: not applicable
					op = map[string]string{"bread": "bwrite", "bwrite": "bread"}[op]
				}
				h.doOp(hx.Sprintf("%s k=%d", op, bk))
			case y < 72:
				h.doOp(hx.Sprintf("tick dt=%d", r.Pick(1, 1, 2, 31, 32, 32, 33, 64)))
			case y < 75:
				h.doOp("restart")
			case y < 78:
				h.doOp(hx.Sprintf("bbegin k=%d", k)) // not applicable: one already in flight
			default:
				if h.delayed != nil && !r.Chance(10) {
					continue
				}
				if h.delayed == nil {
					h.delayedK = k
				}
				switch z := r.Intn(10); {
				case z < 4:
					s, t := h.genAtt(hasA, hs, ht, e, h.cs.kind == "malformed")
					if h.cs.kind != "malformed" && !(s < t && t <= e) {
						continue
					}
					h.doOp(hx.Sprintf("satt k=%d s=%d t=%d", k, s, t))
				case z < 7:
					slot := c
					if hasP && r.Chance(40) {
						slot = hp
					}
					h.doOp(hx.Sprintf("sblk k=%d slot=%d kind=%s", k, slot, map[bool]string{true: "blind", false: "full"}[r.Chance(35)]))
				case z < 8:
					h.doOp(hx.Sprintf("add k=%d", k))
				case z < 9:
					h.doOp(hx.Sprintf("remove k=%d", k))
				default:
					h.doOp(hx.Sprintf("bump k=%d", k))
				}
			}
			continue
		}
		switch {
		case x < 8:
			h.doOp(hx.Sprintf("add k=%d", k))
		case x < 12:
			h.doOp(hx.Sprintf("remove k=%d", k))
		case x < 14:
			h.doOp(hx.Sprintf("removefail k=%d n=%d", k, r.Intn(2)))
		case x < 16:
			h.doOp(hx.Sprintf("addfail k=%d n=%d", k, r.Intn(2)))
		case x < 21:
			h.doOp(hx.Sprintf("bump k=%d", k))
		case x < 27:
			if !inflight {
				h.doOp(hx.Sprintf("bbegin k=%d", k))
			} else {
				h.doOp(hx.Sprintf("bump k=%d", k))
			}
		case x < 29:
			h.doOp("restart")
		case x < 44:
			h.doOp(hx.Sprintf("tick dt=%d", r.Pick(1, 1, 2, 5, 31, 32, 32, 32, 33, 64, 100)))
		case x < 78:
			if concOK && hasA && r.Chance(20) && !inflight && h.concHangs < maxHangs {
				var rq []string
				for j := 0; j < 2+r.Intn(2); j++ {
					s, t := h.genAtt(hasA, hs, ht, e, false)
					if s < t && t <= e {
						rq = append(rq, hx.Sprintf("%d:%d", s, t))
					}
				}
				if len(rq) >= 2 {
					h.doOp(hx.Sprintf("conc k=%d reqs=%s", k, strings.Join(rq, ";")))
					continue
				}
			}
			s, t := h.genAtt(hasA, hs, ht, e, h.cs.kind == "malformed")
			if h.cs.kind != "malformed" && !(s < t && t <= e) {
				continue
			}
			if r.Chance(5) {
				h.doOp(hx.Sprintf("sattf k=%d s=%d t=%d mode=%s", k, s, t, map[bool]string{true: "close", false: "err"}[r.Chance(35)]))
				continue
			}
			h.doOp(hx.Sprintf("satt k=%d s=%d t=%d", k, s, t))
		default:
			var slot uint64
			switch y := r.Intn(10); {
			case y < 3:
				slot = c
			case y < 4 && c > 0:
				slot = c - 1
			case y < 6 && hasP:
				slot = hp + 1
			case y < 7 && hasP:
				slot = hp
			case y < 8 && c > 0:
				slot = uint64(r.Intn(int(c)))
			case y < 9:
				slot = 0
			default:
				slot = c
			}
			if h.cs.kind == "malformed" && r.Chance(40) {
				slot = c + uint64(r.Pick(1, 1, 2, 40))
				if r.Chance(10) {
					slot = farSlot
				}
			}
			if h.cs.kind != "malformed" && slot > c {
				slot = c
			}
			bk := map[bool]string{true: "blind", false: "full"}[r.Chance(35)]
			if r.Chance(5) {
				h.doOp(hx.Sprintf("sblkf k=%d slot=%d kind=%s mode=%s", k, slot, bk, map[bool]string{true: "close", false: "err"}[r.Chance(35)]))
				continue
			}
			h.doOp(hx.Sprintf("sblk k=%d slot=%d kind=%s", k, slot, bk))
		}
	}
	if h.cs != nil {
		released := 0
		for _, s := range h.cs.shares {
			released += len(s.atts) + len(s.blocks)
		}
		h.run.Tag("case:" + h.cs.kind)
		h.run.Tag(hx.Sprintf("case-released:%d", hx.Min(released/4*4, 16)))
	}
}

// racePrologue scripts the interleaving the random walk rarely finds: a split BumpSlashingProtection reads the
// clock and an outdated record, the clock advances, a sign request arrives (it has to wait for the bump), the bump
// writes its by now stale minimal record and finishes, the request is signed, conflicting requests for the same
// target / slot follow. All values are drawn; the ops go through doOp like any other.
func (h *H) racePrologue(k int) {
	r := h.rng
	h.doOp(hx.Sprintf("add k=%d", k))
	h.doOp(hx.Sprintf("tick dt=%d", int(h.spe)*(2+r.Intn(3))+r.Intn(int(h.spe))))
	h.doOp(hx.Sprintf("bbegin k=%d", k))
	h.doOp(hx.Sprintf("bread k=%d", k))
	h.doOp(hx.Sprintf("tick dt=%d", int(h.spe)*(1+r.Intn(2))))
	e := h.epoch()
	c := h.clock()
	if r.Chance(50) {
		h.doOp(hx.Sprintf("satt k=%d s=%d t=%d", k, e-1, e)) // waits for the bump (before the fix: signed at once)
	} else {
		h.doOp(hx.Sprintf("sblk k=%d slot=%d kind=full", k, c))
	}
	for i := 0; i < 6 && h.w.at != ""; i++ { // let the bump finish: write att, read prop, write prop
		op := "bread"
		if h.w.at == "saveAtt" || h.w.at == "saveProp" {
			op = "bwrite"
		}
		h.doOp(hx.Sprintf("%s k=%d", op, k))
	}
	if h.delayedObs != "" {
		h.doOp(hx.Sprintf("resume k=%d", k))
	}
	// conflicting requests: all must be refused now
	if e >= 2 {
		h.doOp(hx.Sprintf("satt k=%d s=%d t=%d", k, e-2, e))
		h.doOp(hx.Sprintf("satt k=%d s=%d t=%d", k, e-1, e))
	}
	h.doOp(hx.Sprintf("sblk k=%d slot=%d kind=blind", k, c))
}

// genAtt draws (source, target) at, just below and (malformed) above the clock / the stored record.
func (h *H) genAtt(hasA bool, hs, ht, e uint64, malformed bool) (uint64, uint64) {
	r := h.rng
	var t uint64
	switch y := r.Intn(10); {
	case y < 4:
		t = e
	case y < 5 && e > 0:
		t = e - 1
	case y < 7 && hasA && ht < smallEpoch:
		t = ht + 1
	case y < 8 && hasA && ht <= smallEpoch:
		t = ht
	case y < 9 && e > 0:
		t = uint64(r.Intn(int(e) + 1))
	default:
		t = e
	}
	var s uint64
	switch y := r.Intn(10); {
	case y < 4 && t > 0:
		s = t - 1
	case y < 6 && hasA && hs <= smallEpoch:
		s = hs
	case y < 7 && hasA && hs > 0 && hs <= smallEpoch:
		s = hs - 1
	case y < 8 && hasA && hs < smallEpoch:
		s = hs + 1
	case t > 0:
		s = uint64(r.Intn(int(t)))
	}
	if malformed {
		switch r.Intn(8) {
		case 0:
			t = e + 1
		case 1:
			t = e + uint64(r.Pick(1, 2, 3, 50))
		case 2:
			s = t
		case 3:
			s = t + uint64(r.Pick(1, 2, 30))
		case 4:
			if r.Chance(50) {
				t = farEpoch
			} else {
				s = farEpoch
			}
		}
	}
	return s, t
}

func main() {
	run := hx.Start()
	defer run.Finish()
	threshold.Init()
	h := &H{run: run, rng: hx.NewRng(run.Seed), sigCount: map[string]int{}}
	sweepStale()
	h.w = newWorld()
	defer func() {
		if h.quiesce() {
			h.w.shutdown()
		} else {
			h.abandoned = append(h.abandoned, h.w)
		}
		for _, a := range h.abandoned {
			_ = os.RemoveAll(a.dir) // database left open on purpose, the process exits right after
		}
	}()
	h.spe = h.w.net.SlotsPerEpoch()

	// the model's far-future thresholds agree with the library on every value the generator draws
	cn := core.Network(h.w.net.GetBeaconNetwork())
	if !signer.IsValidFarFutureEpoch(cn, smallEpoch) || signer.IsValidFarFutureEpoch(cn, phase0.Epoch(farEpoch)) ||
		!signer.IsValidFarFutureSlot(cn, smallSlot) || signer.IsValidFarFutureSlot(cn, phase0.Slot(farSlot)) {
		panic("far-future window of the library does not separate the generator's small and far values")
	}
	run.Extra["slots_per_epoch"] = h.spe

	if lines := run.ReplayLines(); lines != nil {
		for _, l := range lines {
			h.doOp(l)
		}
		return
	}
	if run.N > 0 {
		realClockProbe(run) // real wall clock, real beacon.Network (up to ~14 s)
	}
	// quick tier: n = number of histories
	for i := 0; i < run.N; i++ {
		if h.hangs >= maxHangs {
			run.Tag("stopped-after-hangs") // a hanging implementation: the disagreements are recorded, do not burn the time budget
			break
		}
		if i%6 == 5 && h.concHangs < maxHangs {
			h.genXconcCase()
			continue
		}
		h.genCase(i)
		if i%25 == 24 {
			h.doMaintenance()
		}
	}
	keys := make([]string, 0)
	for k := range run.Tags {
		if strings.HasPrefix(k, "excluded-point") {
			keys = append(keys, k)
		}
	}
	sort.Strings(keys)
	run.Extra["excluded_point_classes"] = keys
}

// doMaintenance: nothing yet (one database per run; histories use fresh keys)
func (h *H) doMaintenance() {}
