// Directed multi-node scenarios on REAL controllers (run first in modes sim / c07, before the random schedules):
//   - equivocation through compaction (DESIGN §8-3 bridged to C01): every correct operator prepares+commits (1,V), times out,
//     receives the decided certificate (1,V) — Round lowered to 1 — and is compacted by the runner; the Byzantine round-1
//     leader then proposes (1,V'); with n=7 a lagging correct operator finally learns only the V' certificate.
//   - the suspected wedge of DESIGN §8-10: correct operators locked on different values with the remaining member silent.
package main

import (
	"crypto/sha256"
	"fmt"

	specqbft "github.com/bloxapp/ssv-spec/qbft"
	spectypes "github.com/bloxapp/ssv-spec/types"

	"github.com/bloxapp/ssv/zz_verif/lib/hx"
)

func (a *advSim) node(id spectypes.OperatorID) *SimNode { return a.nodes[int(id)-1] }

func (a *advSim) setByz(ids ...spectypes.OperatorID) {
	for _, id := range ids {
		a.byz[id] = true
	}
}

func newDirected(env *Env, h specqbft.Height, byz []spectypes.OperatorID, compact bool) *advSim {
	return newDirectedCfg(env, h, byz, compact, false)
}

// newDirectedCfg: prod = the correct operators' controllers come from the production wiring (prodcfg.go)
func newDirectedCfg(env *Env, h specqbft.Height, byz []spectypes.OperatorID, compact, prod bool) *advSim {
	r := hx.NewRng(12345)
	a := &advSim{r: r, byz: map[spectypes.OperatorID]bool{}, pending: map[spectypes.OperatorID][]int{}, done: map[spectypes.OperatorID][]int{},
		reported: map[spectypes.OperatorID][]byte{}, decVal: map[spectypes.OperatorID][]byte{}, compact: compact, prod: prod}
	a.Sim = &Sim{env: env, h: h}
	a.setByz(byz...)
	a.addNodes(env, h, compact)
	a.f = &Forge{env: env, r: r, h: h}
	return a
}

// deliverWhere delivers (and consumes) the pending wire messages of nd that satisfy keep, in order
func (a *advSim) deliverWhere(nd *SimNode, keep func(m *specqbft.SignedMessage) bool) {
	a.distribute()
	for progress := true; progress; {
		progress = false
		p := a.pending[nd.id]
		for i, idx := range p {
			if w := a.wire[idx]; w.Msg != nil && keep(w.Msg) {
				a.pending[nd.id] = append(append([]int{}, p[:i]...), p[i+1:]...)
				a.done[nd.id] = append(a.done[nd.id], idx)
				a.deliverTo(nd, w.Enc)
				progress = true
				break
			}
		}
	}
}

func isT(t specqbft.MessageType, round specqbft.Round) func(m *specqbft.SignedMessage) bool {
	return func(m *specqbft.SignedMessage) bool {
		return m.Message.MsgType == t && m.Message.Round == round && len(m.Signers) == 1
	}
}

// scenarioCompactionEquivocation: n=4 (byz = round-1 leader) or n=7 (byz = leader + one more, one lagging correct operator)
func scenarioCompactionEquivocation(n int, compact bool) []caseOut {
	env := getEnv(n)
	h := specqbft.Height(0) // leader of round 1 is operator 1
	byz := []spectypes.OperatorID{1}
	if n == 7 {
		byz = []spectypes.OperatorID{1, 2}
	}
	a := newDirected(env, h, byz, compact)
	V, V2 := valueBytes(1), valueBytes(2)
	rV, rV2 := sha256.Sum256(V), sha256.Sum256(V2)
	vals := make([][]byte, n)
	for i := range vals {
		vals[i] = V
	}
	a.startAll(vals)
	hs := a.honest()
	active := hs
	var lagging *SimNode
	if n == 7 { // operator 7 is correct but receives nothing for now
		lagging = a.node(7)
		active = hs[:len(hs)-1]
	}
	// round 1: the Byzantine leader proposes V to the active correct operators; they prepare and commit V
	a.sendDirect(enc(a.f.proposal(1, 1, V, nil, nil)), active)
	for _, b := range byz { // Byzantine prepares complete the quorum where needed
		a.sendDirect(enc(a.f.prepare(b, 1, rV)), active)
	}
	for _, nd := range active {
		a.deliverWhere(nd, isT(specqbft.PrepareMsgType, 1))
	}
	// nobody sees a commit quorum: all time out to round 2
	for _, nd := range active {
		a.timeoutOn(nd)
	}
	// the adversary aggregates the correct operators' real commits (+ its own) into a decided certificate for (1,V)
	var cert *specqbft.SignedMessage
	cnt := uint64(0)
	base := &specqbft.Message{MsgType: specqbft.CommitMsgType, Height: h, Round: 1, Identifier: env.identifier, Root: rV}
	for _, b := range byz {
		p := env.sign(b, base)
		if cert == nil {
			cert = p
		} else {
			_ = cert.Aggregate(p)
		}
		cnt++
	}
	for _, w := range a.wire {
		if w.Msg != nil && isT(specqbft.CommitMsgType, 1)(w.Msg) && w.Msg.Message.Root == rV && cnt < env.q {
			_ = cert.Aggregate(cloneMsg(w.Msg))
			cnt++
		}
	}
	cert.FullData = V
	a.sendDirect(enc(cert), active) // UponDecided: Round := 1 (+ runner compaction when enabled)
	// second proposal of the same leader for round 1, other value
	a.sendDirect(enc(a.f.proposal(1, 1, V2, nil, nil)), active)
	for _, b := range byz {
		a.sendDirect(enc(a.f.prepare(b, 1, rV2)), active)
	}
	for _, nd := range active {
		a.deliverWhere(nd, func(m *specqbft.SignedMessage) bool {
			return isT(specqbft.PrepareMsgType, 1)(m) && m.Message.Root == rV2
		})
	}
	for _, b := range byz {
		a.sendDirect(enc(a.f.commit(b, 1, rV2)), active)
	}
	for _, nd := range active {
		a.deliverWhere(nd, func(m *specqbft.SignedMessage) bool {
			return isT(specqbft.CommitMsgType, 1)(m) && m.Message.Root == rV2
		})
	}
	if lagging != nil { // the lagging correct operator only ever learns decided certificates for V' (broadcast by the others)
		a.deliverWhere(lagging, func(m *specqbft.SignedMessage) bool {
			return m.Message.MsgType == specqbft.CommitMsgType && len(m.Signers) > 1 && m.Message.Root == rV2
		})
	}
	return a.outs([]string{"case/directed", fmt.Sprintf("directed/compaction-equivocation-n%d-compact-%v", n, compact)})
}

// scenarioWedge (DESIGN §8-10), n=4: operator 4 is Byzantine and finally silent. A=1 alone sees the round-1 prepare quorum
// for V; B=2, C=3 prepare W in round 2 on a round-change quorum {2,3,4} that excludes A's; then 4 goes silent. No message
// between correct operators is ever lost — the adversary only delays (the continuation delivers everything ever sent).
func scenarioWedge() []caseOut {
	env := getEnv(4)
	h := specqbft.Height(0) // leaders: round 1 → op 1, round 2 → op 2, round 3 → op 3, round 4 → op 4 (silent), round 5 → op 1
	a := newDirected(env, h, []spectypes.OperatorID{4}, false)
	V, W := valueBytes(1), valueBytes(2)
	rV := sha256.Sum256(V)
	vals := [][]byte{V, W, W, W}
	a.startAll(vals)
	A, B, C := a.node(1), a.node(2), a.node(3)
	// round 1: leader A proposes V; everybody accepts and prepares; only A receives a quorum of prepares (B's, C's and its own)
	for _, nd := range []*SimNode{A, B, C} {
		a.deliverWhere(nd, isT(specqbft.ProposalMsgType, 1))
	}
	a.deliverWhere(A, isT(specqbft.PrepareMsgType, 1))
	_ = rV
	// B and C time out; with the Byzantine operator's round-change they form a round-2 quorum that does not include A
	a.timeoutOn(B)
	a.timeoutOn(C)
	a.sendDirect(enc(a.f.roundChange(4, 2, 0, nil, nil)), []*SimNode{B, C})
	for _, nd := range []*SimNode{B, C} {
		a.deliverWhere(nd, func(m *specqbft.SignedMessage) bool {
			return isT(specqbft.RoundChangeMsgType, 2)(m) && m.Signers[0] != 1
		})
	}
	// leader of round 2 (B) proposes its own value W; B and C accept; with the Byzantine prepare they reach a prepare quorum
	for _, nd := range []*SimNode{B, C} {
		a.deliverWhere(nd, isT(specqbft.ProposalMsgType, 2))
	}
	a.sendDirect(enc(a.f.prepare(4, 2, sha256.Sum256(W))), []*SimNode{B, C})
	for _, nd := range []*SimNode{B, C} {
		a.deliverWhere(nd, isT(specqbft.PrepareMsgType, 2))
	}
	// B and C exchange their round-2 commits: two of them, no quorum
	for _, nd := range []*SimNode{B, C} {
		a.deliverWhere(nd, isT(specqbft.CommitMsgType, 2))
	}
	// all of this reaches A only after A's own timer has fired twice (adversarial DELAY, nothing is lost):
	// A is in round 3, locked on (1,V); B and C time out to round 3, locked on (2,W); operator 4 is silent from now on
	a.timeoutOn(A)
	a.timeoutOn(A)
	a.timeoutOn(B)
	a.timeoutOn(C)
	tags := []string{"case/directed", "directed/wedge-mixed-prepared-values"}
	locked := a.wedgeCause()
	used, why := a.continuation()
	if used < 0 && why != "cutoff" {
		a.violate("C07/no-decision-within-f+3-rounds"+locked, "n=4, operator 4 silent: A locked on (1,V), B and C locked on (2,W); the constructed timely continuation does not decide within f+3=4 rounds")
	} else {
		tags = append(tags, fmt.Sprintf("c07/wedge-scenario-decided-after-%d-rounds", used))
	}
	return a.outs(tags)
}

// scenarioLaggards, n=4, height 0 (leaders: round 1 → op 1, round 2 → op 2, round 3 → op 3): operator 2 is Byzantine.
// Operators 1 and 3 prepare and commit (1,V). Operator 4 receives the round-1 traffic only after its timer has fired (it is
// in round 2, everything of round 1 is "past round"). The Byzantine operator aggregates the two real commits and its own
// into a decided certificate for (1,V) and hands it to operator 4 only, then stays silent: operator 4 is decided (Round
// lowered to 1, no accepted proposal), it does not time out any more. Operators 1 and 3 time out; round 2 has a silent leader;
// from round 3 on they need operator 4's round-change. WITHOUT compaction their two round-changes are a partial quorum that
// pulls the decided instance forward (it keeps processing messages) and everybody decides. WITH the runner's compaction the
// decided instance's round-change container is emptied after every round-change, operator 4 is never pulled, and operators
// 1 and 3 alone are no quorum in any later round.
func scenarioLaggards(compact bool) []caseOut {
	env := getEnv(4)
	h := specqbft.Height(0)
	a := newDirected(env, h, []spectypes.OperatorID{2}, compact)
	V := valueBytes(1)
	rV := sha256.Sum256(V)
	a.startAll([][]byte{V, V, V, V})
	n1, n3, n4 := a.node(1), a.node(3), a.node(4)
	for _, nd := range []*SimNode{n1, n3} {
		a.deliverWhere(nd, isT(specqbft.ProposalMsgType, 1))
	}
	a.sendDirect(enc(a.f.prepare(2, 1, rV)), []*SimNode{n1, n3})
	for _, nd := range []*SimNode{n1, n3} {
		a.deliverWhere(nd, isT(specqbft.PrepareMsgType, 1))
	}
	a.timeoutOn(n4) // operator 4's timer fires before anything reaches it
	a.deliverWhere(n4, func(m *specqbft.SignedMessage) bool { return m.Message.Round == 1 })
	a.timeoutOn(n1)
	a.timeoutOn(n3)
	base := &specqbft.Message{MsgType: specqbft.CommitMsgType, Height: h, Round: 1, Identifier: env.identifier, Root: rV}
	cert := env.sign(2, base)
	for _, w := range a.wire {
		if w.Msg != nil && isT(specqbft.CommitMsgType, 1)(w.Msg) && w.Msg.Message.Root == rV && uint64(len(cert.Signers)) < env.q {
			_ = cert.Aggregate(cloneMsg(w.Msg))
		}
	}
	tags := []string{"case/directed", fmt.Sprintf("directed/laggards-after-private-certificate-compact-%v", compact)}
	if uint64(len(cert.Signers)) < env.q {
		return a.outs(append(tags, "directed/laggards-not-applicable"))
	}
	cert.FullData = V
	a.sendDirect(enc(cert), []*SimNode{n4})
	used, why := a.continuation()
	if used < 0 && why != "cutoff" {
		a.violate("C07/no-decision-within-f+3-rounds"+a.wedgeCause()+a.suffixPlain(), "n=4, operator 2 Byzantine then silent: operator 4 decided through a certificate only it received; with the runner's compaction its round-change container is emptied after every round-change, it is never pulled by the partial quorum of operators 1 and 3, and these two alone cannot form a quorum in any later round")
	} else {
		tags = append(tags, fmt.Sprintf("c07/laggards-scenario-decided-after-%d-rounds", used))
	}
	return a.outs(tags)
}

// scenarioLoneLaggard, n=4, height 0: operator 1 (round-1 leader) is Byzantine. It proposes V to everybody; operators 3 and 4
// (with the Byzantine prepare) prepare and commit V and see each other's commits (two, no quorum); operator 2 accepts the
// proposal but the prepares reach it only after its timer fired. The Byzantine operator aggregates the commits of 3 and 4 and
// its own into a decided certificate and hands it to 3 and 4 only, then stays silent. 3 and 4 are decided: they neither time
// out nor re-broadcast the certificate they accepted; operator 2 alone is fewer than f+1, so its round-changes never pull
// them, and it can never form a quorum. No compaction involved.
func scenarioLoneLaggard() []caseOut {
	env := getEnv(4)
	h := specqbft.Height(0)
	a := newDirected(env, h, []spectypes.OperatorID{1}, false)
	V := valueBytes(1)
	rV := sha256.Sum256(V)
	a.startAll([][]byte{V, V, V, V})
	n2, n3, n4 := a.node(2), a.node(3), a.node(4)
	a.sendDirect(enc(a.f.proposal(1, 1, V, nil, nil)), []*SimNode{n2, n3, n4})
	a.sendDirect(enc(a.f.prepare(1, 1, rV)), []*SimNode{n3, n4})
	for _, nd := range []*SimNode{n3, n4} {
		a.deliverWhere(nd, func(m *specqbft.SignedMessage) bool { return isT(specqbft.PrepareMsgType, 1)(m) && m.Signers[0] != 2 })
	}
	for _, nd := range []*SimNode{n3, n4} {
		a.deliverWhere(nd, isT(specqbft.CommitMsgType, 1))
	}
	a.timeoutOn(n2) // operator 2's timer fires before the prepares reach it
	base := &specqbft.Message{MsgType: specqbft.CommitMsgType, Height: h, Round: 1, Identifier: env.identifier, Root: rV}
	cert := env.sign(1, base)
	for _, w := range a.wire {
		if w.Msg != nil && isT(specqbft.CommitMsgType, 1)(w.Msg) && w.Msg.Message.Root == rV && uint64(len(cert.Signers)) < env.q {
			_ = cert.Aggregate(cloneMsg(w.Msg))
		}
	}
	tags := []string{"case/directed", "directed/lone-laggard"}
	if uint64(len(cert.Signers)) < env.q {
		return a.outs(append(tags, "directed/lone-laggard-not-applicable"))
	}
	cert.FullData = V
	a.sendDirect(enc(cert), []*SimNode{n3, n4})
	used, why := a.continuation()
	if used < 0 && why != "cutoff" {
		a.violate("C07/no-decision-within-f+3-rounds"+a.wedgeCause()+a.suffixPlain(), "n=4, operator 1 Byzantine then silent: operators 3 and 4 decided through a certificate only they received and neither time out nor re-broadcast it; operator 2 alone (fewer than f+1) never pulls them and never forms a quorum")
	} else {
		tags = append(tags, fmt.Sprintf("c07/lone-laggard-scenario-decided-after-%d-rounds", used))
	}
	return a.outs(tags)
}

// scenarioCrossRole (defect repaired by /repo e1612ceed; regression): n=4, first height (leaders: round 1 → 1, round 2 → 2,
// round 3 → 3), operator 3 Byzantine. The round-1 proposal is delayed, the correct operators 1,2,4 time out; operator 2
// (leader of round 2) proposes A on their round-changes; all prepare and commit A, the commits reach operator 1 only, which
// decides A; 2 and 4 time out to round 3. In a second duty role (other identifier, same height) the same operators timed out
// twice without traffic: genuine unprepared round-changes for round 3 carrying the OTHER identifier. The Byzantine leader of
// round 3 proposes B for the role under test, "justified" by those; with its own prepare and commit, 2 and 4 would decide B.
// On the repaired tree the proposal is refused (…/rcNotValid/wrongMsgIdentifier) and nobody reports B.
func scenarioCrossRole() []caseOut {
	env := getEnv(4)
	h := specqbft.Height(0)
	a := newDirected(env, h, []spectypes.OperatorID{3}, false)
	A, B := valueBytes(1), valueBytes(2)
	rB := sha256.Sum256(B)
	a.startAll([][]byte{A, A, A, A})
	a.altValues = [][]byte{A, A, A, A}
	a.altInit(a.altValues)
	n1, n2, n4 := a.node(1), a.node(2), a.node(4)
	correct := []*SimNode{n1, n2, n4}
	for _, nd := range correct {
		a.timeoutOn(nd)
	}
	a.deliverWhere(n2, isT(specqbft.RoundChangeMsgType, 2))
	for _, nd := range correct {
		a.deliverWhere(nd, isT(specqbft.ProposalMsgType, 2))
	}
	for _, nd := range correct {
		a.deliverWhere(nd, isT(specqbft.PrepareMsgType, 2))
	}
	a.deliverWhere(n1, isT(specqbft.CommitMsgType, 2)) // operator 1 decides A
	a.timeoutOn(n2)
	a.timeoutOn(n4)
	// the second duty role: two timeouts without traffic
	for _, nd := range correct {
		a.altTimeout(nd.id)
		a.altTimeout(nd.id)
	}
	var otherRC []*specqbft.SignedMessage
	for _, m := range a.altMaterial() {
		if isT(specqbft.RoundChangeMsgType, 3)(m) && m.Message.DataRound == 0 {
			otherRC = append(otherRC, m)
		}
	}
	victims := []*SimNode{n2, n4}
	a.sendDirect(enc(a.f.proposal(3, 3, B, otherRC, nil)), victims)
	a.sendDirect(enc(a.f.prepare(3, 3, rB)), victims)
	for _, nd := range victims {
		a.deliverWhere(nd, func(m *specqbft.SignedMessage) bool {
			return isT(specqbft.PrepareMsgType, 3)(m) && m.Message.Root == rB
		})
	}
	a.sendDirect(enc(a.f.commit(3, 3, rB)), victims)
	for _, nd := range victims {
		a.deliverWhere(nd, func(m *specqbft.SignedMessage) bool { return isT(specqbft.CommitMsgType, 3)(m) && m.Message.Root == rB })
	}
	return a.outs([]string{"case/directed", "directed/cross-role-justification-replay"})
}

// exchange: the victims deliver each other's (and their own) prepares and commits for (round, root)
func (a *advSim) exchange(victims []*SimNode, round specqbft.Round, root [32]byte) {
	for _, nd := range victims {
		a.deliverWhere(nd, func(m *specqbft.SignedMessage) bool {
			return isT(specqbft.PrepareMsgType, round)(m) && m.Message.Root == root
		})
	}
	for _, nd := range victims {
		a.deliverWhere(nd, func(m *specqbft.SignedMessage) bool {
			return isT(specqbft.CommitMsgType, round)(m) && m.Message.Root == root
		})
	}
}

func wireRCs(a *advSim, round specqbft.Round, from ...spectypes.OperatorID) []*specqbft.SignedMessage {
	var out []*specqbft.SignedMessage
	for _, id := range from {
		for _, w := range a.wire {
			if w.Msg != nil && isT(specqbft.RoundChangeMsgType, round)(w.Msg) && w.Msg.Signers[0] == id {
				out = append(out, w.Msg)
				break
			}
		}
	}
	return out
}

// scenarioStaleRoundJustification (seeded change C01-m1: embedded round-changes validated against THEIR OWN round): as
// scenarioCrossRole, but the Byzantine round-3 leader justifies B with the correct operators' genuine unprepared round-changes
// of the OLDER round 2. Unchanged tree: refused (…/rcNotValid/wrongRound).
func scenarioStaleRoundJustification() []caseOut {
	env := getEnv(4)
	h := specqbft.Height(0)
	a := newDirected(env, h, []spectypes.OperatorID{3}, false)
	A, B := valueBytes(1), valueBytes(2)
	a.startAll([][]byte{A, A, A, A})
	n1, n2, n4 := a.node(1), a.node(2), a.node(4)
	correct := []*SimNode{n1, n2, n4}
	for _, nd := range correct {
		a.timeoutOn(nd)
	}
	a.deliverWhere(n2, isT(specqbft.RoundChangeMsgType, 2))
	for _, nd := range correct {
		a.deliverWhere(nd, isT(specqbft.ProposalMsgType, 2))
	}
	for _, nd := range correct {
		a.deliverWhere(nd, isT(specqbft.PrepareMsgType, 2))
	}
	a.deliverWhere(n1, isT(specqbft.CommitMsgType, 2)) // operator 1 decides A
	a.timeoutOn(n2)
	a.timeoutOn(n4)
	victims := []*SimNode{n2, n4}
	a.sendDirect(enc(a.f.proposal(3, 3, B, wireRCs(a, 2, 1, 2, 4), nil)), victims)
	a.pushDecision(3, B, victims)
	a.exchange(victims, 3, sha256.Sum256(B))
	return a.outs([]string{"case/directed", "directed/stale-round-justification"})
}

// roundOnePartial: operator `leader` (correct) proposes A in round 1; the operators in `prepared` (with the Byzantine
// prepare) reach the prepare quorum and commit; operator `decider` alone receives the commits (with the Byzantine one) and
// decides A. `faultAt` ≠ 0: that operator's Broadcast of its commit returns an error AFTER the message left the node.
func (a *advSim) roundOnePartial(A []byte, byz spectypes.OperatorID, all, prepared []*SimNode, decider *SimNode, faultAt spectypes.OperatorID) {
	rA := sha256.Sum256(A)
	for _, nd := range all {
		a.deliverWhere(nd, isT(specqbft.ProposalMsgType, 1))
	}
	a.sendDirect(enc(a.f.prepare(byz, 1, rA)), prepared)
	for _, nd := range prepared {
		for { // one prepare at a time, so that the fault hits exactly the delivery that completes the quorum
			a.distribute()
			idx := -1
			for _, i := range a.pending[nd.id] {
				if w := a.wire[i]; w.Msg != nil && isT(specqbft.PrepareMsgType, 1)(w.Msg) {
					idx = i
					break
				}
			}
			if idx < 0 {
				break
			}
			var keep []int
			for _, i := range a.pending[nd.id] {
				if i != idx {
					keep = append(keep, i)
				}
			}
			a.pending[nd.id] = keep
			a.done[nd.id] = append(a.done[nd.id], idx)
			if nd.id == faultAt {
				if inst := nd.c.ctrl.StoredInstances.FindInstance(a.h); inst != nil {
					signers := map[spectypes.OperatorID]bool{}
					for _, m := range inst.State.PrepareContainer.MessagesForRound(1) {
						signers[m.Signers[0]] = true
					}
					if uint64(len(signers))+1 == a.env.q && !signers[a.wire[idx].Msg.Signers[0]] {
						nd.c.nf = "a"
					}
				}
			}
			a.deliverTo(nd, a.wire[idx].Enc)
		}
	}
	a.sendDirect(enc(a.f.commit(byz, 1, rA)), []*SimNode{decider})
	a.deliverWhere(decider, isT(specqbft.CommitMsgType, 1))
}

// scenarioForgedKnownSigner (seeded change C01-m2: signature of an embedded round-change not verified when the container
// already holds one of that signer and round): n=4, operator 2 Byzantine (leader of round 2). 1 and 3 prepare+commit A, only
// 1 decides; 3 (locked on (1,A)) and 4 (unprepared) time out and hold each other's genuine round-changes; the leader proposes B
// justified by 4's round-change, its own, and a FORGED unprepared round-change in the name of 3. Unchanged tree: refused
// (…/rcNotValid/sigInvalid).
func scenarioForgedKnownSigner(prod bool) []caseOut {
	env := getEnv(4)
	h := specqbft.Height(0)
	a := newDirectedCfg(env, h, []spectypes.OperatorID{2}, false, prod)
	A, B := valueBytes(1), valueBytes(2)
	a.startAll([][]byte{A, A, A, A})
	n1, n3, n4 := a.node(1), a.node(3), a.node(4)
	a.roundOnePartial(A, 2, []*SimNode{n1, n3, n4}, []*SimNode{n1, n3}, n1, 0)
	a.timeoutOn(n3)
	a.timeoutOn(n4)
	victims := []*SimNode{n3, n4}
	for _, nd := range victims {
		a.deliverWhere(nd, isT(specqbft.RoundChangeMsgType, 2))
	}
	rcs := append(wireRCs(a, 2, 4), a.f.roundChange(2, 2, 0, nil, nil), a.forgedUnpreparedRC(2, 3, 2))
	a.sendDirect(enc(a.f.proposal(2, 2, B, rcs, nil)), victims)
	a.pushDecision(2, B, victims)
	a.exchange(victims, 2, sha256.Sum256(B))
	return a.outs([]string{"case/directed", fmt.Sprintf("config/production-%v", prod), "directed/forged-round-change-of-known-signer"})
}

// scenarioCommitBroadcastFault (seeded change C01-m3: the lock is recorded only after the commit broadcast returned without
// error): as above, but operator 3's own Broadcast of its commit returns an error after the message left the node, and the
// Byzantine leader uses the GENUINE round-changes of 3 and 4. Unchanged tree: 3's round-change carries the lock (1,A), so B is
// not justifiable (…/rcNotValid/hashMismatch).
func scenarioCommitBroadcastFault() []caseOut {
	env := getEnv(4)
	h := specqbft.Height(0)
	a := newDirected(env, h, []spectypes.OperatorID{2}, false)
	A, B := valueBytes(1), valueBytes(2)
	a.startAll([][]byte{A, A, A, A})
	n1, n3, n4 := a.node(1), a.node(3), a.node(4)
	a.roundOnePartial(A, 2, []*SimNode{n1, n3, n4}, []*SimNode{n1, n3}, n1, 3)
	a.timeoutOn(n3)
	a.timeoutOn(n4)
	victims := []*SimNode{n3, n4}
	rcs := append(wireRCs(a, 2, 3, 4), a.f.roundChange(2, 2, 0, nil, nil))
	a.sendDirect(enc(a.f.proposal(2, 2, B, rcs, nil)), victims)
	a.pushDecision(2, B, victims)
	a.exchange(victims, 2, sha256.Sum256(B))
	return a.outs([]string{"case/directed", "directed/commit-broadcast-fault-then-unlocked-round-change"})
}

// ---------------------------------------------------------------- directed liveness scenarios (seeded changes C07-m1 … m4)

func (a *advSim) finishC07(tags []string, what, detail string) []caseOut {
	used, why := a.continuation()
	if used < 0 && why != "cutoff" {
		a.violate("C07/no-decision-within-f+3-rounds"+a.wedgeCause()+a.suffixPlain(), detail)
	} else {
		tags = append(tags, fmt.Sprintf("c07/%s-decided-after-%d-rounds", what, used))
	}
	return a.outs(tags)
}

// scenarioPulledThenOwnTimer (C07-m1), n=4, height 0 (leaders: round 4 → operator 4, round 5 → operator 1): operator 4 is
// Byzantine. Nothing of round 1 is delivered. Operator 1 times out three times (round 4); its and the Byzantine round-change for
// round 4 pull operators 2 and 3 from round 1 to round 4 (partial quorum). Then operator 4 is silent: round 4 has no leader, all
// three correct operators need their OWN round timer — armed for round 4 — to reach round 5, whose leader is correct.
func scenarioPulledThenOwnTimer() []caseOut {
	env := getEnv(4)
	a := newDirected(env, 0, []spectypes.OperatorID{4}, false)
	V := valueBytes(1)
	a.startAll([][]byte{V, V, V, V})
	n1, n2, n3 := a.node(1), a.node(2), a.node(3)
	drop := func(nd *SimNode) { a.distribute(); a.pending[nd.id] = nil }
	for _, nd := range []*SimNode{n1, n2, n3} {
		drop(nd) // round-1 traffic is lost (re-sent by the continuation)
	}
	a.timeoutOn(n1)
	a.timeoutOn(n1)
	a.timeoutOn(n1)
	a.sendDirect(enc(a.f.roundChange(4, 4, 0, nil, nil)), []*SimNode{n2, n3})
	for _, nd := range []*SimNode{n2, n3} {
		a.deliverWhere(nd, isT(specqbft.RoundChangeMsgType, 4))
	}
	return a.finishC07([]string{"case/directed", "directed/pulled-by-f+1-then-own-timer"}, "pulled-then-own-timer",
		"n=4, operator 4 Byzantine then silent: operators 2 and 3 were pulled to round 4 by f+1 round-changes, round 4 has a silent leader; the correct operators do not reach round 5 together")
}

// scenarioLaggardAfterOwnTimeout (C07-m2), n=4, height 0, operator 4 silent from the start: operator 3 timed out once (round 2,
// its own round-change looped back to it), operators 1 and 2 timed out four times without hearing each other (round 5). Their
// two round-changes for round 5 are f+1 announcements above operator 3's round: it must be pulled to round 5.
func scenarioLaggardAfterOwnTimeout() []caseOut {
	env := getEnv(4)
	a := newDirected(env, 0, []spectypes.OperatorID{4}, false)
	V := valueBytes(1)
	a.startAll([][]byte{V, V, V, V})
	n1, n2, n3 := a.node(1), a.node(2), a.node(3)
	for _, nd := range []*SimNode{n1, n2, n3} {
		a.distribute()
		a.pending[nd.id] = nil
	}
	a.timeoutOn(n3)
	a.deliverWhere(n3, func(m *specqbft.SignedMessage) bool {
		return isT(specqbft.RoundChangeMsgType, 2)(m) && m.Signers[0] == 3
	})
	for k := 0; k < 4; k++ {
		a.timeoutOn(n1)
		a.timeoutOn(n2)
	}
	a.deliverWhere(n3, isT(specqbft.RoundChangeMsgType, 5))
	return a.finishC07([]string{"case/directed", "directed/laggard-that-timed-out-once-pulled-by-f+1"}, "laggard-after-own-timeout",
		"n=4, operator 4 silent: operator 3 (round 2) holds f+1 round-changes for round 5 of operators 1 and 2")
}

// scenarioFutureRoundProposalToLaggard (C07-m3 = C02-m2), n=4, height 0 (leader of round 2: operator 2), operator 4 Byzantine:
// round-1 traffic is lost; operators 1 and 2 time out, operator 3 does not. With the Byzantine round-change the leader of round
// 2 holds a quorum and proposes; the proposal reaches operator 3 (still in round 1) before any round-change does.
func scenarioFutureRoundProposalToLaggard(prod bool) []caseOut {
	env := getEnv(4)
	a := newDirectedCfg(env, 0, []spectypes.OperatorID{4}, false, prod)
	V := valueBytes(1)
	a.startAll([][]byte{V, V, V, V})
	n1, n2, n3 := a.node(1), a.node(2), a.node(3)
	for _, nd := range []*SimNode{n1, n2, n3} {
		a.distribute()
		a.pending[nd.id] = nil
	}
	a.timeoutOn(n1)
	a.timeoutOn(n2)
	a.sendDirect(enc(a.f.roundChange(4, 2, 0, nil, nil)), []*SimNode{n2})
	a.deliverWhere(n2, isT(specqbft.RoundChangeMsgType, 2))
	a.deliverWhere(n3, isT(specqbft.ProposalMsgType, 2))
	a.deliverWhere(n1, isT(specqbft.ProposalMsgType, 2))
	return a.finishC07([]string{"case/directed", "directed/future-round-proposal-reaches-laggard-first"}, "future-round-proposal",
		"n=4, operator 4 Byzantine then silent: the correct round-2 leader's proposal reached operator 3 while it was in round 1")
}

// scenarioTimeoutsUpToCutoff (C07-m4): n=4 and n=7, nothing is ever delivered; every correct operator's timer fires in every
// round 1 … cut-off-1 (the step oracle C07/timeout-without-progress is evaluated at each) and once more at the cut-off.
func scenarioTimeoutsUpToCutoff(n int, h specqbft.Height) []caseOut {
	env := getEnv(n)
	a := newDirected(env, h, []spectypes.OperatorID{spectypes.OperatorID(n)}, false)
	vals := make([][]byte, n)
	for i := range vals {
		vals[i] = valueBytes(1 + i%2)
	}
	a.startAll(vals)
	for k := 0; k < 15; k++ {
		for _, nd := range a.honest() {
			a.timeoutOn(nd)
		}
	}
	return a.outs([]string{"case/directed", fmt.Sprintf("directed/timeouts-up-to-the-cut-off-n%d", n)})
}

// scenarioRepeatedPrepareJustification (seeded change C06b-m3; regression for the justification quorum sites): n=4, operator 2
// Byzantine (leader of round 2). Everybody prepares (1,A), the commits are lost, the correct operators time out with genuine
// prepared round-changes. The leader re-proposes A with those round-changes and a PrepareJustification of quorum LENGTH from
// quorum-1 DISTINCT signers. Refused on the unchanged tree (…/prepNoQuorum); no agreement violation either way (each prepared
// round-change carries its own distinct-signer quorum), but the operators' traces differ from the model when it is accepted.
func scenarioRepeatedPrepareJustification() []caseOut {
	env := getEnv(4)
	a := newDirected(env, 0, []spectypes.OperatorID{2}, false)
	A := valueBytes(1)
	rA := sha256.Sum256(A)
	a.startAll([][]byte{A, A, A, A})
	correct := []*SimNode{a.node(1), a.node(3), a.node(4)}
	for _, nd := range correct {
		a.deliverWhere(nd, isT(specqbft.ProposalMsgType, 1))
	}
	for _, nd := range correct {
		a.deliverWhere(nd, isT(specqbft.PrepareMsgType, 1))
	}
	for _, nd := range correct {
		a.distribute()
		a.pending[nd.id] = nil // the commits are lost
		a.timeoutOn(nd)
	}
	rcs := wireRCs(a, 2, 1, 3, 4)
	p1, p3 := a.f.prepare(1, 1, rA), a.f.prepare(3, 1, rA)
	for _, w := range a.wire { // the genuine prepares
		if w.Msg != nil && isT(specqbft.PrepareMsgType, 1)(w.Msg) && w.Msg.Message.Root == rA {
			if w.Msg.Signers[0] == 1 {
				p1 = w.Msg
			} else if w.Msg.Signers[0] == 3 {
				p3 = w.Msg
			}
		}
	}
	a.sendDirect(enc(a.f.proposal(2, 2, A, rcs, []*specqbft.SignedMessage{p1, cloneMsg(p1), p3})), correct)
	a.pushDecision(2, A, correct)
	a.exchange(correct, 2, rA)
	return a.outs([]string{"case/directed", "directed/prepare-justification-quorum-length-fewer-distinct-signers"})
}

// scenarioDecidedCompactedThenPulled (seeded change C01b-m2: a prepared operator whose prepare quorum is no longer in its container
// announces an UNPREPARED round-change), n=4, height 0, operator 2 Byzantine (leader of round 2), compaction policy decided-only: operators 1
// and 3 see the prepare quorum for A, only operator 3 gets a commit quorum and decides A; operator 4 never prepared. 1 and 4 time
// out; the decided operator 3 — its prepare container emptied by the runner's compaction of a decided instance — is pulled to
// round 2 by f+1 round-changes (4's and the Byzantine one) and announces its own. The leader proposes B justified by the
// round-changes of 3 and 4 and its own. Unchanged tree: 3's round-change still names the lock (1,A) — without justification — and
// the proposal is refused (…/rcNotValid/noJustQuorum); nobody decides B.
func scenarioDecidedCompactedThenPulled() []caseOut {
	env := getEnv(4)
	a := newDirected(env, 0, []spectypes.OperatorID{2}, true)
	a.decidedOnly = true // with the full runner policy operator 3's round-change container is emptied after every round-change
	A, B := valueBytes(1), valueBytes(2)
	a.startAll([][]byte{A, A, A, A})
	n1, n3, n4 := a.node(1), a.node(3), a.node(4)
	a.roundOnePartial(A, 2, []*SimNode{n1, n3, n4}, []*SimNode{n1, n3}, n3, 0)
	a.timeoutOn(n1)
	a.timeoutOn(n4)
	a.deliverWhere(n3, func(m *specqbft.SignedMessage) bool {
		return isT(specqbft.RoundChangeMsgType, 2)(m) && m.Signers[0] == 4
	})
	a.sendDirect(enc(a.f.roundChange(2, 2, 0, nil, nil)), []*SimNode{n3})
	victims := []*SimNode{n1, n4}
	rcs := append(wireRCs(a, 2, 3, 4), a.f.roundChange(2, 2, 0, nil, nil))
	a.sendDirect(enc(a.f.proposal(2, 2, B, rcs, nil)), victims)
	a.pushDecision(2, B, victims)
	a.exchange(victims, 2, sha256.Sum256(B))
	return a.outs([]string{"case/directed", "directed/decided-compacted-operator-pulled-by-f+1"})
}

// scenarioBroadcastFailsAtRoundExpiry (seeded change C07b-m1: round bump / timer re-arm only after the round-change was broadcast
// without error), n=4, height 0, operator 2 silent from the start, the round-1 proposal is lost. When round 1 expires the own
// Broadcast of operators 3 and 4 returns an error (the message did leave); operator 1's works. Afterwards the network is timely.
// Unchanged tree: all three are in round 2 with live timers; round 2 has the silent leader, one more timeout and round 3 decides.
func scenarioBroadcastFailsAtRoundExpiry() []caseOut {
	env := getEnv(4)
	a := newDirected(env, 0, []spectypes.OperatorID{2}, false)
	V := valueBytes(1)
	a.startAll([][]byte{V, V, V, V})
	n1, n3, n4 := a.node(1), a.node(3), a.node(4)
	for _, nd := range []*SimNode{n1, n3, n4} {
		a.distribute()
		a.pending[nd.id] = nil
	}
	a.timeoutOn(n1)
	n3.c.nf = "a"
	a.timeoutOn(n3)
	n4.c.nf = "a"
	a.timeoutOn(n4)
	return a.finishC07([]string{"case/directed", "directed/own-broadcast-fails-at-round-expiry"}, "broadcast-fails-at-round-expiry",
		"n=4, operator 2 silent, proposal lost, the Broadcast of operators 3 and 4 failed when round 1 expired: they do not reach the later rounds")
}
