// Directed multi-node scenarios on REAL controllers (run first in modes sim / c07, before the random schedules):
//   - equivocation through compaction (DESIGN §8-3 bridged to C01): every correct operator prepares+commits (1,V), times out,
//     receives the decided certificate (1,V) — Round lowered to 1 — and is compacted by the runner; the Byzantine round-1
//     leader then proposes (1,V'); with n=7 a lagging correct operator finally learns only the V' certificate.
//   - the suspected wedge of DESIGN §8-10: correct operators locked on different values with the remaining member silent.
package main

import (
	"crypto/sha256"
	"fmt"

	specqbft "github.com/bloxapp/ssv-spec/qbft"
	spectypes "github.com/bloxapp/ssv-spec/types"

	"github.com/bloxapp/ssv/zz_verif/lib/hx"
)

func (a *advSim) node(id spectypes.OperatorID) *SimNode { return a.nodes[int(id)-1] }

func (a *advSim) setByz(ids ...spectypes.OperatorID) {
	for _, id := range ids {
		a.byz[id] = true
	}
}

func newDirected(env *Env, h specqbft.Height, byz []spectypes.OperatorID, compact bool) *advSim {
	r := hx.NewRng(12345)
	a := &advSim{r: r, byz: map[spectypes.OperatorID]bool{}, pending: map[spectypes.OperatorID][]int{}, done: map[spectypes.OperatorID][]int{},
		reported: map[spectypes.OperatorID][]byte{}, decVal: map[spectypes.OperatorID][]byte{}, compact: compact}
	a.Sim = &Sim{env: env, h: h}
	a.setByz(byz...)
	a.addNodes(env, h, compact)
	a.f = &Forge{env: env, r: r, h: h}
	return a
}

// deliverWhere delivers (and consumes) the pending wire messages of nd that satisfy keep, in order
func (a *advSim) deliverWhere(nd *SimNode, keep func(m *specqbft.SignedMessage) bool) {
	a.distribute()
	for progress := true; progress; {
		progress = false
		p := a.pending[nd.id]
		for i, idx := range p {
			if w := a.wire[idx]; w.Msg != nil && keep(w.Msg) {
				a.pending[nd.id] = append(append([]int{}, p[:i]...), p[i+1:]...)
				a.done[nd.id] = append(a.done[nd.id], idx)
				a.deliverTo(nd, w.Enc)
				progress = true
				break
			}
		}
	}
}

func isT(t specqbft.MessageType, round specqbft.Round) func(m *specqbft.SignedMessage) bool {
	return func(m *specqbft.SignedMessage) bool {
		return m.Message.MsgType == t && m.Message.Round == round && len(m.Signers) == 1
	}
}

// scenarioCompactionEquivocation: n=4 (byz = round-1 leader) or n=7 (byz = leader + one more, one lagging correct operator)
func scenarioCompactionEquivocation(n int, compact bool) []caseOut {
	env := getEnv(n)
	h := specqbft.Height(0) // leader of round 1 is operator 1
	byz := []spectypes.OperatorID{1}
	if n == 7 {
		byz = []spectypes.OperatorID{1, 2}
	}
	a := newDirected(env, h, byz, compact)
	V, V2 := valueBytes(1), valueBytes(2)
	rV, rV2 := sha256.Sum256(V), sha256.Sum256(V2)
	vals := make([][]byte, n)
	for i := range vals {
		vals[i] = V
	}
	a.startAll(vals)
	hs := a.honest()
	active := hs
	var lagging *SimNode
	if n == 7 { // operator 7 is correct but receives nothing for now
		lagging = a.node(7)
		active = hs[:len(hs)-1]
	}
	// round 1: the Byzantine leader proposes V to the active correct operators; they prepare and commit V
	a.sendDirect(enc(a.f.proposal(1, 1, V, nil, nil)), active)
	for _, b := range byz { // Byzantine prepares complete the quorum where needed
		a.sendDirect(enc(a.f.prepare(b, 1, rV)), active)
	}
	for _, nd := range active {
		a.deliverWhere(nd, isT(specqbft.PrepareMsgType, 1))
	}
	// nobody sees a commit quorum: all time out to round 2
	for _, nd := range active {
		a.timeoutOn(nd)
	}
	// the adversary aggregates the correct operators' real commits (+ its own) into a decided certificate for (1,V)
	var cert *specqbft.SignedMessage
	cnt := uint64(0)
	base := &specqbft.Message{MsgType: specqbft.CommitMsgType, Height: h, Round: 1, Identifier: env.identifier, Root: rV}
	for _, b := range byz {
		p := env.sign(b, base)
		if cert == nil {
			cert = p
		} else {
			_ = cert.Aggregate(p)
		}
		cnt++
	}
	for _, w := range a.wire {
		if w.Msg != nil && isT(specqbft.CommitMsgType, 1)(w.Msg) && w.Msg.Message.Root == rV && cnt < env.q {
			_ = cert.Aggregate(cloneMsg(w.Msg))
			cnt++
		}
	}
	cert.FullData = V
	a.sendDirect(enc(cert), active) // UponDecided: Round := 1 (+ runner compaction when enabled)
	// second proposal of the same leader for round 1, other value
	a.sendDirect(enc(a.f.proposal(1, 1, V2, nil, nil)), active)
	for _, b := range byz {
		a.sendDirect(enc(a.f.prepare(b, 1, rV2)), active)
	}
	for _, nd := range active {
		a.deliverWhere(nd, func(m *specqbft.SignedMessage) bool {
			return isT(specqbft.PrepareMsgType, 1)(m) && m.Message.Root == rV2
		})
	}
	for _, b := range byz {
		a.sendDirect(enc(a.f.commit(b, 1, rV2)), active)
	}
	for _, nd := range active {
		a.deliverWhere(nd, func(m *specqbft.SignedMessage) bool {
			return isT(specqbft.CommitMsgType, 1)(m) && m.Message.Root == rV2
		})
	}
	if lagging != nil { // the lagging correct operator only ever learns decided certificates for V' (broadcast by the others)
		a.deliverWhere(lagging, func(m *specqbft.SignedMessage) bool {
			return m.Message.MsgType == specqbft.CommitMsgType && len(m.Signers) > 1 && m.Message.Root == rV2
		})
	}
	return a.outs([]string{"case/directed", fmt.Sprintf("directed/compaction-equivocation-n%d-compact-%v", n, compact)})
}

// scenarioWedge (DESIGN §8-10), n=4: operator 4 is Byzantine and finally silent. A=1 alone sees the round-1 prepare quorum
// for V; B=2, C=3 prepare W in round 2 on a round-change quorum {2,3,4} that excludes A's; then 4 goes silent. No message
// between correct operators is ever lost — the adversary only delays (the continuation delivers everything ever sent).
func scenarioWedge() []caseOut {
	env := getEnv(4)
	h := specqbft.Height(0) // leaders: round 1 → op 1, round 2 → op 2, round 3 → op 3, round 4 → op 4 (silent), round 5 → op 1
	a := newDirected(env, h, []spectypes.OperatorID{4}, false)
	V, W := valueBytes(1), valueBytes(2)
	rV := sha256.Sum256(V)
	vals := [][]byte{V, W, W, W}
	a.startAll(vals)
	A, B, C := a.node(1), a.node(2), a.node(3)
	// round 1: leader A proposes V; everybody accepts and prepares; only A receives a quorum of prepares (B's, C's and its own)
	for _, nd := range []*SimNode{A, B, C} {
		a.deliverWhere(nd, isT(specqbft.ProposalMsgType, 1))
	}
	a.deliverWhere(A, isT(specqbft.PrepareMsgType, 1))
	_ = rV
	// B and C time out; with the Byzantine operator's round-change they form a round-2 quorum that does not include A
	a.timeoutOn(B)
	a.timeoutOn(C)
	a.sendDirect(enc(a.f.roundChange(4, 2, 0, nil, nil)), []*SimNode{B, C})
	for _, nd := range []*SimNode{B, C} {
		a.deliverWhere(nd, func(m *specqbft.SignedMessage) bool {
			return isT(specqbft.RoundChangeMsgType, 2)(m) && m.Signers[0] != 1
		})
	}
	// leader of round 2 (B) proposes its own value W; B and C accept; with the Byzantine prepare they reach a prepare quorum
	for _, nd := range []*SimNode{B, C} {
		a.deliverWhere(nd, isT(specqbft.ProposalMsgType, 2))
	}
	a.sendDirect(enc(a.f.prepare(4, 2, sha256.Sum256(W))), []*SimNode{B, C})
	for _, nd := range []*SimNode{B, C} {
		a.deliverWhere(nd, isT(specqbft.PrepareMsgType, 2))
	}
	// B and C exchange their round-2 commits: two of them, no quorum
	for _, nd := range []*SimNode{B, C} {
		a.deliverWhere(nd, isT(specqbft.CommitMsgType, 2))
	}
	// all of this reaches A only after A's own timer has fired twice (adversarial DELAY, nothing is lost):
	// A is in round 3, locked on (1,V); B and C time out to round 3, locked on (2,W); operator 4 is silent from now on
	a.timeoutOn(A)
	a.timeoutOn(A)
	a.timeoutOn(B)
	a.timeoutOn(C)
	tags := []string{"case/directed", "directed/wedge-mixed-prepared-values"}
	locked := a.wedgeCause()
	used, why := a.continuation()
	if used < 0 && why != "cutoff" {
		a.violate("C07/no-decision-within-f+3-rounds"+locked, "n=4, operator 4 silent: A locked on (1,V), B and C locked on (2,W); the constructed timely continuation does not decide within f+3=4 rounds")
	} else {
		tags = append(tags, fmt.Sprintf("c07/wedge-scenario-decided-after-%d-rounds", used))
	}
	return a.outs(tags)
}

// scenarioLaggards, n=4, height 0 (leaders: round 1 → op 1, round 2 → op 2, round 3 → op 3): operator 2 is Byzantine.
// Operators 1 and 3 prepare and commit (1,V). Operator 4 receives the round-1 traffic only after its timer has fired (it is
// in round 2, everything of round 1 is "past round"). The Byzantine operator aggregates the two real commits and its own
// into a decided certificate for (1,V) and hands it to operator 4 only, then stays silent: operator 4 is decided (Round
// lowered to 1, no accepted proposal), it does not time out any more. Operators 1 and 3 time out; round 2 has a silent leader;
// from round 3 on they need operator 4's round-change. WITHOUT compaction their two round-changes are a partial quorum that
// pulls the decided instance forward (it keeps processing messages) and everybody decides. WITH the runner's compaction the
// decided instance's round-change container is emptied after every round-change, operator 4 is never pulled, and operators
// 1 and 3 alone are no quorum in any later round.
func scenarioLaggards(compact bool) []caseOut {
	env := getEnv(4)
	h := specqbft.Height(0)
	a := newDirected(env, h, []spectypes.OperatorID{2}, compact)
	V := valueBytes(1)
	rV := sha256.Sum256(V)
	a.startAll([][]byte{V, V, V, V})
	n1, n3, n4 := a.node(1), a.node(3), a.node(4)
	for _, nd := range []*SimNode{n1, n3} {
		a.deliverWhere(nd, isT(specqbft.ProposalMsgType, 1))
	}
	a.sendDirect(enc(a.f.prepare(2, 1, rV)), []*SimNode{n1, n3})
	for _, nd := range []*SimNode{n1, n3} {
		a.deliverWhere(nd, isT(specqbft.PrepareMsgType, 1))
	}
	a.timeoutOn(n4) // operator 4's timer fires before anything reaches it
	a.deliverWhere(n4, func(m *specqbft.SignedMessage) bool { return m.Message.Round == 1 })
	a.timeoutOn(n1)
	a.timeoutOn(n3)
	base := &specqbft.Message{MsgType: specqbft.CommitMsgType, Height: h, Round: 1, Identifier: env.identifier, Root: rV}
	cert := env.sign(2, base)
	for _, w := range a.wire {
		if w.Msg != nil && isT(specqbft.CommitMsgType, 1)(w.Msg) && w.Msg.Message.Root == rV && uint64(len(cert.Signers)) < env.q {
			_ = cert.Aggregate(cloneMsg(w.Msg))
		}
	}
	tags := []string{"case/directed", fmt.Sprintf("directed/laggards-after-private-certificate-compact-%v", compact)}
	if uint64(len(cert.Signers)) < env.q {
		return a.outs(append(tags, "directed/laggards-not-applicable"))
	}
	cert.FullData = V
	a.sendDirect(enc(cert), []*SimNode{n4})
	used, why := a.continuation()
	if used < 0 && why != "cutoff" {
		a.violate("C07/no-decision-within-f+3-rounds"+a.wedgeCause()+a.suffix(), "n=4, operator 2 Byzantine then silent: operator 4 decided through a certificate only it received; with the runner's compaction its round-change container is emptied after every round-change, it is never pulled by the partial quorum of operators 1 and 3, and these two alone cannot form a quorum in any later round")
	} else {
		tags = append(tags, fmt.Sprintf("c07/laggards-scenario-decided-after-%d-rounds", used))
	}
	return a.outs(tags)
}

// scenarioLoneLaggard, n=4, height 0: operator 1 (round-1 leader) is Byzantine. It proposes V to everybody; operators 3 and 4
// (with the Byzantine prepare) prepare and commit V and see each other's commits (two, no quorum); operator 2 accepts the
// proposal but the prepares reach it only after its timer fired. The Byzantine operator aggregates the commits of 3 and 4 and
// its own into a decided certificate and hands it to 3 and 4 only, then stays silent. 3 and 4 are decided: they neither time
// out nor re-broadcast the certificate they accepted; operator 2 alone is fewer than f+1, so its round-changes never pull
// them, and it can never form a quorum. No compaction involved.
func scenarioLoneLaggard() []caseOut {
	env := getEnv(4)
	h := specqbft.Height(0)
	a := newDirected(env, h, []spectypes.OperatorID{1}, false)
	V := valueBytes(1)
	rV := sha256.Sum256(V)
	a.startAll([][]byte{V, V, V, V})
	n2, n3, n4 := a.node(2), a.node(3), a.node(4)
	a.sendDirect(enc(a.f.proposal(1, 1, V, nil, nil)), []*SimNode{n2, n3, n4})
	a.sendDirect(enc(a.f.prepare(1, 1, rV)), []*SimNode{n3, n4})
	for _, nd := range []*SimNode{n3, n4} {
		a.deliverWhere(nd, func(m *specqbft.SignedMessage) bool { return isT(specqbft.PrepareMsgType, 1)(m) && m.Signers[0] != 2 })
	}
	for _, nd := range []*SimNode{n3, n4} {
		a.deliverWhere(nd, isT(specqbft.CommitMsgType, 1))
	}
	a.timeoutOn(n2) // operator 2's timer fires before the prepares reach it
	base := &specqbft.Message{MsgType: specqbft.CommitMsgType, Height: h, Round: 1, Identifier: env.identifier, Root: rV}
	cert := env.sign(1, base)
	for _, w := range a.wire {
		if w.Msg != nil && isT(specqbft.CommitMsgType, 1)(w.Msg) && w.Msg.Message.Root == rV && uint64(len(cert.Signers)) < env.q {
			_ = cert.Aggregate(cloneMsg(w.Msg))
		}
	}
	tags := []string{"case/directed", "directed/lone-laggard"}
	if uint64(len(cert.Signers)) < env.q {
		return a.outs(append(tags, "directed/lone-laggard-not-applicable"))
	}
	cert.FullData = V
	a.sendDirect(enc(cert), []*SimNode{n3, n4})
	used, why := a.continuation()
	if used < 0 && why != "cutoff" {
		a.violate("C07/no-decision-within-f+3-rounds"+a.wedgeCause()+a.suffix(), "n=4, operator 1 Byzantine then silent: operators 3 and 4 decided through a certificate only they received and neither time out nor re-broadcast it; operator 2 alone (fewer than f+1) never pulls them and never forms a quorum")
	} else {
		tags = append(tags, fmt.Sprintf("c07/lone-laggard-scenario-decided-after-%d-rounds", used))
	}
	return a.outs(tags)
}

// scenarioCrossRole (defect repaired by /repo e1612ceed; regression): n=4, first height (leaders: round 1 → 1, round 2 → 2,
// round 3 → 3), operator 3 Byzantine. The round-1 proposal is delayed, the correct operators 1,2,4 time out; operator 2
// (leader of round 2) proposes A on their round-changes; all prepare and commit A, the commits reach operator 1 only, which
// decides A; 2 and 4 time out to round 3. In a second duty role (other identifier, same height) the same operators timed out
// twice without traffic: genuine unprepared round-changes for round 3 carrying the OTHER identifier. The Byzantine leader of
// round 3 proposes B for the role under test, "justified" by those; with its own prepare and commit, 2 and 4 would decide B.
// On the repaired tree the proposal is refused (…/rcNotValid/wrongMsgIdentifier) and nobody reports B.
func scenarioCrossRole() []caseOut {
	env := getEnv(4)
	h := specqbft.Height(0)
	a := newDirected(env, h, []spectypes.OperatorID{3}, false)
	A, B := valueBytes(1), valueBytes(2)
	rB := sha256.Sum256(B)
	a.startAll([][]byte{A, A, A, A})
	a.altValues = [][]byte{A, A, A, A}
	a.altInit(a.altValues)
	n1, n2, n4 := a.node(1), a.node(2), a.node(4)
	correct := []*SimNode{n1, n2, n4}
	for _, nd := range correct {
		a.timeoutOn(nd)
	}
	a.deliverWhere(n2, isT(specqbft.RoundChangeMsgType, 2))
	for _, nd := range correct {
		a.deliverWhere(nd, isT(specqbft.ProposalMsgType, 2))
	}
	for _, nd := range correct {
		a.deliverWhere(nd, isT(specqbft.PrepareMsgType, 2))
	}
	a.deliverWhere(n1, isT(specqbft.CommitMsgType, 2)) // operator 1 decides A
	a.timeoutOn(n2)
	a.timeoutOn(n4)
	// the second duty role: two timeouts without traffic
	for _, nd := range correct {
		a.altTimeout(nd.id)
		a.altTimeout(nd.id)
	}
	var otherRC []*specqbft.SignedMessage
	for _, m := range a.altMaterial() {
		if isT(specqbft.RoundChangeMsgType, 3)(m) && m.Message.DataRound == 0 {
			otherRC = append(otherRC, m)
		}
	}
	victims := []*SimNode{n2, n4}
	a.sendDirect(enc(a.f.proposal(3, 3, B, otherRC, nil)), victims)
	a.sendDirect(enc(a.f.prepare(3, 3, rB)), victims)
	for _, nd := range victims {
		a.deliverWhere(nd, func(m *specqbft.SignedMessage) bool {
			return isT(specqbft.PrepareMsgType, 3)(m) && m.Message.Root == rB
		})
	}
	a.sendDirect(enc(a.f.commit(3, 3, rB)), victims)
	for _, nd := range victims {
		a.deliverWhere(nd, func(m *specqbft.SignedMessage) bool { return isT(specqbft.CommitMsgType, 3)(m) && m.Message.Root == rB })
	}
	return a.outs([]string{"case/directed", "directed/cross-role-justification-replay"})
}
