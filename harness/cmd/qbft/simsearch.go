// Mode sim (C01) and c07: n REAL controllers (n = 4, 7) under a seeded adversarial scheduler — delays, drops,
// duplicates, reorderings, timeouts, up to f Byzantine operators that equivocate proposals per recipient, re-sign mutated
// copies of what they saw, craft round-changes and decided messages from collected material and deliver selectively,
// decided messages arriving after timeouts, optionally the runner's real compaction after every message.
// Every honest node's exact input sequence and canonical outputs are a `reset …` case that is diffed against the Lean model.
//
// Oracles on the real objects (never the model):
//
//	C01  any two honest operators that report a decision (Controller.ProcessMsg returned a decided message) report the
//	     same value; the DecidedValue of a decided honest instance never changes.
//	C07  from the reached state, with the Byzantine operators silent from now on and timely delivery among the correct
//	     ones, the constructed continuation (deliver everything; if undecided: all time out, deliver everything; …) makes
//	     every correct operator decide within f+3 further rounds (unless the cut-off is reached first).
package main

import (
	"bytes"
	"crypto/sha256"
	"fmt"

	specqbft "github.com/bloxapp/ssv-spec/qbft"
	spectypes "github.com/bloxapp/ssv-spec/types"

	"github.com/bloxapp/ssv/zz_verif/lib/hx"
)

type advSim struct {
	*Sim
	r           *hx.Rng
	f           *Forge
	byz         map[spectypes.OperatorID]bool
	pending     map[spectypes.OperatorID][]int // wire indices not yet offered
	done        map[spectypes.OperatorID][]int
	seenWire    int
	reported    map[spectypes.OperatorID][]byte // first decision reported by ProcessMsg
	decVal      map[spectypes.OperatorID][]byte // DecidedValue when the instance first became decided
	viols       []violation
	tags        []string
	compact     bool
	values      [][]byte
	direct      [][]byte // everything the adversary crafted (material for later crafting)
	decidedOnly bool     // compaction policy "decided-only" (needs compact): instance.Compact runs when an operator's instance becomes
	//                    decided (any path) and after every decided certificate it receives, but NOT after round-change messages —
	//                    the first half of the runner's condition. With the full runner policy a decided instance's round-change
	//                    container is emptied after every round-change, so it never takes part in a partial quorum (known C07 finding)
	timeoutFaultPct int // with netFaults: probability (percent) that a firing round timer meets a failing Broadcast
	inContinuation  bool
	prod            bool     // the correct operators' controllers come from the production wiring (prodcfg.go)
	netFaults       bool     // the correct operators' own Broadcast calls fail now and then (after / before sending)
	alt             *altRole // the correct operators' controllers for a second duty role (other identifier), see crossrole.go
	altValues       [][]byte
}

func newAdvSim(env *Env, r *hx.Rng, h specqbft.Height, nByz int, compact, prod bool) *advSim {
	a := &advSim{r: r, byz: map[spectypes.OperatorID]bool{}, pending: map[spectypes.OperatorID][]int{}, done: map[spectypes.OperatorID][]int{},
		reported: map[spectypes.OperatorID][]byte{}, decVal: map[spectypes.OperatorID][]byte{}, compact: compact, prod: prod}
	a.Sim = &Sim{env: env, h: h}
	p := r.Perm(env.n)
	for i := 0; i < nByz; i++ {
		a.byz[spectypes.OperatorID(p[i]+1)] = true
	}
	a.addNodes(env, h, compact)
	a.f = &Forge{env: env, r: r, h: h}
	return a
}

// addNodes: the correct operators' cases share ONE interning table, so that value / root / message ids mean the same thing
// in every node's case of this schedule (a multi-node replay file stays consistent across its `reset` blocks)
func (a *advSim) addNodes(env *Env, h specqbft.Height, compact bool) {
	shared := NewIntern(env.identifier)
	shared.Val(badValue)                        // the rejected value gets the same id everywhere
	shared.Ident(getEnvRole2(env.n).identifier) // the second duty role is identifier 2 everywhere
	for i := 1; i <= env.n; i++ {
		id := spectypes.OperatorID(i)
		nd := &SimNode{id: id, byz: a.byz[id], compact: compact}
		if !nd.byz {
			nd.c = newCaseCfg(env, id, h, [][]byte{badValue}, true, false, compact, a.prod)
			nd.c.in = shared
			nd.c.c07 = *mode == "c07"
			nd.c.emit(nd.c.resetLine(), "ok")
		}
		a.nodes = append(a.nodes, nd)
	}
}

func (a *advSim) honest() []*SimNode {
	var out []*SimNode
	for _, nd := range a.nodes {
		if !nd.byz {
			out = append(out, nd)
		}
	}
	return out
}

func (a *advSim) violate(sig, detail string) {
	for _, v := range a.viols {
		if v.sig == sig {
			return // once per schedule
		}
	}
	var replay []string
	for _, nd := range a.honest() {
		replay = append(replay, nd.c.lines...)
	}
	a.viols = append(a.viols, violation{sig: sig, detail: detail, replay: replay})
}

// distribute newly broadcast wire messages to every honest node's pending list (the sender included: pubsub loopback)
func (a *advSim) distribute() {
	for ; a.seenWire < len(a.wire); a.seenWire++ {
		for _, nd := range a.honest() {
			a.pending[nd.id] = append(a.pending[nd.id], a.seenWire)
		}
	}
}

// suffixPlain: the violation is attributed to the runner's compaction when it was on AND changed some operator's behaviour
func (a *advSim) suffixPlain() string {
	if !a.compact {
		return ""
	}
	for _, nd := range a.honest() {
		if nd.c.diverged {
			return ":runner-compaction-visible"
		}
	}
	return "" // compaction was on but never changed any output: not attributable to it
}

// suffix (agreement oracles): attribution to the compaction PLUS the mechanism of the history, so that the known finding names
// one specific history — a correct operator accepted a second, different proposal for a round (first-proposal record compacted
// away, round lowered by a decided message) — and any other disagreement that merely involves compaction is reported as new.
func (a *advSim) suffix() string {
	s := a.suffixPlain()
	if s == "" {
		return ""
	}
	var cs []*Case
	for _, nd := range a.honest() {
		cs = append(cs, nd.c)
	}
	return s + compactionMechanism(cs)
}

func compactionMechanism(cs []*Case) string {
	for _, c := range cs {
		if c.secondProposal {
			return ":second-proposal-accepted-for-a-round"
		}
	}
	return ":other-history"
}

// after: bookkeeping + agreement oracle after an op on node nd
func (a *advSim) after(nd *SimNode, r ctrlResult) {
	a.distribute()
	// C06 findings of the shadow comparison are only used to attribute a C01 violation to compaction
	if len(nd.c.viols) > 0 {
		nd.c.viols = nil
		a.tags = append(a.tags, "event/compaction-visible")
	}
	if r.retMsg != nil && r.retMsg.Message.Height == a.h {
		if _, ok := a.reported[nd.id]; !ok {
			a.reported[nd.id] = append([]byte{}, r.retMsg.FullData...)
			for id, v := range a.reported {
				if id != nd.id && !bytes.Equal(v, r.retMsg.FullData) {
					a.violate("C01/two-honest-operators-report-different-values"+a.suffix(),
						fmt.Sprintf("operator %d reports value %x.. for height %d, operator %d had reported %x..", nd.id, sha256.Sum256(r.retMsg.FullData), a.h, id, sha256.Sum256(v)))
				}
			}
		}
	}
	if inst := nd.c.ctrl.StoredInstances.FindInstance(a.h); inst != nil && inst.State.Decided {
		if v, ok := a.decVal[nd.id]; !ok {
			a.decVal[nd.id] = append([]byte{}, inst.State.DecidedValue...)
			nd.decided, nd.value = true, inst.State.DecidedValue
		} else if !bytes.Equal(v, inst.State.DecidedValue) {
			a.decVal[nd.id] = append([]byte{}, inst.State.DecidedValue...)
			a.violate("C01/decided-value-of-an-honest-operator-changed"+a.suffix(),
				fmt.Sprintf("operator %d had decided a value for height %d and now holds a different DecidedValue", nd.id, a.h))
		}
		for _, o := range a.honest() {
			if v, ok := a.decVal[o.id]; ok && o.id != nd.id && !bytes.Equal(v, a.decVal[nd.id]) {
				a.violate("C01/two-honest-instances-hold-different-decided-values"+a.suffix(),
					fmt.Sprintf("operators %d and %d hold different DecidedValue for height %d", nd.id, o.id, a.h))
			}
		}
	}
}

func (a *advSim) deliverTo(nd *SimNode, enc []byte) {
	m := decodeMsg(enc)
	if m == nil {
		return
	}
	if a.netFaults && a.r.Chance(2) { // the operator's own network layer fails once
		nd.c.nf = []string{"a", "a", "b"}[a.r.Intn(3)]
		a.tags = append(a.tags, "net/own-broadcast-fails-"+nd.c.nf)
	}
	r := nd.c.applyCtrlDeliver(m)
	a.collect(nd, r.bcasts)
	if a.compact && !a.decidedOnly {
		nd.c.applyCtrlRunnerCompact(decodeMsg(enc))
	} else if a.compact {
		if inst := nd.c.ctrl.StoredInstances.FindInstance(a.h); inst != nil && inst.State.Decided {
			cert := m.Message.MsgType == specqbft.CommitMsgType && uint64(len(m.Signers)) >= a.env.q && m.Message.Height == a.h
			if cert || !nd.decidedCompacted {
				nd.decidedCompacted = true
				nd.c.applyCtrlCompactAt(a.h)
			}
		}
	}
	a.after(nd, r)
}

// timeoutOn: the operator's round timer fires — the ONE timer it armed last (TimeoutForRound replaces the previous one), with
// the height and round it was armed for (Controller.OnTimeout discards a timeout for another round). No live timer: nothing fires.
func (a *advSim) timeoutOn(nd *SimNode) bool {
	c := nd.c
	if !c.armedOK {
		a.tags = append(a.tags, "timer/none-live")
		return false
	}
	if a.netFaults && c.nf == "" && a.r.Chance(a.timeoutFaultPct) { // the operator's own network layer fails exactly at the round expiry
		c.nf = "a"
		if !a.inContinuation && a.r.Chance(40) {
			c.nf = "b" // (the continuation assumes that what correct operators send arrives: only "error after sending" there)
		}
		a.tags = append(a.tags, "net/own-broadcast-fails-at-timeout-"+c.nf)
	}
	r := c.applyCtrlTimeout(specqbft.Height(c.armedH), specqbft.Round(c.armedR))
	a.collect(nd, r.bcasts)
	a.after(nd, r)
	return true
}

func (a *advSim) startAll(vals [][]byte) {
	a.values = vals
	for i, nd := range a.nodes {
		if nd.byz {
			continue
		}
		r := nd.c.applyCtrlStart(a.h, vals[i])
		a.collect(nd, r.bcasts)
		a.after(nd, r)
	}
}

func (a *advSim) byzIDs() []spectypes.OperatorID {
	var out []spectypes.OperatorID
	for i := 1; i <= a.env.n; i++ {
		if a.byz[spectypes.OperatorID(i)] {
			out = append(out, spectypes.OperatorID(i))
		}
	}
	return out
}

// wireMsgs: decoded messages seen so far (honest broadcasts + adversary's own)
func (a *advSim) material() []*specqbft.SignedMessage {
	var out []*specqbft.SignedMessage
	for _, w := range a.wire {
		if w.Msg != nil {
			out = append(out, w.Msg)
		}
	}
	for _, d := range a.direct {
		if m := decodeMsg(d); m != nil {
			out = append(out, m)
		}
	}
	return out
}

func (a *advSim) sendDirect(enc []byte, to []*SimNode) {
	if enc == nil {
		return
	}
	a.direct = append(a.direct, enc)
	for _, nd := range to {
		a.deliverTo(nd, enc)
	}
}

func (a *advSim) someHonest(k int) []*SimNode {
	h := a.honest()
	p := a.r.Perm(len(h))
	if k > len(h) {
		k = len(h)
	}
	out := make([]*SimNode, k)
	for i := 0; i < k; i++ {
		out[i] = h[p[i]]
	}
	return out
}

// byzAct: one action of a Byzantine operator
func (a *advSim) byzAct() {
	ids := a.byzIDs()
	if len(ids) == 0 {
		return
	}
	r := a.r
	me := ids[r.Intn(len(ids))]
	hs := a.honest()
	target := hs[r.Intn(len(hs))]
	round := a.round(target)
	if round == 0 {
		round = 1
	}
	valA, valB := a.values[0], valueBytes(200+r.Intn(3))
	mat := a.material()
	switch r.Intn(9) {
	case 0, 1: // equivocating proposals of a Byzantine leader (per recipient), for the target's current or next round
		rd := round + specqbft.Round(r.Intn(2))
		ld := a.f.leader(rd)
		if !a.byz[ld] {
			return
		}
		var rcs []*specqbft.SignedMessage
		if rd > 1 { // justification: unprepared round-changes of that round from the wire + own ones
			seen := map[spectypes.OperatorID]bool{}
			for _, m := range mat {
				if m.Message.MsgType == specqbft.RoundChangeMsgType && m.Message.Round == rd && m.Message.DataRound == 0 && len(m.Signers) == 1 && !seen[m.Signers[0]] {
					seen[m.Signers[0]] = true
					rcs = append(rcs, m)
				}
			}
			for _, b := range ids {
				if !seen[b] {
					rcs = append(rcs, a.f.roundChange(b, rd, 0, nil, nil))
				}
			}
		}
		a.tags = append(a.tags, "byz/equivocating-proposal")
		half := len(hs) / 2
		p := r.Perm(len(hs))
		var s1, s2 []*SimNode
		for i, j := range p {
			if i < half {
				s1 = append(s1, hs[j])
			} else {
				s2 = append(s2, hs[j])
			}
		}
		a.sendDirect(enc(a.f.proposal(ld, rd, valA, rcs, nil)), s1)
		a.sendDirect(enc(a.f.proposal(ld, rd, valB, rcs, nil)), s2)
		if r.Chance(50) { // and both to someone
			a.sendDirect(enc(a.f.proposal(ld, rd, valB, rcs, nil)), s1[:hx.Min(1, len(s1))])
		}
	case 2: // prepares / commits for an arbitrary known root to a subset
		root := sha256.Sum256([][]byte{valA, valB}[r.Intn(2)])
		if len(mat) > 0 && r.Bool() {
			root = mat[r.Intn(len(mat))].Message.Root
		}
		to := a.someHonest(1 + r.Intn(len(hs)))
		if r.Bool() {
			a.tags = append(a.tags, "byz/prepare")
			a.sendDirect(enc(a.f.prepare(me, round, root)), to)
		} else {
			a.tags = append(a.tags, "byz/commit")
			a.sendDirect(enc(a.f.commit(me, round, root)), to)
		}
	case 3: // round-change, unprepared or claiming a prepared value with real prepares from the wire
		rd := round + specqbft.Round(r.Intn(3))
		var preps []*specqbft.SignedMessage
		var pr specqbft.Round
		var val []byte
		for _, m := range mat {
			if m.Message.MsgType == specqbft.PrepareMsgType && len(m.Signers) == 1 && (pr == 0 || (m.Message.Round == pr && m.Message.Root == preps[0].Message.Root)) {
				if pr == 0 {
					for _, v := range append(append([][]byte{}, a.values...), valB) {
						if sha256.Sum256(v) == m.Message.Root {
							val = v
						}
					}
					if val == nil {
						continue
					}
					pr = m.Message.Round
				}
				preps = append(preps, m)
			}
		}
		a.tags = append(a.tags, "byz/round-change")
		if pr != 0 && r.Chance(25) {
			preps, _ = repeatMsgs(r, preps, a.env.q, a.env.n)
			a.tags = append(a.tags, "byz/round-change-with-repeated-prepares")
		}
		if pr != 0 && r.Bool() {
			a.sendDirect(enc(a.f.roundChange(me, rd, pr, val, preps)), a.someHonest(1+r.Intn(len(hs))))
		} else {
			a.sendDirect(enc(a.f.roundChange(me, rd, 0, nil, nil)), a.someHonest(1+r.Intn(len(hs))))
		}
	case 4, 5: // decided message crafted from collected commits (+ own), preferably to nodes that already timed out
		type key struct {
			r    specqbft.Round
			root [32]byte
		}
		groups := map[key]map[spectypes.OperatorID]*specqbft.SignedMessage{}
		var order []key
		for _, m := range mat {
			if m.Message.MsgType == specqbft.CommitMsgType && len(m.Signers) == 1 && m.Message.Height == a.h {
				k := key{m.Message.Round, m.Message.Root}
				if groups[k] == nil {
					groups[k] = map[spectypes.OperatorID]*specqbft.SignedMessage{}
					order = append(order, k)
				}
				groups[k][m.Signers[0]] = m
			}
		}
		for _, k := range order {
			g := groups[k]
			var val []byte
			for _, v := range append(append([][]byte{}, a.values...), valB) {
				if sha256.Sum256(v) == k.root {
					val = v
				}
			}
			if val == nil {
				continue
			}
			signers := map[spectypes.OperatorID]bool{}
			for id := range g {
				signers[id] = true
			}
			for _, b := range ids {
				signers[b] = true
			}
			if uint64(len(signers)) < a.env.q {
				continue
			}
			var sl []spectypes.OperatorID
			for i := 1; i <= a.env.n && uint64(len(sl)) < a.env.q+uint64(r.Intn(2)); i++ {
				if signers[spectypes.OperatorID(i)] {
					sl = append(sl, spectypes.OperatorID(i))
				}
			}
			// honest signers' signatures cannot be forged: the aggregate is built from THEIR real commit messages
			base := &specqbft.Message{MsgType: specqbft.CommitMsgType, Height: a.h, Round: k.r, Identifier: a.env.identifier, Root: k.root}
			var agg *specqbft.SignedMessage
			ok := true
			for _, id := range sl {
				var part *specqbft.SignedMessage
				if a.byz[id] {
					part = a.env.sign(id, base)
				} else if g[id] != nil {
					part = cloneMsg(g[id])
				} else {
					ok = false
					break
				}
				if agg == nil {
					agg = part
				} else if err := agg.Aggregate(part); err != nil {
					ok = false
					break
				}
			}
			if !ok || agg == nil {
				continue
			}
			agg.FullData = val
			a.tags = append(a.tags, "byz/decided-from-collected-commits")
			var to []*SimNode
			for _, nd := range hs {
				if a.round(nd) > k.r || r.Chance(30) {
					to = append(to, nd)
				}
			}
			a.sendDirect(enc(agg), to)
			return
		}
	default: // a re-signed mutated copy of something seen
		if len(mat) == 0 {
			return
		}
		mu := &Mutator{env: a.env, r: r, pool: mat}
		m := cloneMsg(mat[r.Intn(len(mat))])
		if m == nil {
			return
		}
		m.Signers = []spectypes.OperatorID{me}
		if b, kind, _ := mu.mutate(m); b != nil {
			if mm := decodeMsg(b); mm != nil && len(mm.Signers) == 1 && mm.Signers[0] == me {
				s := a.env.sign(me, &mm.Message)
				mm.Signature = s.Signature
				a.tags = append(a.tags, "byz/mutated:"+kind)
				a.sendDirect(enc(mm), a.someHonest(1+r.Intn(len(hs))))
			}
		}
	}
}

// schedStep: one step of the adversarial scheduler
func (a *advSim) schedStep() {
	r := a.r
	hs := a.honest()
	nd := hs[r.Intn(len(hs))]
	p := a.pending[nd.id]
	switch x := r.Intn(100); {
	case x < 74 && len(p) > 0: // deliver, mostly in order with a reorder window
		w := hx.Min(len(p), 1+r.Intn(6))
		i := r.Intn(w)
		idx := p[i]
		a.pending[nd.id] = append(append([]int{}, p[:i]...), p[i+1:]...)
		a.done[nd.id] = append(a.done[nd.id], idx)
		a.deliverTo(nd, a.wire[idx].Enc)
	case x < 76 && len(p) > 0: // drop
		i := r.Intn(hx.Min(len(p), 4))
		a.pending[nd.id] = append(append([]int{}, p[:i]...), p[i+1:]...)
		a.tags = append(a.tags, "net/drop")
	case x < 80 && len(a.done[nd.id]) > 0: // duplicate
		d := a.done[nd.id]
		a.tags = append(a.tags, "net/duplicate")
		a.deliverTo(nd, a.wire[d[r.Intn(len(d))]].Enc)
	case x < 85: // timeout (the timers of both duty roles fire together most of the time)
		a.tags = append(a.tags, "net/timeout")
		a.timeoutOn(nd)
		if a.alt != nil && r.Chance(70) {
			a.altTimeout(nd.id)
		}
	case x < 88:
		switch y := r.Intn(10); {
		case y < 2:
			a.pullLaggards()
		case y < 3:
			a.dropRoundChanges(0)
		default:
			a.altStep()
		}
	case x < 95:
		if a.alt != nil && r.Chance(30) {
			a.byzCrossRole()
		} else if r.Chance(30) {
			a.byzAct2()
		} else {
			a.byzAct()
		}
	default: // burst: deliver everything pending to one node
		for len(a.pending[nd.id]) > 0 {
			idx := a.pending[nd.id][0]
			a.pending[nd.id] = a.pending[nd.id][1:]
			a.done[nd.id] = append(a.done[nd.id], idx)
			a.deliverTo(nd, a.wire[idx].Enc)
		}
	}
}

// leaderHold: the continuation is free to choose the delivery order. The leader of a round takes the value to propose from
// the round-change that COMPLETES its quorum (hasReceivedProposalJustificationForLeadingRound is evaluated once, on the quorum
// edge, with `valueToPropose = signedRoundChange.FullData` of the triggering message). So the continuation holds the
// round-changes addressed to the leader of its current round back until a quorum of them is available and then hands them
// over with the highest-prepared one exactly on the quorum edge. Returns the pending indices to deliver now (in order) and
// the ones held back.
func (a *advSim) leaderHold(nd *SimNode, release bool) (now, held []int) {
	p := a.pending[nd.id]
	inst := nd.c.ctrl.StoredInstances.FindInstance(a.h)
	if inst == nil || inst.State.Decided {
		return p, nil
	}
	r := inst.State.Round
	if a.f.leader(r) != nd.id {
		return p, nil
	}
	have := map[spectypes.OperatorID]bool{}
	for _, m := range inst.State.RoundChangeContainer.MessagesForRound(r) {
		for _, s := range m.Signers {
			have[s] = true
		}
	}
	need := int(a.env.q) - len(have)
	if need <= 0 {
		return p, nil
	}
	var rcs, rest []int
	seen := map[spectypes.OperatorID]bool{}
	for _, idx := range p {
		m := a.wire[idx].Msg
		if m != nil && m.Message.MsgType == specqbft.RoundChangeMsgType && m.Message.Round == r && len(m.Signers) == 1 && !have[m.Signers[0]] && !seen[m.Signers[0]] {
			seen[m.Signers[0]] = true
			rcs = append(rcs, idx)
		} else {
			rest = append(rest, idx)
		}
	}
	if len(rcs) == 0 {
		return p, nil
	}
	// choose a CONSISTENT quorum: the round-changes handed over up to the quorum edge (together with those already recorded)
	// must not hold locks on different roots, otherwise no value is justifiable (validRoundChangeForData is applied to every
	// member). Prefer the lock with the highest prepared round; round-changes with another lock are handed over after the edge.
	type lock struct {
		root [32]byte
		dr   specqbft.Round
	}
	var locks []lock
	addLock := func(m *specqbft.SignedMessage) {
		if m.Message.DataRound == 0 {
			return
		}
		for i := range locks {
			if locks[i].root == m.Message.Root {
				if m.Message.DataRound > locks[i].dr {
					locks[i].dr = m.Message.DataRound
				}
				return
			}
		}
		locks = append(locks, lock{m.Message.Root, m.Message.DataRound})
	}
	recorded := inst.State.RoundChangeContainer.MessagesForRound(r)
	for _, m := range recorded {
		addLock(m)
	}
	for _, idx := range rcs {
		addLock(a.wire[idx].Msg)
	}
	for i := 1; i < len(locks); i++ { // highest prepared round first
		for j := i; j > 0 && locks[j].dr > locks[j-1].dr; j-- {
			locks[j], locks[j-1] = locks[j-1], locks[j]
		}
	}
	compatible := func(m *specqbft.SignedMessage, l *lock) bool {
		return m.Message.DataRound == 0 || l == nil || m.Message.Root == l.root
	}
	chosen, later := rcs, []int(nil)
	var pick *lock
	candidates := make([]*lock, 0, len(locks)+1)
	for i := range locks {
		candidates = append(candidates, &locks[i])
	}
	if len(locks) > 1 {
		for _, l := range candidates {
			ok := true
			for _, m := range recorded {
				if !compatible(m, l) {
					ok = false
				}
			}
			var c, o []int
			for _, idx := range rcs {
				if compatible(a.wire[idx].Msg, l) {
					c = append(c, idx)
				} else {
					o = append(o, idx)
				}
			}
			if ok && (len(c) >= need || release) && len(c) > 0 {
				chosen, later, pick = c, o, l
				break
			}
		}
	}
	_ = pick
	if len(chosen) < need && !release {
		return rest, rcs
	}
	best := 0
	for i, idx := range chosen {
		if a.wire[idx].Msg.Message.DataRound > a.wire[chosen[best]].Msg.Message.DataRound {
			best = i
		}
	}
	var others []int
	for i, idx := range chosen {
		if i != best {
			others = append(others, idx)
		}
	}
	k := need - 1
	if k > len(others) {
		k = len(others)
	}
	out := append([]int{}, others[:k]...)
	out = append(out, chosen[best])
	out = append(out, others[k:]...)
	out = append(out, later...)
	return append(out, rest...), nil
}

// flushHonest: timely delivery of everything pending among the correct operators until quiescence
func (a *advSim) flushHonest(limit int) {
	cnt := 0
	release := false
	for cnt < limit {
		progress := false
		for _, nd := range a.honest() {
			for cnt < limit {
				now, held := a.leaderHold(nd, release)
				if len(now) == 0 {
					break
				}
				idx := now[0]
				a.pending[nd.id] = append(append([]int{}, now[1:]...), held...)
				a.done[nd.id] = append(a.done[nd.id], idx)
				a.deliverTo(nd, a.wire[idx].Enc)
				cnt++
				progress = true
			}
		}
		if !progress {
			if release {
				return
			}
			release = true // nothing else can move: hand over what was held back
		} else {
			release = false
		}
	}
}

func (a *advSim) allDecided() bool {
	for _, nd := range a.honest() {
		inst := nd.c.ctrl.StoredInstances.FindInstance(a.h)
		if inst == nil || !inst.State.Decided {
			return false
		}
	}
	return true
}

func (a *advSim) maxRound() specqbft.Round {
	var m specqbft.Round
	for _, nd := range a.honest() {
		if r := a.round(nd); r > m {
			m = r
		}
	}
	return m
}

// continuation (C07): Byzantine operators silent from now on; returns the number of further rounds used, or -1
func (a *advSim) continuation() (int, string) {
	f := (a.env.n - 1) / 3
	start := a.maxRound()
	budget := f + 3
	// messages that were dropped or are still in flight are re-sent: what is on the wire is delivered to everybody
	for _, nd := range a.honest() {
		seen := map[int]bool{}
		for _, i := range a.done[nd.id] {
			seen[i] = true
		}
		for _, i := range a.pending[nd.id] {
			seen[i] = true
		}
		for i := range a.wire {
			if !seen[i] {
				a.pending[nd.id] = append(a.pending[nd.id], i)
			}
		}
	}
	pullTried := false
	a.inContinuation = true
	for step := 0; ; step++ {
		a.flushHonest(20000)
		if a.allDecided() {
			used := int(a.maxRound()) - int(start)
			if used < 0 { // a decided message may have lowered the rounds
				used = 0
			}
			return used, ""
		}
		if int(a.maxRound())-int(start) >= budget {
			return -1, "budget"
		}
		if int(a.maxRound())+1 >= 15 {
			return -1, "cutoff"
		}
		// timers. Only live timers fire, with the round they were armed for. (1) first choice, once: if at least f+1 undecided
		// operators are in the highest round and others are behind, only those in front time out — their announcements must
		// pull the others (partial quorum); (2) operators still behind are aligned by their own timers; (3) everybody in the
		// same round: all undecided operators time out.
		var und []*SimNode
		var mr specqbft.Round
		for _, nd := range a.honest() {
			if inst := nd.c.ctrl.StoredInstances.FindInstance(a.h); inst != nil && !inst.State.Decided {
				und = append(und, nd)
				if inst.State.Round > mr {
					mr = inst.State.Round
				}
			}
		}
		var top, behind []*SimNode
		for _, nd := range und {
			if a.round(nd) == mr {
				top = append(top, nd)
			} else {
				behind = append(behind, nd)
			}
		}
		fired := false
		switch {
		case len(behind) > 0 && !pullTried && uint64(len(top)) >= a.env.pq:
			pullTried = true
			a.tags = append(a.tags, "c07/continuation-pull-by-f+1")
			for _, nd := range top {
				fired = a.timeoutOn(nd) || fired
			}
		case len(behind) > 0:
			for _, nd := range behind {
				for a.round(nd) < mr && a.timeoutOn(nd) {
					fired = true
				}
			}
			if !fired { // nobody behind can move by itself any more: the front moves on (and may pull)
				for _, nd := range top {
					fired = a.timeoutOn(nd) || fired
				}
			}
		default:
			for _, nd := range top {
				fired = a.timeoutOn(nd) || fired
			}
		}
		if !fired {
			return -1, "no-live-timer"
		}
	}
}

func (a *advSim) outs(extra []string) []caseOut {
	var outs []caseOut
	if *mode == "c07" {
		var cs []*Case
		for _, nd := range a.honest() {
			cs = append(cs, nd.c)
		}
		if d, ok := refusedCorrectProposals(cs); ok {
			a.violate("C07/correct-leaders-proposal-refused", d)
		}
	}
	for i, nd := range a.honest() {
		t := append([]string{}, extra...)
		if i == 0 {
			t = append(t, a.tags...)
		}
		nd.c.viols = nil
		o := finishCase(nd.c, t)
		if i == 0 {
			o.viols = a.viols
		}
		outs = append(outs, o)
	}
	return append(outs, a.altOuts(nil)...)
}

// runSim: one adversarial schedule (mode sim)
func runSim(r *hx.Rng, withContinuation bool) []caseOut {
	env := getEnv([]int{4, 4, 4, 7}[r.Intn(4)])
	f := (env.n - 1) / 3
	nByz := r.Intn(f + 1)
	hs := []uint64{0, 1, 2, 3, 5, 6, 9}
	h := specqbft.Height(hs[r.Intn(len(hs))])
	compact := r.Chance(40)
	prod := r.Chance(25)
	a := newAdvSim(env, r, h, nByz, compact, prod)
	vals := make([][]byte, env.n)
	same := r.Chance(40)
	base := r.Intn(50)
	for i := range vals {
		if same {
			vals[i] = valueBytes(base)
		} else {
			vals[i] = valueBytes(base + i)
		}
	}
	a.netFaults = r.Chance(40)
	a.timeoutFaultPct = []int{5, 15, 40}[r.Intn(3)]
	a.decidedOnly = compact && r.Chance(30)
	a.startAll(vals)
	if r.Chance(60) { // the correct operators also run a second duty role at this height
		a.altValues = make([][]byte, env.n)
		for i := range a.altValues {
			a.altValues[i] = valueBytes(120 + base%7 + i%2)
		}
		a.altInit(a.altValues)
	}
	steps := 30 + r.Intn(170)
	if withContinuation {
		steps = r.Intn(140)
	}
	for k := 0; k < steps; k++ {
		a.schedStep()
	}
	tags := []string{"case/sim", fmt.Sprintf("n/%d", env.n), fmt.Sprintf("byz/%d", nByz), fmt.Sprintf("config/production-%v", prod), fmt.Sprintf("compaction/%v", compact), fmt.Sprintf("compaction-decided-only/%v", a.decidedOnly), fmt.Sprintf("second-role/%v", a.alt != nil)}
	if withContinuation {
		used, why := a.continuation()
		if used < 0 {
			if why == "cutoff" {
				tags = append(tags, "c07/cutoff-reached")
			} else {
				a.violate("C07/no-decision-within-f+3-rounds"+a.wedgeCause()+a.suffixPlain(), fmt.Sprintf("n=%d, %d silent Byzantine: the constructed timely continuation did not make all correct operators decide within f+3=%d rounds", env.n, nByz, f+3))
			}
		} else {
			tags = append(tags, fmt.Sprintf("c07/decided-after-%d-rounds", used))
		}
	}
	ndec := 0
	for _, nd := range a.honest() {
		if nd.decided {
			ndec++
		}
	}
	tags = append(tags, fmt.Sprintf("sim/decided-%d-of-%d", ndec, len(a.honest())))
	return a.outs(tags)
}

// wedgeCause names the structural reason why the correct operators cannot decide any more:
//   - correct-operators-locked-on-different-values (DESIGN §8-10): undecided correct operators hold locks on different values,
//     so every round-change quorum among them contains prepared round-changes for two roots and no proposal is justifiable;
//   - decided-operators-stop-participating: some correct operators are decided (through a certificate the others never
//     received — a decided operator neither times out nor re-broadcasts the certificate it accepted) and the undecided correct
//     operators alone are fewer than a quorum.
func (a *advSim) wedgeCause() string {
	var cs []*Case
	for _, nd := range a.honest() {
		cs = append(cs, nd.c)
	}
	if st := a.wedgeCauseStructural(); st != ":other" {
		return st
	}
	if sp := wedgeCauseOf(cs); sp != "" {
		return sp
	}
	return ":other"
}

// wedgeCauseOf: causes that cannot occur on a tree on which the step-level oracles (c07.go) hold
func wedgeCauseOf(cs []*Case) string {
	for _, c := range cs {
		inst := c.ctrl.StoredInstances.FindInstance(c.height)
		if inst == nil || inst.State.Decided || !inst.CanProcessMessages() {
			continue
		}
		if !c.armedOK || c.armedR != uint64(inst.State.Round) || c.armedH != uint64(c.height) {
			return ":operator-without-live-round-timer"
		}
	}
	for _, c := range cs {
		inst := c.ctrl.StoredInstances.FindInstance(c.height)
		if inst == nil || inst.State.Decided || !inst.CanProcessMessages() {
			continue
		}
		signers := map[spectypes.OperatorID]bool{}
		for _, x := range inst.State.RoundChangeContainer.AllMessaged() {
			if x.Message.Round > inst.State.Round {
				for _, s := range x.Signers {
					signers[s] = true
				}
			}
		}
		if uint64(len(signers)) >= c.env.pq {
			return ":operator-not-pulled-by-f+1-round-changes"
		}
	}
	return ""
}

func (a *advSim) wedgeCauseStructural() string {
	vals := map[string]bool{}
	undecided, decided := 0, 0
	for _, nd := range a.honest() {
		inst := nd.c.ctrl.StoredInstances.FindInstance(a.h)
		if inst != nil && inst.State.Decided {
			decided++
			continue
		}
		undecided++
		if inst != nil && inst.State.LastPreparedRound != 0 {
			vals[string(inst.State.LastPreparedValue)] = true
		}
	}
	if len(vals) > 1 {
		return ":correct-operators-locked-on-different-values"
	}
	if decided > 0 && uint64(undecided) < a.env.q {
		return ":decided-operators-stop-participating"
	}
	return ":other"
}
