// PRODUCTION-CONFIG cases: the controller under test is the one a real node builds — operator/validator.SetupRunners(ctx, logger,
// validator.Options{…}) and `runners[BNRoleAttester].GetBaseRunner().QBFTController` — so the production ProposerF closure,
// SignatureVerification flag, ValueCheckF (ssv-spec AttesterValueCheckF), Domain (ssvtypes.GetDefaultDomain(), injected the way a
// node injects its network's domain: SetDefaultDomain) and identifier are the ones exercised. Swapped, because they must be
// controlled: Timer (→ the recording deterministic timer, through the *qbft.Config behind GetConfig()), Network (→ recorder),
// Storage (real ibft/storage stores on the in-memory Badger behind the recorder). A NON-nil MessageValidator is configured, as in
// a real node. The harness's own qbft.Config (env.go nodeConfig) remains for the other cases.
package main

import (
	"context"
	"crypto/sha256"
	"fmt"
	"sync"

	"github.com/attestantio/go-eth2-client/spec"
	"github.com/attestantio/go-eth2-client/spec/phase0"
	specqbft "github.com/bloxapp/ssv-spec/qbft"
	spectypes "github.com/bloxapp/ssv-spec/types"
	"github.com/bloxapp/ssv-spec/types/testingutils"

	ibftstorage "github.com/bloxapp/ssv/ibft/storage"
	"github.com/bloxapp/ssv/message/validation"
	"github.com/bloxapp/ssv/networkconfig"
	opvalidator "github.com/bloxapp/ssv/operator/validator"
	beaconprotocol "github.com/bloxapp/ssv/protocol/v2/blockchain/beacon"
	"github.com/bloxapp/ssv/protocol/v2/qbft"
	"github.com/bloxapp/ssv/protocol/v2/qbft/controller"
	ssvvalidator "github.com/bloxapp/ssv/protocol/v2/ssv/validator"
	ssvtypes "github.com/bloxapp/ssv/protocol/v2/types"
)

var prodOnce sync.Once

var prodRoles = []spectypes.BeaconRole{spectypes.BNRoleAttester, spectypes.BNRoleProposer, spectypes.BNRoleAggregator, spectypes.BNRoleSyncCommittee,
	spectypes.BNRoleSyncCommitteeContribution, spectypes.BNRoleValidatorRegistration, spectypes.BNRoleVoluntaryExit}

// prodController: the attester-role QBFT controller of validator.SetupRunners for operator c.op
func (c *Case) prodController(rc *recorder) (*controller.Controller, *qbft.Config) {
	prodOnce.Do(func() { ssvtypes.SetDefaultDomain(testingutils.TestingSSVDomainType) }) // the node's network-config domain injection
	stores := ibftstorage.NewStores()
	for _, role := range prodRoles {
		stores.Add(role, newStore(rc))
	}
	share := &ssvtypes.SSVShare{Share: *c.env.share(c.op), Metadata: ssvtypes.Metadata{
		BeaconMetadata: &beaconprotocol.ValidatorMetadata{Index: testingutils.TestingValidatorIndex}}}
	opts := ssvvalidator.Options{
		Network:          rc,
		Beacon:           testingutils.NewTestingBeaconNode(),
		BeaconNetwork:    beaconprotocol.NewNetwork(spectypes.BeaconTestNetwork),
		Storage:          stores,
		SSVShare:         share,
		Signer:           testingutils.NewTestingKeyManager(),
		MessageValidator: validation.NewMessageValidator(networkconfig.TestNetwork),
	}
	runners := opvalidator.SetupRunners(context.Background(), logger, opts)
	r, ok := runners[spectypes.BNRoleAttester]
	if !ok {
		panic("harness: SetupRunners returned no attester runner")
	}
	ct := r.GetBaseRunner().QBFTController
	cfg, ok := ct.GetConfig().(*qbft.Config)
	if !ok {
		panic("harness: controller config is not *qbft.Config")
	}
	cfg.Timer = nodeTimer{rc}
	if string(ct.Identifier) != string(c.env.identifier) {
		panic("harness: production identifier differs from the environment's")
	}
	return ct, cfg
}

// ---------------------------------------------------------------- consensus values: valid attester ConsensusData

var valueCache sync.Map // int -> []byte

// valueBytes(k): the k-th consensus value. A VALID encoded attester ConsensusData (duty of the testing validator, attestation data
// whose block root carries k), so that the production value check (ssv-spec AttesterValueCheckF) accepts it; for the harness's own
// value check (everything but the listed bad values) it is just bytes.
func valueBytes(k int) []byte {
	if v, ok := valueCache.Load(k); ok {
		return v.([]byte)
	}
	att := &phase0.AttestationData{
		Slot:            testingutils.TestingDutySlot,
		Index:           testingutils.TestingAttesterDuty.CommitteeIndex,
		BeaconBlockRoot: phase0.Root{byte(k), byte(k >> 8), byte(k >> 16), 0xc0, 0x15},
		Source:          &phase0.Checkpoint{Epoch: 0, Root: phase0.Root{1}},
		Target:          &phase0.Checkpoint{Epoch: 1, Root: phase0.Root{2}},
	}
	b, err := att.MarshalSSZ()
	if err != nil {
		panic(err)
	}
	cd := &spectypes.ConsensusData{Duty: testingutils.TestingAttesterDuty, DataSSZ: b, Version: spec.DataVersionPhase0}
	enc, err := cd.Encode()
	if err != nil {
		panic(err)
	}
	valueCache.Store(k, enc)
	return enc
}

// ---------------------------------------------------------------- directed production-config scenarios

// scenarioProdLeaderOfAskedRound (mode c06; indirect seeded change X-m05: the production ProposerF closure answers for state.Round
// instead of the round asked about): instance three-way with the PRODUCTION config. The operator is in round `cur`; it receives a
// proposal for round cur+1, justified by a quorum of unprepared round-changes, from the leader of round `cur` (wrong: refused by the
// reference) and then from the leader of round cur+1 (right: accepted by the reference, the operator moves to cur+1 and prepares).
func scenarioProdLeaderOfAskedRound(n int, h specqbft.Height, cur specqbft.Round, ctrl bool) caseOut {
	env := getEnv(n)
	f := &Forge{env: env, h: h}
	k := cur + 1
	right, wrong := f.leader(k), f.leader(cur)
	op := spectypes.OperatorID(1)
	for op == right || op == wrong {
		op++
	}
	var rcs []*specqbft.SignedMessage
	cnt := uint64(0)
	for i := 1; i <= n && cnt < env.q; i++ {
		if spectypes.OperatorID(i) != op {
			rcs = append(rcs, f.roundChange(spectypes.OperatorID(i), k, 0, nil, nil))
			cnt++
		}
	}
	X := valueBytes(9)
	c := newCaseCfg(env, op, h, [][]byte{badValue}, ctrl, !ctrl, false, true)
	c.c02 = ctrl && *mode == "c02"
	c.emit(c.resetLine(), "ok")
	deliver := func(m *specqbft.SignedMessage) {
		if ctrl {
			c.applyCtrlDeliver(decodeMsg(enc(m)))
		} else {
			c.applyInstDeliver(enc(m))
		}
	}
	if ctrl {
		c.applyCtrlStart(h, valueBytes(3))
		for rd := specqbft.Round(1); rd < cur; rd++ {
			c.applyCtrlTimeout(h, rd)
		}
	} else {
		c.applyInstStart(valueBytes(3), h)
		for rd := specqbft.Round(1); rd < cur; rd++ {
			c.applyInstTimeout()
		}
	}
	deliver(f.proposal(wrong, k, X, rcs, nil))
	deliver(f.proposal(right, k, X, rcs, nil))
	root := sha256.Sum256(X)
	for _, rc := range rcs { // the same operators prepare and commit it: a local decision
		deliver(f.prepare(rc.Signers[0], k, root))
	}
	for _, rc := range rcs {
		deliver(f.commit(rc.Signers[0], k, root))
	}
	return finishCase(c, []string{"case/directed", "config/production-true", fmt.Sprintf("directed/production-leader-of-asked-round-n%d-cur%d-ctrl-%v", n, cur, ctrl)})
}

// scenarioProdOneSignatureCertificate (mode c02; indirect seeded change X-m04: SignatureVerification off when a message validator is
// configured): controller from the PRODUCTION wiring. One committee member sends (a) a decided message listing a quorum of signers
// whose signature is only its own, for the current and for a future height, (b) a proposal "of the leader" signed with its own
// key, then prepares and commits "of" the others signed with its own key. All must be refused; no decision may be reported.
func scenarioProdOneSignatureCertificate(n int, h specqbft.Height) caseOut {
	env := getEnv(n)
	f := &Forge{env: env, h: h}
	op := spectypes.OperatorID(1)
	byz := spectypes.OperatorID(2)
	c := newCaseCfg(env, op, h, [][]byte{badValue}, true, false, false, true)
	c.c02 = true
	c.emit(c.resetLine(), "ok")
	c.applyCtrlStart(h, valueBytes(3))
	Y := valueBytes(8)
	var ids []spectypes.OperatorID
	for i := 2; uint64(len(ids)) < env.q; i++ {
		ids = append(ids, spectypes.OperatorID(i))
	}
	oneSig := func(m *specqbft.SignedMessage, signers []spectypes.OperatorID) *specqbft.SignedMessage {
		s := env.sign(byz, &m.Message)
		s.Signers = signers
		s.FullData = m.FullData
		return s
	}
	for _, hh := range []specqbft.Height{h, h + 1} {
		d := f.decided(ids, hh, 1, Y)
		c.applyCtrlDeliver(decodeMsg(enc(oneSig(d, ids))))
	}
	ld := f.leader(1)
	p := f.proposal(ld, 1, Y, nil, nil)
	c.applyCtrlDeliver(decodeMsg(enc(oneSig(p, []spectypes.OperatorID{ld}))))
	root := sha256.Sum256(Y)
	for _, id := range ids {
		c.applyCtrlDeliver(decodeMsg(enc(oneSig(f.prepare(id, 1, root), []spectypes.OperatorID{id}))))
	}
	for _, id := range ids {
		c.applyCtrlDeliver(decodeMsg(enc(oneSig(f.commit(id, 1, root), []spectypes.OperatorID{id}))))
	}
	return finishCase(c, []string{"case/directed", "config/production-true", fmt.Sprintf("directed/production-one-signature-certificate-n%d", n)})
}
