// PRODUCTION-CONFIG cases: the controller under test is the one a real node builds — operator/validator.SetupRunners(ctx, logger,
// validator.Options{…}) and `runners[BNRoleAttester].GetBaseRunner().QBFTController` — so the production ProposerF closure,
// SignatureVerification flag, ValueCheckF (ssv-spec AttesterValueCheckF), Domain (ssvtypes.GetDefaultDomain(), injected the way a
// node injects its network's domain: SetDefaultDomain) and identifier are the ones exercised. Swapped, because they must be
// controlled: Timer (→ the recording deterministic timer, through the *qbft.Config behind GetConfig()), Network (→ recorder),
// Storage (real ibft/storage stores on the in-memory Badger behind the recorder). A NON-nil MessageValidator is configured, as in
// a real node. The harness's own qbft.Config (env.go nodeConfig) remains for the other cases.
package main

import (
	"context"
	"sync"

	"github.com/attestantio/go-eth2-client/spec"
	"github.com/attestantio/go-eth2-client/spec/phase0"
	specqbft "github.com/bloxapp/ssv-spec/qbft"
	spectypes "github.com/bloxapp/ssv-spec/types"
	"github.com/bloxapp/ssv-spec/types/testingutils"

	ibftstorage "github.com/bloxapp/ssv/ibft/storage"
	"github.com/bloxapp/ssv/message/validation"
	"github.com/bloxapp/ssv/networkconfig"
	opvalidator "github.com/bloxapp/ssv/operator/validator"
	beaconprotocol "github.com/bloxapp/ssv/protocol/v2/blockchain/beacon"
	"github.com/bloxapp/ssv/protocol/v2/qbft"
	"github.com/bloxapp/ssv/protocol/v2/qbft/controller"
	ssvvalidator "github.com/bloxapp/ssv/protocol/v2/ssv/validator"
	ssvtypes "github.com/bloxapp/ssv/protocol/v2/types"
)

var prodOnce sync.Once

var prodRoles = []spectypes.BeaconRole{spectypes.BNRoleAttester, spectypes.BNRoleProposer, spectypes.BNRoleAggregator, spectypes.BNRoleSyncCommittee,
	spectypes.BNRoleSyncCommitteeContribution, spectypes.BNRoleValidatorRegistration, spectypes.BNRoleVoluntaryExit}

// prodController: the attester-role QBFT controller of validator.SetupRunners for operator c.op
func (c *Case) prodController(rc *recorder) (*controller.Controller, *qbft.Config) {
	prodOnce.Do(func() { ssvtypes.SetDefaultDomain(testingutils.TestingSSVDomainType) }) // the node's network-config domain injection
	stores := ibftstorage.NewStores()
	for _, role := range prodRoles {
		stores.Add(role, newStore(rc))
	}
	share := &ssvtypes.SSVShare{Share: *c.env.share(c.op), Metadata: ssvtypes.Metadata{
		BeaconMetadata: &beaconprotocol.ValidatorMetadata{Index: testingutils.TestingValidatorIndex}}}
	opts := ssvvalidator.Options{
		Network:          rc,
		Beacon:           testingutils.NewTestingBeaconNode(),
		BeaconNetwork:    beaconprotocol.NewNetwork(spectypes.BeaconTestNetwork),
		Storage:          stores,
		SSVShare:         share,
		Signer:           testingutils.NewTestingKeyManager(),
		MessageValidator: validation.NewMessageValidator(networkconfig.TestNetwork),
	}
	runners := opvalidator.SetupRunners(context.Background(), logger, opts)
	r, ok := runners[spectypes.BNRoleAttester]
	if !ok {
		panic("harness: SetupRunners returned no attester runner")
	}
	ct := r.GetBaseRunner().QBFTController
	cfg, ok := ct.GetConfig().(*qbft.Config)
	if !ok {
		panic("harness: controller config is not *qbft.Config")
	}
	cfg.Timer = nodeTimer{rc}
	if string(ct.Identifier) != string(c.env.identifier) {
		panic("harness: production identifier differs from the environment's")
	}
	return ct, cfg
}

// ---------------------------------------------------------------- consensus values: valid attester ConsensusData

var valueCache sync.Map // int -> []byte

// valueBytes(k): the k-th consensus value. A VALID encoded attester ConsensusData (duty of the testing validator, attestation data
// whose block root carries k), so that the production value check (ssv-spec AttesterValueCheckF) accepts it; for the harness's own
// value check (everything but the listed bad values) it is just bytes.
func valueBytes(k int) []byte {
	if v, ok := valueCache.Load(k); ok {
		return v.([]byte)
	}
	att := &phase0.AttestationData{
		Slot:            testingutils.TestingDutySlot,
		Index:           testingutils.TestingAttesterDuty.CommitteeIndex,
		BeaconBlockRoot: phase0.Root{byte(k), byte(k >> 8), byte(k >> 16), 0xc0, 0x15},
		Source:          &phase0.Checkpoint{Epoch: 0, Root: phase0.Root{1}},
		Target:          &phase0.Checkpoint{Epoch: 1, Root: phase0.Root{2}},
	}
	b, err := att.MarshalSSZ()
	if err != nil {
		panic(err)
	}
	cd := &spectypes.ConsensusData{Duty: testingutils.TestingAttesterDuty, DataSSZ: b, Version: spec.DataVersionPhase0}
	enc, err := cd.Encode()
	if err != nil {
		panic(err)
	}
	valueCache.Store(k, enc)
	return enc
}

var _ = specqbft.FirstRound
