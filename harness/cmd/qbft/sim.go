// Multi-node simulation of REAL controllers: the source of honest traffic for every mode, and (mode sim) the
// adversarial schedule search for C01/C07. Every node is a controller-mode Case, so each node's exact input sequence
// and canonical outputs are recorded as a self-contained `reset …` case that the Lean model is diffed against.
package main

import (
	specqbft "github.com/bloxapp/ssv-spec/qbft"
	spectypes "github.com/bloxapp/ssv-spec/types"

	"github.com/bloxapp/ssv/protocol/v2/qbft/controller"
)

// ScriptOp: one input of one node (also the unit the single-instance generators mutate).
type ScriptOp struct {
	Kind  string // start | deliver | timeout | compact | rcompact | stop
	Msg   []byte // encoded SignedMessage (deliver, rcompact)
	Value []byte // start
	H     specqbft.Height
	R     specqbft.Round
}

type Wire struct {
	From spectypes.OperatorID
	Enc  []byte
	Msg  *specqbft.SignedMessage // decoded copy for the scheduler's own inspection (never handed to a node)
}

type SimNode struct {
	id               spectypes.OperatorID
	c                *Case
	script           []ScriptOp
	next             int // index of the next wire message not yet offered to this node
	byz              bool
	decided          bool
	value            []byte
	compact          bool // runner-style compaction after each message
	decidedCompacted bool // policy decided-only: instance.Compact already ran on the decided instance
}

type Sim struct {
	env   *Env
	h     specqbft.Height
	nodes []*SimNode // index = operator id - 1
	wire  []*Wire
}

func newSim(env *Env, h specqbft.Height, bad [][]byte) *Sim {
	s := &Sim{env: env, h: h}
	for i := 1; i <= env.n; i++ {
		c := newCase(env, spectypes.OperatorID(i), h, bad, true, false, false)
		c.lines = append(c.lines, c.resetLine())
		c.obs = append(c.obs, "ok")
		s.nodes = append(s.nodes, &SimNode{id: spectypes.OperatorID(i), c: c})
	}
	return s
}

func decodeMsg(enc []byte) *specqbft.SignedMessage {
	m := &specqbft.SignedMessage{}
	if err := m.Decode(enc); err != nil {
		return nil
	}
	return m
}

// collect puts what node nd broadcast during its last op on the wire (encoded: every receiver decodes its own copy).
func (s *Sim) collect(nd *SimNode, bcasts [][]byte) {
	if nd.byz {
		return // a Byzantine operator's honest-code output is only material for the adversary
	}
	for _, b := range bcasts {
		s.wire = append(s.wire, &Wire{From: nd.id, Enc: b, Msg: decodeMsg(b)})
	}
}

func (s *Sim) noteDecision(nd *SimNode) {
	if inst := nd.c.ctrl.StoredInstances.FindInstance(s.h); inst != nil {
		if d, v := inst.IsDecided(); d {
			nd.decided, nd.value = true, v
		}
	}
}

func (s *Sim) start(nd *SimNode, value []byte) ctrlResult {
	r := nd.c.applyCtrlStart(s.h, value)
	nd.script = append(nd.script, ScriptOp{Kind: "start", Value: value, H: s.h})
	s.collect(nd, r.bcasts)
	return r
}

// deliver hands a fresh decoded copy of the encoded message to the node's real controller (+ runner-style compaction).
func (s *Sim) deliver(nd *SimNode, enc []byte) ctrlResult {
	m := decodeMsg(enc)
	r := nd.c.applyCtrlDeliver(m)
	nd.script = append(nd.script, ScriptOp{Kind: "deliver", Msg: enc})
	s.collect(nd, r.bcasts)
	if nd.compact {
		nd.c.applyCtrlRunnerCompact(decodeMsg(enc))
		nd.script = append(nd.script, ScriptOp{Kind: "rcompact", Msg: enc})
	}
	s.noteDecision(nd)
	return r
}

func (s *Sim) timeout(nd *SimNode) ctrlResult {
	var round specqbft.Round = 1
	if inst := nd.c.ctrl.StoredInstances.FindInstance(s.h); inst != nil {
		round = inst.State.Round
	}
	r := nd.c.applyCtrlTimeout(s.h, round)
	nd.script = append(nd.script, ScriptOp{Kind: "timeout", H: s.h, R: round})
	s.collect(nd, r.bcasts)
	return r
}

// flush delivers every wire message not yet offered to each node, in wire order, as long as keep(w, to) holds (messages
// for which keep is false are dropped for that receiver), until no node has anything left. Returns #deliveries.
func (s *Sim) flush(keep func(w *Wire, to *SimNode) bool, limit int) int {
	cnt := 0
	for progress := true; progress && cnt < limit; {
		progress = false
		for _, nd := range s.nodes {
			for nd.next < len(s.wire) && cnt < limit {
				w := s.wire[nd.next]
				nd.next++
				if nd.byz || (keep != nil && !keep(w, nd)) {
					continue
				}
				s.deliver(nd, w.Enc)
				cnt++
				progress = true
			}
		}
	}
	return cnt
}

func (s *Sim) round(nd *SimNode) specqbft.Round {
	if inst := nd.c.ctrl.StoredInstances.FindInstance(s.h); inst != nil {
		return inst.State.Round
	}
	return 0
}

func (s *Sim) instOf(nd *SimNode) *controller.Controller { return nd.c.ctrl }
