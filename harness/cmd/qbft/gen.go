// Generators: honest traffic by RUNNING n real controllers through scripted network conditions, and the mutation
// operators applied to it (every single-field mutation, duplicates, reorderings, timeouts, compaction placements).
package main

import (
	"crypto/sha256"

	specqbft "github.com/bloxapp/ssv-spec/qbft"
	spectypes "github.com/bloxapp/ssv-spec/types"

	"github.com/bloxapp/ssv/zz_verif/lib/hx"
)

// valueBytes: prodcfg.go

var badValue = []byte("rejected-by-value-check")

// Traffic: the per-node input scripts of one multi-node run + everything that was on the wire.
type Traffic struct {
	env      *Env
	h        specqbft.Height
	scenario string
	scripts  [][]ScriptOp // index = operator id - 1
	wire     []*Wire
	values   [][]byte
}

// genTraffic runs n real controllers under one of the scripted network conditions.
func genTraffic(env *Env, r *hx.Rng) *Traffic {
	hs := []uint64{0, 1, 2, 3, 5, 6, 7, 10, 13, 100, 1 << 20}
	h := specqbft.Height(hs[r.Intn(len(hs))])
	s := newSim(env, h, [][]byte{badValue})
	vals := make([][]byte, env.n)
	same := r.Chance(50)
	base := r.Intn(50)
	for i := range vals {
		if same {
			vals[i] = valueBytes(base)
		} else {
			vals[i] = valueBytes(base + i)
		}
	}
	for i, nd := range s.nodes {
		s.start(nd, vals[i])
	}
	scen := []string{"happy", "silent-leader", "commits-lost", "partial-prepare", "two-timeouts", "late-joiner", "commits-lost-twice"}[r.Intn(7)]
	isType := func(w *Wire, t specqbft.MessageType, round specqbft.Round) bool {
		return w.Msg != nil && w.Msg.Message.MsgType == t && w.Msg.Message.Round == round && len(w.Msg.Signers) == 1
	}
	lim := 4000
	switch scen {
	case "happy":
		s.flush(nil, lim)
	case "silent-leader":
		s.flush(func(w *Wire, to *SimNode) bool { return !isType(w, specqbft.ProposalMsgType, 1) }, lim)
		for _, nd := range s.nodes {
			s.timeout(nd)
		}
		s.flush(func(w *Wire, to *SimNode) bool { return !isType(w, specqbft.ProposalMsgType, 1) }, lim)
	case "commits-lost":
		s.flush(func(w *Wire, to *SimNode) bool { return !isType(w, specqbft.CommitMsgType, 1) }, lim)
		for _, nd := range s.nodes {
			s.timeout(nd)
		}
		s.flush(func(w *Wire, to *SimNode) bool { return !isType(w, specqbft.CommitMsgType, 1) }, lim)
	case "commits-lost-twice":
		drop := func(w *Wire, to *SimNode) bool {
			return !isType(w, specqbft.CommitMsgType, 1) && !isType(w, specqbft.CommitMsgType, 2)
		}
		s.flush(drop, lim)
		for _, nd := range s.nodes {
			s.timeout(nd)
		}
		s.flush(drop, lim)
		for _, nd := range s.nodes {
			s.timeout(nd)
		}
		s.flush(drop, lim)
	case "partial-prepare":
		k := 1 + r.Intn(env.n-1) // nodes 1..k see the prepares of round 1
		keep := func(w *Wire, to *SimNode) bool {
			if isType(w, specqbft.CommitMsgType, 1) {
				return false
			}
			if isType(w, specqbft.PrepareMsgType, 1) && int(to.id) > k {
				return false
			}
			return true
		}
		s.flush(keep, lim)
		for _, nd := range s.nodes {
			s.timeout(nd)
		}
		s.flush(keep, lim)
	case "two-timeouts":
		keep := func(w *Wire, to *SimNode) bool {
			return !isType(w, specqbft.ProposalMsgType, 1) && !isType(w, specqbft.ProposalMsgType, 2)
		}
		s.flush(keep, lim)
		for _, nd := range s.nodes {
			s.timeout(nd)
		}
		s.flush(keep, lim)
		for i, nd := range s.nodes { // f+1 nodes time out again: partial quorum pulls the others to round 3
			if uint64(i) < env.pq {
				s.timeout(nd)
			}
		}
		s.flush(keep, lim)
	case "late-joiner":
		late := s.nodes[r.Intn(env.n)]
		s.flush(func(w *Wire, to *SimNode) bool { return to != late }, lim)
		late.next = 0
		s.flush(func(w *Wire, to *SimNode) bool {
			return to != late || (w.Msg != nil && len(w.Msg.Signers) > 1) || r.Chance(40)
		}, lim)
	}
	t := &Traffic{env: env, h: h, scenario: scen, wire: s.wire, values: vals}
	for _, nd := range s.nodes {
		t.scripts = append(t.scripts, nd.script)
	}
	return t
}

// ---------------------------------------------------------------- mutation of one real message

func cloneMsg(m *specqbft.SignedMessage) *specqbft.SignedMessage {
	enc, err := m.Encode()
	if err != nil {
		return nil
	}
	return decodeMsg(enc)
}

// roundTrip: what a node would decode from the wire; nil when the message cannot be encoded at all
func roundTrip(m *specqbft.SignedMessage) []byte {
	enc, err := m.Encode()
	if err != nil {
		return nil
	}
	if decodeMsg(enc) == nil {
		return nil
	}
	return enc
}

type Mutator struct {
	env  *Env
	r    *hx.Rng
	pool []*specqbft.SignedMessage // other messages of the same traffic
}

func (mu *Mutator) otherID(not spectypes.OperatorID) spectypes.OperatorID {
	for {
		id := spectypes.OperatorID(1 + mu.r.Intn(mu.env.n))
		if id != not {
			return id
		}
	}
}

func (mu *Mutator) someRoot() [32]byte {
	switch mu.r.Intn(4) {
	case 0:
		return [32]byte{}
	case 1:
		var x [32]byte
		copy(x[:], mu.r.Bytes(32))
		return x
	default:
		if len(mu.pool) > 0 {
			return mu.pool[mu.r.Intn(len(mu.pool))].Message.Root
		}
		return sha256.Sum256(valueBytes(mu.r.Intn(60)))
	}
}

func (mu *Mutator) resign(m *specqbft.SignedMessage) {
	if len(m.Signers) == 0 {
		return
	}
	s := mu.env.multiSign(m.Signers, &m.Message)
	m.Signature = s.Signature
}

var mutKinds = []string{"type", "height", "round", "root", "signer-swap", "signer-add", "signer-dup", "signer-zero", "signer-foreign",
	"signer-empty", "sig-flip", "sig-swap", "sig-zero", "fulldata", "fulldata-consistent", "fulldata-empty", "fulldata-bad", "ident-empty",
	"ident-other", "dataround", "just-drop", "just-dup", "just-swap", "just-garbage", "just-nested", "just-truncate", "just-add", "multisign-quorum",
	"just-repeat", "just-repeat", "just-repeat", "just-nested"}

// mutate applies ONE field mutation; `resigned` says whether the outer signature was recomputed by the listed signers.
func (mu *Mutator) mutate(orig *specqbft.SignedMessage) (enc []byte, kind string, resigned bool) {
	m := cloneMsg(orig)
	if m == nil {
		return nil, "", false
	}
	r := mu.r
	kind = mutKinds[r.Intn(len(mutKinds))]
	resigned = r.Chance(70)
	msgChanged := true
	switch kind {
	case "type":
		m.Message.MsgType = specqbft.MessageType([]uint64{0, 1, 2, 3, 4, 9}[r.Intn(6)])
	case "height":
		h := uint64(m.Message.Height)
		m.Message.Height = specqbft.Height([]uint64{h + 1, h + 7, h - 1, 1 << 63, 0}[r.Intn(5)])
	case "round":
		rd := uint64(m.Message.Round)
		m.Message.Round = specqbft.Round([]uint64{0, rd + 1, rd + 2, rd - 1, 14, 15, 16, 1 << 63, ^uint64(0), (1 << 63) - 1}[r.Intn(10)])
	case "root":
		m.Message.Root = mu.someRoot()
	case "signer-swap":
		if len(m.Signers) > 0 {
			m.Signers[0] = mu.otherID(m.Signers[0])
		}
		msgChanged = false
	case "signer-add":
		m.Signers = append(m.Signers, mu.otherID(0))
		msgChanged = false
	case "signer-dup":
		if len(m.Signers) > 0 {
			m.Signers = append(m.Signers, m.Signers[r.Intn(len(m.Signers))])
		}
		msgChanged = false
	case "signer-zero":
		if r.Bool() || len(m.Signers) == 0 {
			m.Signers = []spectypes.OperatorID{0}
		} else {
			m.Signers = append(m.Signers, 0)
		}
		msgChanged = false
	case "signer-foreign":
		f := spectypes.OperatorID(mu.env.n + 1 + r.Intn(3))
		if r.Bool() || len(m.Signers) == 0 {
			m.Signers = []spectypes.OperatorID{f}
		} else {
			m.Signers = append(m.Signers, f)
		}
		msgChanged = false
	case "signer-empty":
		m.Signers = nil
		resigned = false
		msgChanged = false
	case "sig-flip":
		if len(m.Signature) > 0 {
			m.Signature[r.Intn(len(m.Signature))] ^= byte(1 << uint(r.Intn(8)))
		}
		resigned, msgChanged = false, false
	case "sig-swap":
		if len(mu.pool) > 0 {
			m.Signature = append([]byte{}, mu.pool[r.Intn(len(mu.pool))].Signature...)
		}
		resigned, msgChanged = false, false
	case "sig-zero":
		m.Signature = make([]byte, 96)
		resigned, msgChanged = false, false
	case "fulldata":
		m.FullData = valueBytes(60 + r.Intn(20))
		resigned, msgChanged = false, false // full data is not part of the signed message
	case "fulldata-consistent":
		m.FullData = valueBytes(60 + r.Intn(20))
		m.Message.Root = sha256.Sum256(m.FullData)
	case "fulldata-empty":
		m.FullData = nil
		if r.Bool() {
			m.Message.Root = sha256.Sum256(nil)
		} else {
			resigned, msgChanged = false, false
		}
	case "fulldata-bad":
		m.FullData = badValue
		m.Message.Root = sha256.Sum256(badValue)
	case "ident-empty":
		m.Message.Identifier = nil
	case "ident-other":
		m.Message.Identifier = append([]byte{}, mu.env.identifier...)
		m.Message.Identifier[len(m.Message.Identifier)-1] ^= 1
	case "dataround":
		rd := uint64(m.Message.Round)
		m.Message.DataRound = specqbft.Round([]uint64{0, 1, rd, rd + 1, 1 << 40}[r.Intn(5)])
	case "just-repeat": // a justification list whose length and number of distinct signers differ; always re-signed
		var cands []*[][]byte
		for _, w := range []*[][]byte{&m.Message.RoundChangeJustification, &m.Message.PrepareJustification} {
			if len(*w) > 1 {
				cands = append(cands, w)
			}
		}
		if len(cands) == 0 {
			kind = "just-add"
			mu.addJust(m)
			break
		}
		which := cands[r.Intn(len(cands))]
		if len(m.Message.PrepareJustification) > 1 && r.Chance(70) {
			which = &m.Message.PrepareJustification
		}
		var ms []*specqbft.SignedMessage
		for _, b := range *which {
			im := &specqbft.SignedMessage{}
			if err := im.UnmarshalSSZ(b); err != nil {
				ms = nil
				break
			}
			ms = append(ms, im)
		}
		if ms == nil {
			break
		}
		rep, how := repeatMsgs(r, ms, mu.env.q, mu.env.n)
		*which = marshalJust(rep)
		kind = "just-repeat:" + how
		if which == &m.Message.PrepareJustification {
			kind += ":prepares"
		} else {
			kind += ":round-changes"
		}
		resigned = true
	case "just-drop", "just-dup", "just-truncate", "just-garbage", "just-nested", "just-swap":
		which := &m.Message.RoundChangeJustification
		if (r.Bool() && len(m.Message.PrepareJustification) > 0) || len(*which) == 0 {
			which = &m.Message.PrepareJustification
		}
		l := *which
		if len(l) == 0 && kind != "just-swap" {
			kind = "just-add"
			mu.addJust(m)
			break
		}
		switch kind {
		case "just-drop":
			i := r.Intn(len(l))
			*which = append(append([][]byte{}, l[:i]...), l[i+1:]...)
		case "just-dup":
			*which = append(append([][]byte{}, l...), l[r.Intn(len(l))])
		case "just-truncate":
			*which = append([][]byte{}, l[:r.Intn(len(l))]...)
		case "just-garbage":
			i := r.Intn(len(l))
			cp := append([][]byte{}, l...)
			if r.Bool() {
				cp[i] = r.Bytes(1 + r.Intn(40))
			} else {
				cp[i] = append([]byte{}, l[i][:len(l[i])/2]...)
			}
			*which = cp
		case "just-swap":
			m.Message.RoundChangeJustification, m.Message.PrepareJustification = m.Message.PrepareJustification, m.Message.RoundChangeJustification
		case "just-nested":
			i := r.Intn(len(l))
			inner := &specqbft.SignedMessage{}
			if err := inner.UnmarshalSSZ(l[i]); err == nil {
				sub := &Mutator{env: mu.env, r: r, pool: mu.pool}
				for try := 0; try < 4; try++ {
					if enc2, k2, _ := sub.mutate(inner); enc2 != nil && k2 != "fulldata" && k2 != "fulldata-empty" {
						if im := decodeMsg(enc2); im != nil {
							if b, err := im.WithoutFUllData().MarshalSSZ(); err == nil {
								cp := append([][]byte{}, l...)
								cp[i] = b
								*which = cp
								kind = "just-nested:" + k2
								break
							}
						}
					}
				}
			}
		}
	case "just-add":
		mu.addJust(m)
	case "multisign-quorum":
		// the same message signed by a quorum (or more) of operators: a proposal/prepare/round-change that "looks decided"
		k := int(mu.env.q) + r.Intn(mu.env.n-int(mu.env.q)+1)
		p := r.Perm(mu.env.n)
		m.Signers = nil
		for i := 0; i < k; i++ {
			m.Signers = append(m.Signers, spectypes.OperatorID(p[i]+1))
		}
		resigned, msgChanged = true, false
	}
	_ = msgChanged
	if resigned {
		mu.resign(m)
	}
	enc = roundTrip(m)
	return enc, kind, resigned
}

func (mu *Mutator) addJust(m *specqbft.SignedMessage) {
	if len(mu.pool) == 0 {
		return
	}
	var l [][]byte
	for i := 0; i < 1+mu.r.Intn(4); i++ {
		if b, err := mu.pool[mu.r.Intn(len(mu.pool))].WithoutFUllData().MarshalSSZ(); err == nil {
			l = append(l, b)
		}
	}
	if mu.r.Bool() {
		m.Message.RoundChangeJustification = l
	} else {
		m.Message.PrepareJustification = l
	}
}

// ---------------------------------------------------------------- op-list level mutations

func poolOf(t *Traffic) []*specqbft.SignedMessage {
	var p []*specqbft.SignedMessage
	for _, w := range t.wire {
		if w.Msg != nil {
			p = append(p, w.Msg)
		}
	}
	return p
}

// mutateScript turns a node's honest input script into a test sequence.
func mutateScript(t *Traffic, script []ScriptOp, r *hx.Rng, tags *[]string) []ScriptOp {
	mu := &Mutator{env: t.env, r: r, pool: poolOf(t)}
	var ops []ScriptOp
	pMut := []int{0, 10, 25, 50}[r.Intn(4)]
	pDup := []int{0, 5, 15}[r.Intn(3)]
	pDrop := []int{0, 0, 10}[r.Intn(3)]
	for _, op := range script {
		if op.Kind == "rcompact" {
			continue
		}
		if op.Kind != "deliver" {
			ops = append(ops, op)
			continue
		}
		if r.Chance(pDrop) {
			*tags = append(*tags, "gen/drop")
			continue
		}
		if r.Chance(pMut) {
			if m := decodeMsg(op.Msg); m != nil {
				if enc, kind, rs := mu.mutate(m); enc != nil {
					rsTag := "/unsigned"
					if rs {
						rsTag = "/resigned"
					}
					*tags = append(*tags, "mut/"+kind+rsTag)
					switch r.Intn(3) {
					case 0: // instead of the original
						ops = append(ops, ScriptOp{Kind: "deliver", Msg: enc})
						continue
					case 1: // before the original
						ops = append(ops, ScriptOp{Kind: "deliver", Msg: enc})
					default: // after the original
						ops = append(ops, op, ScriptOp{Kind: "deliver", Msg: enc})
						continue
					}
				}
			}
		}
		ops = append(ops, op)
		if r.Chance(pDup) {
			*tags = append(*tags, "gen/duplicate")
			ops = append(ops, op)
		}
	}
	// late duplicates and reorderings
	if len(ops) > 2 {
		for k := r.Intn(4); k > 0; k-- {
			i := r.Intn(len(ops))
			if ops[i].Kind == "deliver" {
				j := i + r.Intn(len(ops)-i)
				ops = append(ops[:j+1], append([]ScriptOp{ops[i]}, ops[j+1:]...)...)
				*tags = append(*tags, "gen/late-duplicate")
			}
		}
		for k := r.Intn(5); k > 0; k-- {
			i := 1 + r.Intn(len(ops)-1)
			j := 1 + r.Intn(len(ops)-1)
			if ops[i].Kind != "start" && ops[j].Kind != "start" {
				ops[i], ops[j] = ops[j], ops[i]
				*tags = append(*tags, "gen/reorder")
			}
		}
		for k := r.Intn(3); k > 0; k-- {
			i := 1 + r.Intn(len(ops))
			ops = append(ops[:i], append([]ScriptOp{{Kind: "timeout", H: t.h}}, ops[i:]...)...)
			*tags = append(*tags, "gen/extra-timeout")
		}
		if r.Chance(4) {
			i := 1 + r.Intn(len(ops))
			ops = append(ops[:i], append([]ScriptOp{{Kind: "stop"}}, ops[i:]...)...)
			*tags = append(*tags, "gen/force-stop")
		}
		if r.Chance(5) {
			i := 1 + r.Intn(len(ops))
			ops = append(ops[:i], append([]ScriptOp{{Kind: "start", Value: t.values[0], H: t.h}}, ops[i:]...)...)
			*tags = append(*tags, "gen/second-start")
		}
	}
	return ops
}
