// More Byzantine actions for the multi-node search (each one motivated by an independently seeded change that the earlier
// adversary could not exploit): proposals justified by round-change sets collected for OTHER rounds, justifications that
// carry forged messages in the name of signers whose genuine message of that round the victims already hold (and genuine
// ones next to forged duplicates), and — on the correct operators' side — failures of their own network layer.
package main

import (
	"crypto/sha256"

	specqbft "github.com/bloxapp/ssv-spec/qbft"
	spectypes "github.com/bloxapp/ssv-spec/types"
)

// unpreparedRCs: genuine unprepared round-changes of round `rd` seen so far, one per signer
func unpreparedRCs(mat []*specqbft.SignedMessage, rd specqbft.Round, seen map[spectypes.OperatorID]bool) []*specqbft.SignedMessage {
	var out []*specqbft.SignedMessage
	for _, m := range mat {
		if m.Message.MsgType == specqbft.RoundChangeMsgType && m.Message.Round == rd && m.Message.DataRound == 0 && len(m.Signers) == 1 && !seen[m.Signers[0]] {
			seen[m.Signers[0]] = true
			out = append(out, m)
		}
	}
	return out
}

// forgedUnpreparedRC: an "unprepared" round-change in the name of `id` that `id` never signed (signature of the adversary)
func (a *advSim) forgedUnpreparedRC(by, id spectypes.OperatorID, rd specqbft.Round) *specqbft.SignedMessage {
	m := a.f.roundChange(by, rd, 0, nil, nil)
	m.Signers = []spectypes.OperatorID{id}
	return m
}

// pushDecision: the adversary's own prepare and commit for (rd, value), to make the victims move if they accepted
func (a *advSim) pushDecision(rd specqbft.Round, value []byte, to []*SimNode) {
	root := sha256.Sum256(value)
	for _, b := range a.byzIDs() {
		a.sendDirect(enc(a.f.prepare(b, rd, root)), to)
	}
	for _, b := range a.byzIDs() {
		a.sendDirect(enc(a.f.commit(b, rd, root)), to)
	}
}

// byzAct2: one of the additional actions
func (a *advSim) byzAct2() {
	ids := a.byzIDs()
	if len(ids) == 0 {
		return
	}
	r := a.r
	hs := a.honest()
	target := hs[r.Intn(len(hs))]
	round := a.round(target)
	if round == 0 {
		round = 1
	}
	mat := a.material()
	valB := valueBytes(200 + r.Intn(3))
	// a later round whose leader is Byzantine
	var rd specqbft.Round
	for _, x := range []specqbft.Round{round, round + 1, round + 2} {
		if x >= 2 && a.byz[a.f.leader(x)] {
			rd = x
			break
		}
	}
	if rd == 0 {
		return
	}
	ld := a.f.leader(rd)
	to := hs
	if r.Chance(35) {
		to = a.someHonest(1 + r.Intn(len(hs)))
	}
	switch r.Intn(4) {
	case 3: // genuinely prepared value re-proposed; justification lists with REPEATED entries (length ≠ number of distinct signers)
		type key struct {
			r    specqbft.Round
			root [32]byte
		}
		groups := map[key][]*specqbft.SignedMessage{}
		for _, m := range mat {
			if m.Message.MsgType == specqbft.PrepareMsgType && len(m.Signers) == 1 && m.Message.Round < rd && sigOk(a.env, m) &&
				string(m.Message.Identifier) == string(a.env.identifier) && m.Message.Height == a.h {
				k := key{m.Message.Round, m.Message.Root}
				dup := false
				for _, x := range groups[k] {
					dup = dup || x.Signers[0] == m.Signers[0]
				}
				if !dup {
					groups[k] = append(groups[k], m)
				}
			}
		}
		var best key
		for k, g := range groups {
			if len(g) > len(groups[best]) || (len(g) == len(groups[best]) && k.r > best.r) {
				best = k
			}
		}
		preps := groups[best]
		for _, b := range ids { // the Byzantine operators add their own prepares
			have := false
			for _, x := range preps {
				have = have || x.Signers[0] == b
			}
			if !have && best.r != 0 {
				preps = append(preps, a.f.prepare(b, best.r, best.root))
			}
		}
		var val []byte
		for _, v := range append(append([][]byte{}, a.values...), valB) {
			if sha256.Sum256(v) == best.root {
				val = v
			}
		}
		if val == nil || len(preps) < 2 {
			return
		}
		var rcs []*specqbft.SignedMessage
		for _, b := range ids {
			rcs = append(rcs, a.f.roundChange(b, rd, best.r, val, preps))
		}
		rcs = append(rcs, unpreparedRCs(mat, rd, map[spectypes.OperatorID]bool{})...)
		pj, how := repeatMsgs(r, preps, a.env.q, a.env.n)
		rcj := rcs
		if r.Chance(30) {
			rcj, _ = repeatMsgs(r, rcs, a.env.q, a.env.n)
			how += "+round-changes"
		}
		if r.Chance(25) { // the round-changes' own prepare justifications repeated as well
			rcj = nil
			in, _ := repeatMsgs(r, preps, a.env.q, a.env.n)
			for _, b := range ids {
				rcj = append(rcj, a.f.roundChange(b, rd, best.r, val, in))
			}
			rcj = append(rcj, unpreparedRCs(mat, rd, map[spectypes.OperatorID]bool{})...)
			how += "+inner"
		}
		a.tags = append(a.tags, "byz/justification-with-repeated-entries", "byz/repeated:"+how)
		a.sendDirect(enc(a.f.proposal(ld, rd, val, rcj, pj)), to)
		a.pushDecision(rd, val, to)
	case 0: // justified by round-changes of OTHER rounds (older, newer, mixed)
		seen := map[spectypes.OperatorID]bool{}
		var rcs []*specqbft.SignedMessage
		for _, d := range []int{-1, -2, 1, 0}[:1+r.Intn(4)] {
			x := int(rd) + d
			if x >= 1 {
				rcs = append(rcs, unpreparedRCs(mat, specqbft.Round(x), seen)...)
			}
		}
		for _, b := range ids {
			if !seen[b] {
				seen[b] = true
				rcs = append(rcs, a.f.roundChange(b, rd, 0, nil, nil))
			}
		}
		if uint64(len(rcs)) < a.env.q {
			return
		}
		a.tags = append(a.tags, "byz/proposal-justified-by-other-rounds-round-changes")
		a.sendDirect(enc(a.f.proposal(ld, rd, valB, rcs, nil)), to)
		a.pushDecision(rd, valB, to)
	case 1: // forged round-changes in the name of signers whose genuine round-change of that round exists
		seen := map[spectypes.OperatorID]bool{}
		var genuine []*specqbft.SignedMessage
		for _, m := range mat {
			if m.Message.MsgType == specqbft.RoundChangeMsgType && m.Message.Round == rd && len(m.Signers) == 1 && !a.byz[m.Signers[0]] && !seen[m.Signers[0]] {
				seen[m.Signers[0]] = true
				genuine = append(genuine, m)
			}
		}
		if len(genuine) == 0 {
			return
		}
		var rcs []*specqbft.SignedMessage
		for _, g := range genuine {
			if g.Message.DataRound == 0 && r.Chance(60) {
				rcs = append(rcs, g) // genuine unprepared ones as they are
			} else {
				rcs = append(rcs, a.forgedUnpreparedRC(ld, g.Signers[0], rd)) // a prepared (or any) one replaced by a forged unprepared one
			}
		}
		for _, b := range ids {
			rcs = append(rcs, a.f.roundChange(b, rd, 0, nil, nil))
		}
		if r.Chance(30) { // the converse: the genuine one next to a forged duplicate
			rcs = append(rcs, genuine[0])
		}
		if uint64(len(rcs)) < a.env.q {
			return
		}
		a.tags = append(a.tags, "byz/proposal-justified-by-forged-round-changes-of-known-signers")
		// the victims should hold the genuine round-changes first
		for _, g := range genuine {
			a.sendDirect(enc(g), to)
		}
		a.sendDirect(enc(a.f.proposal(ld, rd, valB, rcs, nil)), to)
		a.pushDecision(rd, valB, to)
	default: // forged prepares (in the name of signers whose genuine prepare exists) backing a fabricated lock
		type key struct {
			r    specqbft.Round
			root [32]byte
		}
		var k key
		var signers []spectypes.OperatorID
		for _, m := range mat {
			if m.Message.MsgType == specqbft.PrepareMsgType && len(m.Signers) == 1 && m.Message.Round < rd {
				if k.r == 0 {
					k = key{m.Message.Round, m.Message.Root}
				}
				if k.r == m.Message.Round {
					signers = append(signers, m.Signers[0])
				}
			}
		}
		if k.r == 0 {
			return
		}
		rootB := sha256.Sum256(valB)
		var preps []*specqbft.SignedMessage
		seen := map[spectypes.OperatorID]bool{}
		for _, s := range signers {
			if !seen[s] {
				seen[s] = true
				p := a.f.prepare(ld, k.r, rootB)
				p.Signers = []spectypes.OperatorID{s}
				preps = append(preps, p)
			}
		}
		for _, b := range ids {
			if !seen[b] {
				preps = append(preps, a.f.prepare(b, k.r, rootB))
			}
		}
		if uint64(len(preps)) < a.env.q {
			return
		}
		a.tags = append(a.tags, "byz/lock-backed-by-forged-prepares-of-known-signers")
		var rcs []*specqbft.SignedMessage
		for _, b := range ids {
			rcs = append(rcs, a.f.roundChange(b, rd, k.r, valB, preps))
		}
		rcs = append(rcs, unpreparedRCs(mat, rd, map[spectypes.OperatorID]bool{})...)
		if uint64(len(rcs)) < a.env.q {
			return
		}
		a.sendDirect(enc(a.f.proposal(ld, rd, valB, rcs, preps)), to)
		a.pushDecision(rd, valB, to)
	}
}

// ---------------------------------------------------------------- prefix actions about lagging operators (mode c07 and sim)

// pullLaggards: some operators run ahead by their own timers without hearing anybody (their announcements for the rounds in
// between are lost), then f+1 announcements of one higher round (Byzantine operators' plus theirs) reach a subset of the others.
func (a *advSim) pullLaggards() {
	r := a.r
	hs := a.honest()
	target := a.maxRound() + specqbft.Round(1+r.Intn(3))
	if target > 12 {
		return
	}
	byz := a.byzIDs()
	need := int(a.env.pq) - len(byz)
	if need < 0 {
		need = 0
	}
	if need == 0 && r.Bool() {
		need = 1
	}
	if need >= len(hs) {
		return
	}
	p := r.Perm(len(hs))
	var front, rest []*SimNode
	for i, j := range p {
		if i < need {
			front = append(front, hs[j])
		} else {
			rest = append(rest, hs[j])
		}
	}
	for _, nd := range front {
		if inst := nd.c.ctrl.StoredInstances.FindInstance(a.h); inst == nil || inst.State.Decided {
			return
		}
		for a.round(nd) < target {
			if !a.timeoutOn(nd) {
				return
			}
		}
	}
	a.tags = append(a.tags, "net/laggards-pulled-by-f+1")
	victims := rest[:1+r.Intn(len(rest))]
	for _, b := range byz {
		a.sendDirect(enc(a.f.roundChange(b, target, 0, nil, nil)), victims)
	}
	for _, nd := range victims {
		a.deliverWhere(nd, func(m *specqbft.SignedMessage) bool {
			if !isT(specqbft.RoundChangeMsgType, target)(m) {
				return false
			}
			for _, f := range front {
				if f.id == m.Signers[0] {
					return true
				}
			}
			return false
		})
	}
	if r.Chance(60) { // the pulled operators' own announcements are lost for now
		a.dropRoundChanges(target)
	}
}

// dropRoundChanges: every pending round-change (of the given round, 0 = any) is lost at a random subset of the operators
func (a *advSim) dropRoundChanges(round specqbft.Round) {
	a.distribute()
	for _, nd := range a.honest() {
		if a.r.Chance(30) {
			continue
		}
		var keep []int
		for _, i := range a.pending[nd.id] {
			m := a.wire[i].Msg
			if m != nil && m.Message.MsgType == specqbft.RoundChangeMsgType && len(m.Signers) == 1 && (round == 0 || m.Message.Round == round) {
				continue
			}
			keep = append(keep, i)
		}
		a.pending[nd.id] = keep
	}
	a.tags = append(a.tags, "net/round-change-announcements-lost")
}
