// Applying one op to the real object(s) of a case: records the op line and the canonical observation (diffed against the
// Lean model by bin/check) and evaluates the implementation-side oracles, which never use the model:
//   - equality clause of C06: node instance vs the reference ssv-spec instance on the same inputs
//     (accept/reject + guard, encoded broadcasts, timer calls, decided/value/aggregate signers, State.GetRoot());
//   - compaction clause of C06: node controller with the runner's real compaction vs a second, never compacted node
//     controller on the same inputs (returned error/decided message, every output, decision-relevant state).
package main

import (
	"bytes"
	"fmt"
	"strings"

	specqbft "github.com/bloxapp/ssv-spec/qbft"
	spectypes "github.com/bloxapp/ssv-spec/types"

	"github.com/bloxapp/ssv/protocol/v2/qbft/instance"
)

type violation struct {
	sig, detail string
	replay      []string
}

type removedMsg struct {
	container string
	round     specqbft.Round
	signers   []spectypes.OperatorID
	reason    string
}

func (c *Case) emit(op, obs string) {
	c.lines = append(c.lines, op)
	c.obs = append(c.obs, obs)
}

func (c *Case) violate(sig, detail string) {
	c.viols = append(c.viols, violation{sig: sig, detail: detail, replay: append([]string{}, c.lines...)})
}

func sameBytes(a, b [][]byte) bool {
	if len(a) != len(b) {
		return false
	}
	for i := range a {
		if !bytes.Equal(a[i], b[i]) {
			return false
		}
	}
	return true
}

// takeFault arms the injected network fault (if any) on every object that receives the op, and returns the op-line suffix
func (c *Case) takeFault() string {
	nf := c.nf
	c.nf = ""
	for _, rc := range []*recorder{c.rc, c.specRc, c.shadowRc} {
		if rc != nil {
			rc.fault = nf
		}
	}
	if nf == "" {
		return ""
	}
	return " nf=" + nf
}

func (c *Case) clearFault() {
	for _, rc := range []*recorder{c.rc, c.specRc, c.shadowRc} {
		if rc != nil {
			rc.fault = ""
		}
	}
}

// ---------------------------------------------------------------- instance mode

func (c *Case) cmpSpec(opKind string, r instResult, timers string, s specResult) {
	if c.spec == nil || c.specOff {
		return
	}
	what := ""
	switch {
	case (r.res == "ok") != (s.res == "ok"):
		// the property is about WHICH messages are accepted; both sides rejecting with different guard chains is not a difference
		what = "accept-reject(" + r.res + " vs " + s.res + ")"
		if strings.HasSuffix(r.res, "wrongMsgIdentifier") && s.res == "ok" {
			// deliberate deviation of the repaired node (fix e1612ceed): a round change / embedded justification that carries
			// another instance's identifier is refused; the reference accepts it (that is the cross-role replay behind the C01 defect)
			what = "foreign-identifier-justification-refused-by-node-accepted-by-reference"
		}
	case r.res != s.res && strings.HasSuffix(r.res, "wrongMsgIdentifier") && r.rootHex != s.rootHex:
		// the reference did process the foreign-identifier message (and failed later, e.g. while broadcasting): same deliberate
		// deviation as above; the two states have diverged, the comparison stops here
		what = "foreign-identifier-justification-refused-by-node-accepted-by-reference"
	case r.res != s.res:
		// both sides refuse the message, with different guard chains (e.g. the node wraps the broadcast error): not a
		// difference in WHICH messages are accepted; the guard order of the port is pinned by the Lean tie theorems instead
	case !sameBytes(r.bcasts, s.bcasts):
		what = "broadcasts"
	case timers != s.timers:
		what = "timer"
	case r.decided != s.decided || r.value != s.value:
		what = "decided"
	case sortedSigners(r.aggMsg) != s.aggSig:
		what = "aggregate"
	case r.rootHex != s.rootHex:
		what = "state-root"
	}
	if what != "" {
		c.violate("C06/node-differs-from-spec:"+opKind+":"+what, fmt.Sprintf("node instance and ssv-spec instance differ on %s after `%s`", what, c.lines[len(c.lines)-1]))
		c.specOff = true
	}
}

func (c *Case) applyInstStart(value []byte, h specqbft.Height) {
	nf := c.takeFault()
	defer c.clearFault()
	r := c.instStart(c.inst, c.rc, value, h)
	c.emit(fmt.Sprintf("start v=%d h=%d%s", c.in.Val(value), uint64(h), nf), r.line())
	if c.spec != nil && !c.specOff {
		c.cmpSpec("start", r, timersOf(c.rc.ev), c.specStart(value, h))
	}
}

func (c *Case) applyInstDeliver(enc []byte) instResult {
	m := decodeMsg(enc)
	nf := c.takeFault()
	defer c.clearFault()
	line := "deliver " + c.absMsg(m) + nf
	r := c.instDeliver(c.inst, c.rc, m)
	c.emit(line, r.line())
	if c.spec != nil && !c.specOff {
		c.cmpSpec("deliver", r, timersOf(c.rc.ev), c.specDeliver(decodeMsg(enc)))
	}
	return r
}

func (c *Case) applyInstTimeout() {
	nf := c.takeFault()
	defer c.clearFault()
	r := c.instTimeout(c.inst, c.rc)
	c.emit("timeout"+nf, r.line())
	if c.spec != nil && !c.specOff {
		c.cmpSpec("timeout", r, timersOf(c.rc.ev), c.specTimeout())
	}
}

func (c *Case) applyInstCompact(copyPolicy bool) {
	c.specOff = true // the reference has no compaction; its state root legitimately differs from here on
	if copyPolicy {
		c.inst.State = instance.CompactCopy(c.inst.State, nil)
		c.emit("compactcopy", "ok | "+c.nodeInstState(c.inst))
	} else {
		instance.Compact(c.inst.State, nil)
		c.emit("compact", "ok | "+c.nodeInstState(c.inst))
	}
}

func (c *Case) applyInstStop() {
	c.inst.ForceStop()
	if c.spec != nil {
		c.spec.ForceStop()
	}
	c.emit("stop", "ok | "+c.nodeInstState(c.inst))
}

// ---------------------------------------------------------------- controller mode

func typeName(m *specqbft.SignedMessage, q uint64) string {
	if m.Message.MsgType == specqbft.CommitMsgType && uint64(len(m.Signers)) >= q {
		return "decided"
	}
	switch m.Message.MsgType {
	case specqbft.ProposalMsgType:
		return "proposal"
	case specqbft.PrepareMsgType:
		return "prepare"
	case specqbft.CommitMsgType:
		return "commit"
	case specqbft.RoundChangeMsgType:
		return "roundchange"
	}
	return "other"
}

func matched(a, b []spectypes.OperatorID) bool {
	return (&specqbft.SignedMessage{Signers: a}).MatchedSigners(b)
}

// explain names the cause of a compaction-visible divergence on delivering m: messages of the container and round that m
// is counted in had been recorded before and were removed by a compaction. Reasons:
//
//	decided-clear            the instance was decided, so its propose/prepare/round-change containers were emptied, but a
//	                         decided instance keeps processing messages (first-message-per-signer records / quorum counts forgotten)
//	round-trim-then-lowered  rounds below State.Round (LastPreparedRound) were dropped as past, later a decided message
//	                         lowered State.Round so that the dropped round is current again
//	round-trim               rounds dropped as past although the round was never lowered (must not be visible at all)
//
// The effect (same signer re-admitted / other signers missing from a count) goes into the detail text only.
func (c *Case) explain(m *specqbft.SignedMessage) (string, string) {
	tn := typeName(m, c.env.q)
	cont := map[string]string{"proposal": "P", "prepare": "Pr", "commit": "C", "roundchange": "RC", "decided": "C"}[tn]
	best, effect := "", ""
	for pass := 0; pass < 2 && best == ""; pass++ {
		for _, e := range c.removedMsgs {
			if e.container != cont {
				continue
			}
			if pass == 0 && e.round != m.Message.Round {
				continue
			}
			// second pass: a round-change is also counted, together with those of every round above the current one,
			// towards the partial quorum
			if pass == 1 && (cont != "RC" || e.round <= c.roundBefore) {
				continue
			}
			reason := e.reason
			if reason == "round-trim" && c.roundLowered {
				reason = "round-trim-then-lowered"
			}
			if tn != "decided" && e.round == m.Message.Round && matched(e.signers, m.Signers) {
				return reason + ":" + cont, "a " + tn + " of the same signer(s) and round had been recorded and is admitted a second time"
			}
			if best == "" {
				best, effect = reason+":"+cont, "earlier "+tn+" messages of that round are missing from the count"
				if tn == "decided" {
					best, effect = reason+":"+cont+":decided", "UponDecided compares the signer count of a decided message with the commits recorded for ITS round, which compaction had dropped"
				}
			}
		}
	}
	if best != "" {
		return best, effect
	}
	return "unexplained:" + tn, ""
}

func (c *Case) cmpShadow(opKind string, m *specqbft.SignedMessage, r, s ctrlResult) {
	if c.shCtrl == nil || c.diverged {
		return
	}
	what := ""
	switch {
	case r.res != s.res:
		what = "result(" + r.res + " vs " + s.res + ")"
	case r.outs != s.outs:
		what = "outputs"
	case r.ret != s.ret:
		what = "returned-decided"
	case r.brief != s.brief:
		what = "state"
	}
	if what == "" {
		return
	}
	cause, effect := "unexplained:"+opKind, ""
	if m != nil {
		cause, effect = c.explain(m)
	}
	c.violate("C06/compaction-visible:"+cause, fmt.Sprintf("compacted and never-compacted node controller differ on %s after `%s`: %s (compacted: %s %s %s; reference: %s %s %s)",
		what, opKind, effect, r.res, r.outs, r.ret, s.res, s.outs, s.ret))
	c.diverged = true
}

func (c *Case) applyCtrlStart(h specqbft.Height, value []byte) ctrlResult {
	before := c.decidedMap()
	nf := c.takeFault()
	defer c.clearFault()
	r := c.ctrlStart(c.ctrl, c.rc, h, value)
	c.emit(fmt.Sprintf("cstart h=%d v=%d%s", uint64(h), c.in.Val(value), nf), r.line())
	if c.c07 {
		c.c07AfterStart()
	} else {
		c.noteEvents()
	}
	if c.c02 {
		c.c02Check("cstart", nil, r, before)
	}
	if c.shCtrl != nil {
		c.cmpShadow("cstart", nil, r, c.ctrlStart(c.shCtrl, c.shadowRc, h, value))
	}
	return r
}

func (c *Case) applyCtrlDeliver(m *specqbft.SignedMessage) ctrlResult {
	nf := c.takeFault()
	defer c.clearFault()
	line := "cdeliver " + c.absMsg(m) + nf
	enc, _ := m.Encode()
	roundBefore, had := specqbft.Round(0), false
	if inst := c.ctrl.StoredInstances.FindInstance(m.Message.Height); inst != nil {
		roundBefore, had = inst.State.Round, true
	}
	c.roundBefore = roundBefore
	before := c.decidedMap()
	pre07 := c.c07Before(m)
	r := c.ctrlDeliver(c.ctrl, c.rc, m)
	c.emit(line, r.line())
	c.c07AfterDeliver(pre07, m, r)
	if inst := c.ctrl.StoredInstances.FindInstance(c.height); inst != nil && inst.State.ProposalAcceptedForCurrentRound != nil {
		// mechanism of the known compaction finding: a SECOND, different proposal accepted for a round (the first-proposal
		// record was compacted away and a decided message lowered the round)
		acc := inst.State.ProposalAcceptedForCurrentRound
		if c.acceptedByRound == nil {
			c.acceptedByRound = map[specqbft.Round][32]byte{}
		}
		if prev, ok := c.acceptedByRound[acc.Message.Round]; ok && prev != acc.Message.Root {
			c.secondProposal = true
		}
		c.acceptedByRound[acc.Message.Round] = acc.Message.Root
	}
	if c.c02 {
		c.c02Check("cdeliver", m, r, before)
	}
	c.lastRet = r.retMsg
	if inst := c.ctrl.StoredInstances.FindInstance(m.Message.Height); inst != nil && had && inst.State.Round < roundBefore {
		c.roundLowered = true // only Controller.UponDecided does that
		c.tags = append(c.tags, "event/round-lowered-by-decided")
	}
	if c.shCtrl != nil {
		c.cmpShadow("cdeliver", m, r, c.ctrlDeliver(c.shCtrl, c.shadowRc, decodeMsg(enc)))
	}
	return r
}

func (c *Case) applyCtrlTimeout(h specqbft.Height, round specqbft.Round) ctrlResult {
	before := c.decidedMap()
	pre07 := c.c07Before(nil)
	nf := c.takeFault()
	defer c.clearFault()
	if c.armedOK && c.armedH == uint64(h) && c.armedR == uint64(round) {
		c.armedOK = false // the armed timer fires now
	} else {
		c.firedUnarmed = true // a timeout event for a timer that is not live (stale event, or a file recorded on another tree)
	}
	r := c.ctrlTimeout(c.ctrl, c.rc, h, round)
	c.emit(fmt.Sprintf("ctimeout h=%d r=%d%s", uint64(h), uint64(round), nf), r.line())
	c.c07AfterTimeout(pre07, h, round, r)
	if c.c02 {
		c.c02Check("ctimeout", nil, r, before)
	}
	if c.shCtrl != nil {
		c.cmpShadow("ctimeout", nil, r, c.ctrlTimeout(c.shCtrl, c.shadowRc, h, round))
	}
	return r
}

type contSnap struct {
	container string
	m         *specqbft.SignedMessage
}

func snapshot(s *specqbft.State) []contSnap {
	var out []contSnap
	for name, mc := range map[string]*specqbft.MsgContainer{"P": s.ProposeContainer, "Pr": s.PrepareContainer, "C": s.CommitContainer, "RC": s.RoundChangeContainer} {
		if mc == nil {
			continue
		}
		for _, l := range mc.Msgs {
			for _, m := range l {
				out = append(out, contSnap{name, m})
			}
		}
	}
	return out
}

func (c *Case) noteRemoved(before []contSnap, s *specqbft.State, wasDecided bool) {
	left := map[*specqbft.SignedMessage]bool{}
	for _, e := range snapshot(s) {
		left[e.m] = true
	}
	for _, e := range before {
		if left[e.m] {
			continue
		}
		reason := "round-trim"
		if wasDecided && e.container != "C" {
			reason = "decided-clear"
		}
		c.removedMsgs = append(c.removedMsgs, removedMsg{e.container, e.m.Message.Round, e.m.Signers, reason})
	}
}

// applyCtrlRunnerCompact: the runner's REAL compactInstanceIfNeeded(msg) (not applied to the reference controller)
func (c *Case) applyCtrlRunnerCompact(m *specqbft.SignedMessage) {
	var before []contSnap
	var st *specqbft.State
	wasDecided := false
	if inst := c.ctrl.StoredInstances.FindInstance(m.Message.Height); inst != nil {
		st, before, wasDecided = inst.State, snapshot(inst.State), inst.State.Decided
	}
	obs := c.ctrlRunnerCompact(c.ctrl, m)
	c.emit("crcompact "+c.absMsg(m), obs)
	if st != nil {
		c.noteRemoved(before, st, wasDecided)
	}
}

func (c *Case) applyCtrlCompactAt(h specqbft.Height) {
	var before []contSnap
	var st *specqbft.State
	wasDecided := false
	if inst := c.ctrl.StoredInstances.FindInstance(h); inst != nil {
		st, before, wasDecided = inst.State, snapshot(inst.State), inst.State.Decided
	}
	obs := c.ctrlCompactAt(c.ctrl, h)
	c.emit(fmt.Sprintf("ccompact h=%d", uint64(h)), obs)
	if st != nil {
		c.noteRemoved(before, st, wasDecided)
	}
}
