// Step-level liveness oracles of mode c07, evaluated on the REAL controller after every op of a correct operator (generation
// and replay alike; the model is never consulted):
//
//	C07/timeout-without-progress:<what>      a round timer that fires for the operator's current round (< cut-off, undecided) must
//	                                         move it to the next round, clear the accepted proposal, re-arm the timer for that round
//	                                         and announce exactly one round-change for it that carries the lock — every round up to
//	                                         the cut-off; when the operator's own Broadcast fails in that op (nf=a|b) the first three still hold
//	C07/undecided-operator-without-live-round-timer
//	                                         after every op an undecided operator that still processes messages has a round timer
//	                                         armed for the round it is in (Controller.OnTimeout discards any other)
//	C07/not-pulled-by-f+1-round-changes      a newly stored round-change that completes f+1 distinct signers announcing rounds above
//	                                         the operator's own moves it to the smallest of those rounds
//	C07/correct-leaders-proposal-refused     (cross-operator, evaluated at the end of a schedule) the proposal a CORRECT leader
//	                                         broadcast for round r is accepted by every correct undecided operator in a round ≤ r
//	                                         that has no proposal for r yet and whose value check passes
package main

import (
	"crypto/sha256"
	"fmt"

	specqbft "github.com/bloxapp/ssv-spec/qbft"
	spectypes "github.com/bloxapp/ssv-spec/types"

	"github.com/bloxapp/ssv/protocol/v2/qbft/instance"
)

type propKey struct {
	signer spectypes.OperatorID
	h      specqbft.Height
	round  specqbft.Round
	root   [32]byte
}

// msgKey: what a correct operator signed (single-signer messages); used by the multi-node replay to notice that a file recorded
// on another tree feeds an operator a message "signed by" a correct operator that this operator does not send on this tree
type msgKey struct {
	t         specqbft.MessageType
	signer    spectypes.OperatorID
	h         specqbft.Height
	round     specqbft.Round
	root      [32]byte
	dataRound specqbft.Round
}

func keyOf(m *specqbft.SignedMessage) msgKey {
	return msgKey{m.Message.MsgType, m.Signers[0], m.Message.Height, m.Message.Round, m.Message.Root, m.Message.DataRound}
}

type c07Pre struct {
	ok                bool // instance of the case's height exists, is the controller's current one, undecided, processing messages
	round             specqbft.Round
	lockRound         specqbft.Round
	accepted          bool
	hadRC             bool // (deliver) a round-change of that signer and round was already stored
	quorumBefore      bool // (deliver) quorum of round-changes for the message's round before the op
	faultInjected     bool
	refusalCandidate  bool
	liveTimerExpected bool
}

func (c *Case) c07Inst() *instance.Instance {
	if c.ctrl == nil || c.ctrl.Height != c.height {
		return nil
	}
	return c.ctrl.StoredInstances.FindInstance(c.height)
}

func (c *Case) stepViolate(sig, detail string) {
	for _, v := range c.stepViols {
		if v.sig == sig {
			return
		}
	}
	c.stepViols = append(c.stepViols, violation{sig: sig, detail: detail, replay: append([]string{}, c.lines...)})
}

func (c *Case) c07Before(m *specqbft.SignedMessage) c07Pre {
	p := c07Pre{faultInjected: c.nf != ""}
	if !c.c07 {
		return p
	}
	inst := c.c07Inst()
	if inst == nil || inst.State.Decided || !inst.CanProcessMessages() {
		return p
	}
	p.ok = true
	p.round = inst.State.Round
	p.lockRound = inst.State.LastPreparedRound
	p.accepted = inst.State.ProposalAcceptedForCurrentRound != nil
	if m != nil && len(m.Signers) == 1 && m.Message.Height == c.height {
		switch m.Message.MsgType {
		case specqbft.RoundChangeMsgType:
			forRound := inst.State.RoundChangeContainer.MessagesForRound(m.Message.Round)
			for _, x := range forRound {
				if len(x.Signers) == 1 && x.Signers[0] == m.Signers[0] {
					p.hadRC = true
				}
			}
			p.quorumBefore = specqbft.HasQuorum(inst.State.Share, forRound)
		case specqbft.ProposalMsgType:
			ld, ldOK := safeLeader(inst.State, m.Message.Round)
			p.refusalCandidate = ldOK && m.Signers[0] == ld && uint64(m.Message.Round) < uint64(instance.CutoffRound) &&
				sigOk(c.env, m) && string(m.Message.Identifier) == string(c.env.identifier) &&
				sha256.Sum256(m.FullData) == m.Message.Root && c.valCheck(m.FullData) == nil &&
				(m.Message.Round > p.round || (m.Message.Round == p.round && !p.accepted))
		}
	}
	return p
}

// noteEvents: timers armed and proposals broadcast by this op
func (c *Case) noteEvents() (proposed bool) {
	for _, e := range c.rc.ev {
		switch e.kind {
		case "t":
			c.armedH, c.armedR, c.armedOK = e.h, e.r, true
		case "b":
			if e.msg != nil && len(e.msg.Signers) == 1 {
				if c.sentAll == nil {
					c.sentAll = map[msgKey]bool{}
				}
				c.sentAll[keyOf(e.msg)] = true
			}
			if e.msg != nil && e.msg.Message.MsgType == specqbft.ProposalMsgType && len(e.msg.Signers) == 1 {
				proposed = true
				if c.sentProps == nil {
					c.sentProps = map[propKey]bool{}
				}
				c.sentProps[propKey{e.msg.Signers[0], e.msg.Message.Height, e.msg.Message.Round, e.msg.Message.Root}] = true
			}
		}
	}
	return
}

func (c *Case) c07LiveTimer(opKind string) {
	inst := c.c07Inst()
	if inst == nil || inst.State.Decided || !inst.CanProcessMessages() {
		return
	}
	if !c.armedOK || c.armedH != uint64(c.height) || c.armedR != uint64(inst.State.Round) {
		armed := "none"
		if c.armedOK {
			armed = fmt.Sprintf("height %d round %d", c.armedH, c.armedR)
		}
		c.stepViolate("C07/undecided-operator-without-live-round-timer",
			fmt.Sprintf("after `%s` operator %d is undecided in round %d of height %d, the only live round timer: %s (Controller.OnTimeout discards a timeout for another round)",
				opKind, c.op, inst.State.Round, c.height, armed))
	}
}

func (c *Case) c07AfterStart() {
	c.noteEvents()
	c.c07LiveTimer("cstart")
}

func (c *Case) c07AfterDeliver(p c07Pre, m *specqbft.SignedMessage, r ctrlResult) {
	proposed := c.noteEvents()
	c.noteSigned(m, 0)
	if !c.c07 {
		return
	}
	inst := c.c07Inst()
	if p.ok && inst != nil && m != nil && len(m.Signers) == 1 && m.Message.Height == c.height {
		switch m.Message.MsgType {
		case specqbft.RoundChangeMsgType:
			stored := false
			for _, x := range inst.State.RoundChangeContainer.MessagesForRound(m.Message.Round) {
				if len(x.Signers) == 1 && x.Signers[0] == m.Signers[0] {
					stored = true
				}
			}
			if stored && !p.hadRC && !p.quorumBefore && !proposed && !inst.State.Decided {
				signers := map[spectypes.OperatorID]bool{}
				min := specqbft.Round(0)
				for _, x := range inst.State.RoundChangeContainer.AllMessaged() {
					if x.Message.Round > p.round {
						for _, s := range x.Signers {
							signers[s] = true
						}
						if min == 0 || x.Message.Round < min {
							min = x.Message.Round
						}
					}
				}
				if uint64(len(signers)) >= c.env.pq && inst.State.Round < min {
					c.stepViolate("C07/not-pulled-by-f+1-round-changes",
						fmt.Sprintf("operator %d (round %d) stored a new round-change and now holds announcements of rounds ≥ %d from %d distinct operators (f+1 = %d) but stays in round %d",
							c.op, p.round, min, len(signers), c.env.pq, inst.State.Round))
				}
			}
		case specqbft.ProposalMsgType:
			if p.refusalCandidate {
				a := inst.State.ProposalAcceptedForCurrentRound
				if inst.State.Decided || (a != nil && a.Message.Root == m.Message.Root && inst.State.Round == m.Message.Round) {
					break
				}
				c.refused = append(c.refused, refusedProp{key: propKey{m.Signers[0], m.Message.Height, m.Message.Round, m.Message.Root},
					detail: fmt.Sprintf("operator %d (round %d, no proposal accepted for round %d, undecided) answered `%s` to the proposal of operator %d for round %d",
						c.op, p.round, m.Message.Round, r.res, m.Signers[0], m.Message.Round)})
			}
		}
	}
	c.c07LiveTimer("cdeliver")
}

func (c *Case) c07AfterTimeout(p c07Pre, h specqbft.Height, round specqbft.Round, r ctrlResult) {
	c.noteEvents()
	if !c.c07 {
		return
	}
	inst := c.c07Inst()
	if p.ok && inst != nil && h == c.height && round == p.round {
		bad := func(what, detail string) {
			c.stepViolate("C07/timeout-without-progress:"+what,
				fmt.Sprintf("operator %d, round timer of round %d (cut-off %d) fired: %s (result `%s`)", c.op, p.round, instance.CutoffRound, detail, r.res))
		}
		timer, rcs, lockOK := false, 0, true
		for _, e := range c.rc.ev {
			if e.kind == "t" && e.h == uint64(h) && e.r == uint64(p.round)+1 {
				timer = true
			}
			if e.kind == "b" && e.msg != nil && e.msg.Message.MsgType == specqbft.RoundChangeMsgType && e.msg.Message.Round == p.round+1 &&
				len(e.msg.Signers) == 1 && e.msg.Signers[0] == c.op {
				rcs++
				if e.msg.Message.DataRound != p.lockRound {
					lockOK = false
				}
			}
		}
		switch {
		case inst.State.Round != p.round+1:
			bad("round-not-advanced", fmt.Sprintf("the operator is in round %d", inst.State.Round))
		case inst.State.ProposalAcceptedForCurrentRound != nil:
			bad("accepted-proposal-not-cleared", "ProposalAcceptedForCurrentRound is still set")
		case !timer:
			bad("timer-not-rearmed", fmt.Sprintf("no timer armed for round %d", p.round+1))
		case p.faultInjected:
			// the operator's own Broadcast failed in this op (nf=a|b): the round-change may be missing and the step reports the
			// error, but the operator must have moved on and re-armed its timer all the same (checked above)
		case rcs != 1:
			bad("round-change-not-announced", fmt.Sprintf("%d round-change(s) for round %d broadcast", rcs, p.round+1))
		case !lockOK:
			bad("lock-not-carried", fmt.Sprintf("the round-change does not carry the lock of round %d", p.lockRound))
		case r.res != "ok":
			bad("error", "the step reports an error")
		}
	}
	c.c07LiveTimer("ctimeout")
}

type refusedProp struct {
	key    propKey
	detail string
}

// refusedCorrectProposals: the cross-operator part — which of the refused candidates were broadcast by a correct operator
func refusedCorrectProposals(cases []*Case) (string, bool) {
	sent := map[propKey]bool{}
	for _, c := range cases {
		for k := range c.sentProps {
			if k.signer == c.op {
				sent[k] = true
			}
		}
	}
	for _, c := range cases {
		for _, rf := range c.refused {
			if sent[rf.key] {
				return rf.detail + fmt.Sprintf("; that proposal was broadcast by the CORRECT operator %d, the round-robin leader of round %d", rf.key.signer, rf.key.round), true
			}
		}
	}
	return "", false
}

// inconsistentReplay: some operator of the file was fed a validly signed message of another operator OF THE FILE (a correct one)
// that this operator never sends when the file is re-run on this tree — the recorded schedule does not exist here.
func inconsistentReplay(cases []*Case) bool {
	byOp := map[spectypes.OperatorID]*Case{}
	for _, c := range cases {
		byOp[c.op] = c
	}
	for _, c := range cases {
		for _, k := range c.gotSigned {
			if s, ok := byOp[k.signer]; ok && !s.sentAll[k] {
				return true
			}
		}
	}
	return false
}

// noteSigned: the validly signed single-signer messages (top level and embedded justifications) an operator was fed
func (c *Case) noteSigned(m *specqbft.SignedMessage, depth int) {
	if m == nil || depth > 2 {
		return
	}
	if len(m.Signers) == 1 && string(m.Message.Identifier) == string(c.env.identifier) && sigOk(c.env, m) {
		c.gotSigned = append(c.gotSigned, keyOf(m))
	}
	if js, err := m.Message.GetRoundChangeJustifications(); err == nil {
		for _, j := range js {
			c.noteSigned(j, depth+1)
		}
	}
	if js, err := m.Message.GetPrepareJustifications(); err == nil {
		for _, j := range js {
			c.noteSigned(j, depth+1)
		}
	}
}
