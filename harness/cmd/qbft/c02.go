// Mode c02: forged-certificate stream against the REAL controller and a REAL QBFTStore (ibft/storage on in-memory Badger).
// Oracle (never uses the model): whenever the controller reports a decision — ProcessMsg returns a decided message, an
// instance's Decided flag is raised, or an instance is handed to the store — the certificate re-verifies with the
// REFERENCE VerifyByOperators (ssv-spec, cache-free; the node's own verifier is under test), carries >= quorum DISTINCT non-zero committee signers over one (height, round, root), is a commit, and
// H(FullData) = Root; for locally reached first decisions additionally: the value passes the operator's value check and the
// accepted proposal it refers to was signed by the round-robin leader of its round.
package main

import (
	"crypto/sha256"
	"fmt"

	specqbft "github.com/bloxapp/ssv-spec/qbft"
	spectypes "github.com/bloxapp/ssv-spec/types"
	"github.com/herumi/bls-eth-go-binary/bls"

	"github.com/bloxapp/ssv/zz_verif/lib/hx"
)

// certDefect returns "" when m is a verifiable quorum certificate, else the first violated conjunct.
func certDefect(env *Env, m *specqbft.SignedMessage) string {
	if m == nil {
		return "nil"
	}
	if m.Message.MsgType != specqbft.CommitMsgType {
		return "not-a-commit"
	}
	seen := map[spectypes.OperatorID]bool{}
	for _, s := range m.Signers {
		if s == 0 {
			return "zero-signer"
		}
		if seen[s] {
			return "duplicate-signer"
		}
		seen[s] = true
		in := false
		for _, o := range env.committee {
			if o.OperatorID == s {
				in = true
			}
		}
		if !in {
			return "foreign-signer"
		}
	}
	if uint64(len(seen)) < env.q {
		return "sub-quorum"
	}
	// the REFERENCE verifier (ssv-spec, cache-free) — the node's own VerifyByOperators is under test here
	if m.Signature.VerifyByOperators(m, env.domain, spectypes.QBFTSignatureType, env.committee) != nil {
		return "bad-aggregate-signature"
	}
	if sha256.Sum256(m.FullData) != m.Message.Root {
		return "value-does-not-hash-to-root"
	}
	if string(m.Message.Identifier) != string(env.identifier) {
		return "wrong-identifier"
	}
	return ""
}

// c02Check evaluates the oracle after one controller op.
func (c *Case) c02Check(opKind string, in *specqbft.SignedMessage, r ctrlResult, decidedBefore map[specqbft.Height]bool) {
	report := func(what string, cert *specqbft.SignedMessage, defect string) {
		c.violate("C02/decided-without-valid-certificate:"+what+":"+defect,
			fmt.Sprintf("after `%s` the controller reports a decision (%s) whose certificate fails: %s", opKind, what, defect))
	}
	if r.retMsg != nil {
		if d := certDefect(c.env, r.retMsg); d != "" {
			report("returned-decided-message", r.retMsg, d)
		}
	}
	for _, e := range c.rc.ev {
		if e.kind == "s" || e.kind == "sh" {
			if d := certDefect(c.env, e.msg); d != "" {
				report("stored-instance", e.msg, d)
			}
		}
		if e.kind == "b" && len(e.msg.Signers) > 1 {
			if d := certDefect(c.env, e.msg); d != "" {
				report("broadcast-decided-message", e.msg, d)
			}
		}
	}
	for _, inst := range c.ctrl.StoredInstances {
		h := inst.State.Height
		if !inst.State.Decided || decidedBefore[h] {
			continue
		}
		// newly decided: by this op. The certificate is the incoming decided message or the returned aggregate.
		cert := r.retMsg
		if cert == nil {
			cert = in
		}
		if d := certDefect(c.env, cert); d != "" {
			report("instance-decided-flag", cert, d)
			continue
		}
		if cert.Message.Height != h {
			report("instance-decided-flag", cert, "certificate-for-another-height")
		}
		if string(inst.State.DecidedValue) != string(cert.FullData) {
			report("instance-decided-flag", cert, "decided-value-differs-from-certificate")
		}
		if in != nil && uint64(len(in.Signers)) < c.env.q { // decided by counting commits itself
			if c.valCheck(cert.FullData) != nil {
				report("local-decision", cert, "value-fails-own-value-check")
			}
			p := inst.State.ProposalAcceptedForCurrentRound
			if p == nil {
				report("local-decision", cert, "no-accepted-proposal")
			} else {
				if ld, ok := safeLeader(inst.State, p.Message.Round); len(p.Signers) != 1 || !ok || p.Signers[0] != ld {
					report("local-decision", cert, "proposal-not-from-round-leader")
				}
				if p.Message.Root != cert.Message.Root || string(p.FullData) != string(cert.FullData) {
					report("local-decision", cert, "certificate-not-for-accepted-proposal")
				}
				if p.Message.Round != cert.Message.Round {
					report("local-decision", cert, "proposal-round-differs-from-commit-round")
				}
			}
		}
	}
}

func (c *Case) decidedMap() map[specqbft.Height]bool {
	m := map[specqbft.Height]bool{}
	for _, inst := range c.ctrl.StoredInstances {
		if inst.State.Decided {
			m[inst.State.Height] = true
		}
	}
	return m
}

// multiSignWrongKey: an aggregate in which one listed signer's share was produced with a different key
func (e *Env) multiSignWrongKey(ids []spectypes.OperatorID, msg *specqbft.Message, wrongAt int, other spectypes.OperatorID) *specqbft.SignedMessage {
	var agg *bls.Sign
	for i, id := range ids {
		k := id
		if i == wrongAt {
			k = other
		}
		s := e.sign(k, msg)
		sg := &bls.Sign{}
		_ = sg.Deserialize(s.Signature)
		if agg == nil {
			agg = sg
		} else {
			agg.Add(sg)
		}
	}
	out := &specqbft.SignedMessage{Message: *msg, Signers: append([]spectypes.OperatorID{}, ids...)}
	out.Signature = agg.Serialize()
	return out
}

var certMutKinds = []string{"none", "drop-signer", "drop-signer-resigned", "dup-signer", "swap-signer", "add-foreign", "add-zero", "wrong-key",
	"wrong-key-foreign", "fulldata", "fulldata-empty", "root-resigned", "root", "round", "round-resigned", "height", "height-resigned",
	"ident", "ident-resigned", "type-resigned", "sig-flip", "sig-zero", "one-real-signature", "one-real-signature", "all-signers", "reorder-signers", "dataround-resigned", "just-resigned", "generic"}

// forgeCert derives one forged / mutated certificate from a real one.
func forgeCert(env *Env, r *hx.Rng, base *specqbft.SignedMessage, mu *Mutator) ([]byte, string) {
	m := cloneMsg(base)
	if m == nil {
		return nil, ""
	}
	kind := certMutKinds[r.Intn(len(certMutKinds))]
	resign := func() { s := env.multiSign(m.Signers, &m.Message); m.Signature = s.Signature }
	switch kind {
	case "none":
	case "drop-signer", "drop-signer-resigned":
		k := 1 + r.Intn(2)
		if len(m.Signers) > k {
			m.Signers = m.Signers[:len(m.Signers)-k]
		}
		if kind == "drop-signer-resigned" {
			resign()
		}
	case "dup-signer":
		m.Signers = append(m.Signers, m.Signers[r.Intn(len(m.Signers))])
		if r.Bool() {
			resign()
		}
	case "swap-signer":
		i := r.Intn(len(m.Signers))
		for {
			id := spectypes.OperatorID(1 + r.Intn(env.n))
			dup := false
			for _, s := range m.Signers {
				if s == id {
					dup = true
				}
			}
			if !dup || len(m.Signers) == env.n {
				m.Signers[i] = id
				break
			}
		}
	case "add-foreign":
		m.Signers = append(m.Signers, spectypes.OperatorID(env.n+1+r.Intn(5)))
		if r.Bool() {
			resign()
		}
	case "add-zero":
		m.Signers = append(m.Signers, 0)
		if r.Bool() {
			resign()
		}
	case "wrong-key":
		i := r.Intn(len(m.Signers))
		other := mu.otherID(m.Signers[i])
		*m = *env.multiSignWrongKey(m.Signers, &m.Message, i, other)
		m.FullData = base.FullData
	case "wrong-key-foreign":
		*m = *env.multiSignWrongKey(m.Signers, &m.Message, r.Intn(len(m.Signers)), spectypes.OperatorID(99))
		m.FullData = base.FullData
	case "fulldata":
		m.FullData = valueBytes(60 + r.Intn(20))
	case "fulldata-empty":
		m.FullData = nil
	case "root", "root-resigned":
		m.Message.Root = mu.someRoot()
		if kind == "root-resigned" {
			resign()
		}
	case "round", "round-resigned":
		m.Message.Round = specqbft.Round([]uint64{0, 1, 2, 3, 14, 15, 1 << 63}[r.Intn(7)])
		if kind == "round-resigned" {
			resign()
		}
	case "height", "height-resigned":
		h := uint64(m.Message.Height)
		m.Message.Height = specqbft.Height([]uint64{h + 1, h + 2, h - 1, 0, 1 << 40}[r.Intn(5)])
		if kind == "height-resigned" {
			resign()
		}
	case "ident", "ident-resigned":
		if r.Bool() {
			m.Message.Identifier = nil
		} else {
			m.Message.Identifier = append([]byte{}, env.identifier...)
			m.Message.Identifier[3] ^= 0x10
		}
		if kind == "ident-resigned" {
			resign()
		}
	case "type-resigned":
		m.Message.MsgType = specqbft.MessageType([]uint64{0, 1, 3, 5}[r.Intn(4)])
		resign()
	case "sig-flip":
		m.Signature[r.Intn(96)] ^= byte(1 << uint(r.Intn(8)))
	case "sig-zero":
		m.Signature = make([]byte, 96)
	case "one-real-signature": // lists a quorum of signers, carries the signature of ONE of them only
		s := env.sign(m.Signers[r.Intn(len(m.Signers))], &m.Message)
		m.Signature = s.Signature
	case "all-signers":
		m.Signers = nil
		for i := 1; i <= env.n; i++ {
			m.Signers = append(m.Signers, spectypes.OperatorID(i))
		}
		resign()
	case "reorder-signers":
		p := r.Perm(len(m.Signers))
		s2 := make([]spectypes.OperatorID, len(m.Signers))
		for i, j := range p {
			s2[i] = m.Signers[j]
		}
		m.Signers = s2
	case "dataround-resigned":
		m.Message.DataRound = specqbft.Round(1 + r.Intn(3))
		resign()
	case "just-resigned":
		mu.addJust(m)
		resign()
	case "generic":
		enc, k, _ := mu.mutate(base)
		return enc, "generic:" + k
	}
	return roundTrip(m), kind
}

func runC02Case(t *Traffic, op spectypes.OperatorID, r *hx.Rng) caseOut {
	env := t.env
	tags := []string{"case/c02", "scenario/" + t.scenario, fmt.Sprintf("n/%d", env.n)}
	script := t.scripts[int(op)-1]
	mu := &Mutator{env: env, r: r, pool: poolOf(t)}
	f := &Forge{env: env, r: r, h: t.h}
	// real certificates: those on the wire + freshly forged quorum subsets for several rounds/values/heights
	var certs []*specqbft.SignedMessage
	for _, w := range t.wire {
		if w.Msg != nil && w.Msg.Message.MsgType == specqbft.CommitMsgType && len(w.Msg.Signers) > 1 {
			certs = append(certs, w.Msg)
		}
	}
	for k := 0; k < 3; k++ {
		n := int(env.q) + r.Intn(env.n-int(env.q)+1)
		h := t.h
		if r.Chance(20) {
			h = t.h + specqbft.Height(1+r.Intn(2))
		}
		certs = append(certs, f.decided(f.subset(n), h, specqbft.Round(1+r.Intn(3)), valueBytes(r.Intn(60))))
	}
	policy := []string{"none", "none", "runner"}[r.Intn(3)]
	prod := r.Chance(35)
	c := newCaseCfg(env, op, t.h, [][]byte{badValue}, true, false, false, prod)
	c.c02 = true
	c.emit(c.resetLine(), "ok")
	tags = append(tags, "compaction/"+policy, fmt.Sprintf("config/production-%v", prod))
	cut := 0
	if len(script) > 0 {
		cut = r.Intn(len(script) + 1)
	}
	apply := func(o ScriptOp) {
		switch o.Kind {
		case "start":
			c.applyCtrlStart(o.H, o.Value)
		case "deliver":
			m := decodeMsg(o.Msg)
			if m == nil {
				return
			}
			c.applyCtrlDeliver(m)
			if policy == "runner" {
				c.applyCtrlRunnerCompact(decodeMsg(o.Msg))
			}
		case "timeout":
			round := o.R
			if inst := c.ctrl.StoredInstances.FindInstance(o.H); inst != nil {
				round = inst.State.Round
			}
			c.applyCtrlTimeout(o.H, round)
		}
	}
	for _, o := range script[:cut] {
		if o.Kind != "rcompact" {
			apply(o)
		}
	}
	for k := 4 + r.Intn(10); k > 0; k-- {
		base := certs[r.Intn(len(certs))]
		if r.Chance(25) { // the genuine certificate first (the node verifies it), then its signature on something else
			forged, kind := reuseVerified(r, base)
			tags = append(tags, "cert/reuse-verified:"+kind)
			apply(ScriptOp{Kind: "deliver", Msg: roundTrip(base)})
			if r.Chance(30) && len(script) > cut {
				apply(script[cut])
			}
			apply(ScriptOp{Kind: "deliver", Msg: roundTrip(forged)})
			continue
		}
		if enc, kind := forgeCert(env, r, base, mu); enc != nil {
			tags = append(tags, "cert/"+kind)
			apply(ScriptOp{Kind: "deliver", Msg: enc})
		}
	}
	for _, o := range script[cut:] {
		if o.Kind != "rcompact" {
			apply(o)
		}
		if r.Chance(12) {
			if enc, kind := forgeCert(env, r, certs[r.Intn(len(certs))], mu); enc != nil {
				tags = append(tags, "cert/"+kind)
				apply(ScriptOp{Kind: "deliver", Msg: enc})
			}
		}
	}
	return finishCase(c, tags)
}

// ---------------------------------------------------------------- re-use of VERIFIED signatures (seeded change C02-m1)

var reuseKinds = []string{"height", "round", "value", "height-value", "round-value", "root-only", "fulldata-only", "type"}

// reuseVerified: a forged certificate that keeps signature AND signer list of the genuine certificate `base` (which the
// caller delivers first, so that the node has verified it in this process) but is about something else.
func reuseVerified(r *hx.Rng, base *specqbft.SignedMessage) (*specqbft.SignedMessage, string) {
	m := cloneMsg(base)
	kind := reuseKinds[r.Intn(len(reuseKinds))]
	newValue := func() {
		v := valueBytes(70 + r.Intn(20))
		m.FullData = v
		m.Message.Root = sha256.Sum256(v)
	}
	switch kind {
	case "height":
		m.Message.Height += specqbft.Height(1 + r.Intn(2))
	case "round":
		m.Message.Round = specqbft.Round(1 + (uint64(m.Message.Round)+uint64(r.Intn(3)))%4)
	case "value":
		newValue()
	case "height-value":
		m.Message.Height += specqbft.Height(1 + r.Intn(2))
		newValue()
	case "round-value":
		m.Message.Round++
		newValue()
	case "root-only":
		m.Message.Root = sha256.Sum256(valueBytes(70 + r.Intn(20)))
	case "fulldata-only":
		m.FullData = valueBytes(70 + r.Intn(20))
	case "type":
		m.Message.MsgType = specqbft.PrepareMsgType
	}
	return m, kind
}

// scenarioReusedSignature (directed): operator 1 of 4 decides height h on the genuine certificate of {1,2,3} for A, then
// receives certificates with that very signature and signer list for (h, B), (h+1, B) and (h+1, A).
func scenarioReusedSignature(h specqbft.Height) caseOut {
	env := getEnv(4)
	f := &Forge{env: env, h: h}
	A, B := valueBytes(1), valueBytes(2)
	c := newCase(env, 1, h, [][]byte{badValue}, true, false, false)
	c.c02 = true
	c.emit(c.resetLine(), "ok")
	c.applyCtrlStart(h, A)
	genuine := f.decided([]spectypes.OperatorID{1, 2, 3}, h, 1, A)
	c.applyCtrlDeliver(decodeMsg(enc(genuine)))
	for _, v := range []struct {
		dh specqbft.Height
		v  []byte
	}{{0, B}, {1, B}, {1, A}, {2, B}} {
		m := cloneMsg(genuine)
		m.Message.Height += v.dh
		m.FullData = v.v
		m.Message.Root = sha256.Sum256(v.v)
		c.applyCtrlDeliver(decodeMsg(enc(m)))
	}
	return finishCase(c, []string{"case/directed", "directed/reused-verified-signature"})
}

// ---------------------------------------------------------------- histories towards a LOCAL decision (seeded changes C02-m2 / m3)

// runC02History: one operator, real controller with the real RoundRobinProposer and this operator's own value check.
//
//	wrong-leader : the operator is in round `cur` (after cur-1 timeouts); a proposal for a LATER round k, fully justified by a
//	               quorum of genuine round-changes for k, but signed by somebody who is not the leader of round k (the leader
//	               of the operator's current round, or any other non-leader); then prepare and commit quorums for it.
//	bad-value    : the leader of round k re-proposes a value that THIS operator's value check rejects, justified by a quorum
//	               of round-changes prepared on it in round k-1 (the other operators' checks accept it) and the matching
//	               prepare quorum; then prepare and commit quorums for it.
//
// The oracle is c02Check: a local decision implies own value check passed and the accepted proposal is the round leader's.
func runC02History(r *hx.Rng, kind string, n int, h specqbft.Height, op spectypes.OperatorID, cur, k specqbft.Round, whoIdx int) caseOut {
	env := getEnv(n)
	f := &Forge{env: env, r: r, h: h}
	prod := whoIdx%2 == 0 && r.Chance(70)
	c := newCaseCfg(env, op, h, [][]byte{badValue}, true, false, false, prod)
	c.c02 = true
	c.emit(c.resetLine(), "ok")
	tags := []string{"case/c02-history", "history/" + kind, fmt.Sprintf("n/%d", n), fmt.Sprintf("config/production-%v", prod)}
	c.applyCtrlStart(h, valueBytes(3))
	for rd := specqbft.Round(1); rd < cur; rd++ {
		c.applyCtrlTimeout(h, rd)
	}
	var others []spectypes.OperatorID
	for i := 1; i <= n; i++ {
		if spectypes.OperatorID(i) != op {
			others = append(others, spectypes.OperatorID(i))
		}
	}
	qs := others[:env.q]
	value := valueBytes(5)
	by := f.leader(k)
	var rcs, preps []*specqbft.SignedMessage
	switch kind {
	case "wrong-leader":
		for _, id := range qs {
			rcs = append(rcs, f.roundChange(id, k, 0, nil, nil))
		}
		by = f.leader(cur)
		if whoIdx > 0 || by == f.leader(k) {
			by = others[whoIdx%len(others)]
			if by == f.leader(k) {
				by = others[(whoIdx+1)%len(others)]
			}
		}
		tags = append(tags, fmt.Sprintf("history/wrong-leader-cur%d-k%d", cur, k))
	case "bad-value":
		value = badValue
		root := sha256.Sum256(value)
		for _, id := range qs {
			preps = append(preps, f.prepare(id, k-1, root))
		}
		for _, id := range qs {
			rcs = append(rcs, f.roundChange(id, k, k-1, value, preps))
		}
		tags = append(tags, fmt.Sprintf("history/bad-value-cur%d-k%d", cur, k))
	}
	root := sha256.Sum256(value)
	c.applyCtrlDeliver(decodeMsg(enc(f.proposal(by, k, value, rcs, preps))))
	for _, id := range qs {
		c.applyCtrlDeliver(decodeMsg(enc(f.prepare(id, k, root))))
	}
	for _, id := range qs {
		c.applyCtrlDeliver(decodeMsg(enc(f.commit(id, k, root))))
	}
	return finishCase(c, tags)
}

func randomC02History(r *hx.Rng) caseOut {
	n := []int{4, 4, 7}[r.Intn(3)]
	cur := specqbft.Round(1 + r.Intn(3))
	k := cur + specqbft.Round(1+r.Intn(2))
	kind := "wrong-leader"
	if r.Bool() {
		kind = "bad-value"
		if r.Bool() {
			k = cur // re-proposal for the round the operator is in (after its own timeouts); cur ≥ 2 needed
			if k < 2 {
				k = 2
			}
		}
	}
	return runC02History(r, kind, n, specqbft.Height(r.Intn(9)), spectypes.OperatorID(1+r.Intn(n)), cur, k, r.Intn(3))
}
