// Forged (Byzantine-style) traffic built from scratch with REAL signatures of arbitrary committee members: round-change
// sets with prepared/unprepared members, justified and unjustified proposals for current and future rounds (up to and
// beyond the cut-off), prepares/commits for them, decided messages for the same and other heights. Reaches the deep
// guards of isProposalJustification / validRoundChangeForData that honest traffic mutations rarely hit.
package main

import (
	"crypto/sha256"
	"fmt"

	specqbft "github.com/bloxapp/ssv-spec/qbft"
	spectypes "github.com/bloxapp/ssv-spec/types"

	"github.com/bloxapp/ssv/zz_verif/lib/hx"
)

type Forge struct {
	env *Env
	r   *hx.Rng
	h   specqbft.Height
}

func (f *Forge) base(t specqbft.MessageType, round specqbft.Round, root [32]byte) *specqbft.Message {
	return &specqbft.Message{MsgType: t, Height: f.h, Round: round, Identifier: f.env.identifier, Root: root}
}

func (f *Forge) prepare(id spectypes.OperatorID, round specqbft.Round, root [32]byte) *specqbft.SignedMessage {
	return f.env.sign(id, f.base(specqbft.PrepareMsgType, round, root))
}

func (f *Forge) commit(id spectypes.OperatorID, round specqbft.Round, root [32]byte) *specqbft.SignedMessage {
	return f.env.sign(id, f.base(specqbft.CommitMsgType, round, root))
}

func (f *Forge) decided(ids []spectypes.OperatorID, h specqbft.Height, round specqbft.Round, value []byte) *specqbft.SignedMessage {
	m := f.base(specqbft.CommitMsgType, round, sha256.Sum256(value))
	m.Height = h
	s := f.env.multiSign(ids, m)
	s.FullData = value
	return s
}

func marshalJust(ms []*specqbft.SignedMessage) [][]byte {
	b, err := specqbft.MarshalJustifications(ms)
	if err != nil {
		return nil
	}
	return b
}

func (f *Forge) roundChange(id spectypes.OperatorID, round, dataRound specqbft.Round, value []byte, prepares []*specqbft.SignedMessage) *specqbft.SignedMessage {
	m := f.base(specqbft.RoundChangeMsgType, round, [32]byte{})
	if dataRound != 0 {
		m.Root = sha256.Sum256(value)
		m.DataRound = dataRound
		m.RoundChangeJustification = marshalJust(prepares)
	}
	s := f.env.sign(id, m)
	if dataRound != 0 {
		s.FullData = value
	}
	return s
}

func (f *Forge) proposal(id spectypes.OperatorID, round specqbft.Round, value []byte, rcs, prepares []*specqbft.SignedMessage) *specqbft.SignedMessage {
	m := f.base(specqbft.ProposalMsgType, round, sha256.Sum256(value))
	m.RoundChangeJustification = marshalJust(rcs)
	m.PrepareJustification = marshalJust(prepares)
	s := f.env.sign(id, m)
	s.FullData = value
	return s
}

func (f *Forge) leader(round specqbft.Round) spectypes.OperatorID {
	st := &specqbft.State{Height: f.h, Share: f.env.share(1)}
	id, _ := safeLeader(st, round)
	return id
}

// safeLeader: the reference RoundRobinProposer indexes the committee with (int(height) % n + int(round) - 1) % n, which is
// negative (index out of range) for round 0 and for heights / rounds ≥ 2^63. The HARNESS never calls it outside
// 1 ≤ round < 2^62, height < 2^62 (the node doing so is an observation of the node — recovered per op).
func safeLeader(st *specqbft.State, round specqbft.Round) (spectypes.OperatorID, bool) {
	if st == nil || st.Share == nil || len(st.Share.Committee) == 0 || round < 1 || uint64(round) >= 1<<62 || uint64(st.Height) >= 1<<62 {
		return 0, false
	}
	return specqbft.RoundRobinProposer(st, round), true
}

// subset: k distinct operator ids in random order
func (f *Forge) subset(k int) []spectypes.OperatorID {
	p := f.r.Perm(f.env.n)
	if k > f.env.n {
		k = f.env.n
	}
	out := make([]spectypes.OperatorID, k)
	for i := 0; i < k; i++ {
		out[i] = spectypes.OperatorID(p[i] + 1)
	}
	return out
}

func (f *Forge) around(q uint64) int {
	k := int(q) + []int{-1, 0, 0, 0, 1}[f.r.Intn(5)]
	if k < 0 {
		k = 0
	}
	return k
}

func enc(m *specqbft.SignedMessage) []byte { return roundTrip(m) }

// forgeScript produces a test sequence for operator `op`.
func (f *Forge) forgeScript(op spectypes.OperatorID, startValue []byte) []ScriptOp {
	r := f.r
	env := f.env
	var ops []ScriptOp
	ops = append(ops, ScriptOp{Kind: "start", Value: startValue, H: f.h})
	cur := specqbft.Round(1)
	for k := r.Intn(3); k > 0; k-- {
		ops = append(ops, ScriptOp{Kind: "timeout", H: f.h, R: cur})
		cur++
	}
	add := func(m *specqbft.SignedMessage) {
		if b := enc(m); b != nil {
			ops = append(ops, ScriptOp{Kind: "deliver", Msg: b})
		}
	}
	valA, valB := valueBytes(70+r.Intn(5)), valueBytes(80+r.Intn(5))
	for phase := 0; phase < 1+r.Intn(3); phase++ {
		// target round of this phase
		target := cur
		switch r.Intn(8) {
		case 0:
			target = cur + 1
		case 1:
			target = cur + 2
		case 2:
			target = 14
		case 3:
			target = 15
		case 4:
			target = 16 + specqbft.Round(r.Intn(3))
		}
		if target < 2 && r.Chance(70) {
			target = 2
		}
		// prepared members
		nPrepared := []int{0, 0, 1, 2, env.n}[r.Intn(5)]
		signers := f.subset(f.around(env.q))
		var rcs []*specqbft.SignedMessage
		var highest *specqbft.SignedMessage
		var highestPrepares []*specqbft.SignedMessage
		for i, id := range signers {
			if i < nPrepared {
				pr := specqbft.Round(1 + r.Intn(int(target)))
				if pr >= target && r.Chance(80) {
					pr = target - 1
				}
				if pr == 0 {
					pr = 1
				}
				if r.Chance(8) {
					pr = target + 1
				}
				val := valA
				if r.Chance(25) {
					val = valB
				}
				root := sha256.Sum256(val)
				var preps []*specqbft.SignedMessage
				for _, pid := range f.subset(f.around(env.q)) {
					p := f.prepare(pid, pr, root)
					switch r.Intn(14) {
					case 0:
						p = f.prepare(pid, pr+1, root)
					case 1:
						p = f.prepare(pid, pr, sha256.Sum256(valB))
					case 2:
						p.Signature[7] ^= 2
					case 3:
						p = f.commit(pid, pr, root)
					case 4:
						p.Signers = append(p.Signers, pid)
					case 5:
						p.Message.Identifier = nil
					}
					preps = append(preps, p)
				}
				if r.Chance(10) { // the round-change's own prepare justification with repeated entries
					preps, _ = repeatMsgs(r, preps, env.q, env.n)
				}
				rc := f.roundChange(id, target, pr, val, preps)
				if r.Chance(6) {
					rc.FullData = valB
				}
				rcs = append(rcs, rc)
				if highest == nil || highest.Message.DataRound < pr {
					highest, highestPrepares = rc, preps
				}
			} else {
				rc := f.roundChange(id, target, 0, nil, nil)
				switch r.Intn(20) {
				case 0:
					rc = f.roundChange(id, target+1, 0, nil, nil)
				case 1:
					rc.Signature[3] ^= 1
				case 2: // properly signed round-change with an empty identifier: passes the signature check, fails Message.Validate
					m := f.base(specqbft.RoundChangeMsgType, target, [32]byte{})
					m.Identifier = nil
					rc = f.env.sign(id, m)
				case 3: // properly signed round-change whose own justification list does not decode
					m := f.base(specqbft.RoundChangeMsgType, target, [32]byte{})
					m.RoundChangeJustification = [][]byte{{1, 2, 3}}
					rc = f.env.sign(id, m)
				}
				rcs = append(rcs, rc)
			}
		}
		mode := r.Intn(3)
		if mode != 1 { // deliver the round-changes themselves (the node may be the leader, or be pulled by a partial quorum)
			for _, rc := range rcs {
				add(rc)
			}
		}
		if mode != 0 { // a proposal carrying them
			val := startValue
			var pj []*specqbft.SignedMessage
			if highest != nil {
				val = highest.FullData
				pj = highestPrepares
				switch r.Intn(10) {
				case 0:
					pj = nil
				case 1:
					if len(pj) > 0 {
						pj = pj[:len(pj)-1]
					}
				case 2:
					val = valB
				}
			} else if r.Chance(15) {
				val = valB
			} else if r.Chance(5) {
				val = badValue
			}
			if len(pj) > 1 && r.Chance(25) { // the proposal's prepare justification with repeated entries (its round-changes' own ones intact)
				pj, _ = repeatMsgs(r, pj, env.q, env.n)
			}
			ld := f.leader(target)
			if r.Chance(10) {
				ld = spectypes.OperatorID(1 + r.Intn(env.n))
			}
			rcj := rcs
			if len(rcj) > 1 && r.Chance(12) { // repeated round-changes in the justification
				rcj, _ = repeatMsgs(r, rcj, env.q, env.n)
			}
			switch r.Intn(12) {
			case 0:
				rcj = nil
			case 1:
				if len(rcj) > 0 {
					rcj = rcj[:len(rcj)-1]
				}
			case 2:
				if len(rcj) > 0 {
					rcj = append(append([]*specqbft.SignedMessage{}, rcj...), rcj[0])
				}
			}
			prop := f.proposal(ld, target, val, rcj, pj)
			add(prop)
			if r.Chance(25) { // equivocating second proposal of the same leader
				add(f.proposal(ld, target, valB, rcj, pj))
			}
			root := sha256.Sum256(val)
			for _, pid := range f.subset(f.around(env.q)) {
				add(f.prepare(pid, target, root))
			}
			if r.Chance(70) {
				cs := f.subset(f.around(env.q))
				for i, cid := range cs {
					c := f.commit(cid, target, root)
					if r.Chance(8) { // same round and root, different signed content: counted, then breaks aggregation
						c = f.env.sign(cid, &specqbft.Message{MsgType: specqbft.CommitMsgType, Height: f.h, Round: target, Identifier: env.identifier, Root: root, DataRound: 7})
					}
					_ = i
					add(c)
				}
			}
		}
		if r.Chance(30) {
			k := int(env.q) + r.Intn(env.n-int(env.q)+1)
			dr := []specqbft.Round{1, cur, target, 0}[r.Intn(4)]
			if r.Chance(15) { // aggregate whose signer LIST has quorum length with repeated ids
				add(f.decided(repeatIDs(r, f.subset(k), env.q), f.h, dr, valA))
			}
			add(f.decided(f.subset(k), f.h, dr, valA))
			if r.Chance(50) {
				add(f.decided(f.subset(int(env.q)+r.Intn(env.n-int(env.q)+1)), f.h, dr, []([]byte){valA, valB}[r.Intn(2)]))
			}
		}
		if target > cur && target < 100 {
			cur = target
		}
		if r.Chance(30) {
			ops = append(ops, ScriptOp{Kind: "timeout", H: f.h, R: cur})
			cur++
		}
	}
	return ops
}

// ---------------------------------------------------------------- lists with REPEATED entries

// repeatMsgs turns a justification list into one whose LENGTH and number of DISTINCT signers differ (the code counts distinct
// signers at some sites — specqbft.HasQuorum / HasPartialQuorum — and list lengths at others — Share.HasQuorum(len(..))):
//
//	0: one entry replaced by a copy of another (same length, one distinct signer fewer)
//	1: quorum-1 distinct entries padded with copies to exactly the quorum size (if the list is long enough)
//	2: quorum-1 distinct entries padded with copies to the committee size
//	3: all entries kept, one or two copies appended
//	4: every entry twice
func repeatMsgs(r *hx.Rng, ms []*specqbft.SignedMessage, q uint64, n int) ([]*specqbft.SignedMessage, string) {
	if len(ms) < 2 {
		return ms, ""
	}
	cp := func(m *specqbft.SignedMessage) *specqbft.SignedMessage { return cloneMsg(m) }
	pad := func(distinct, size int) []*specqbft.SignedMessage {
		if distinct > len(ms) {
			distinct = len(ms)
		}
		if distinct < 1 {
			distinct = 1
		}
		out := append([]*specqbft.SignedMessage{}, ms[:distinct]...)
		for len(out) < size {
			out = append(out, cp(ms[r.Intn(distinct)]))
		}
		p := r.Perm(len(out))
		sh := make([]*specqbft.SignedMessage, len(out))
		for i, j := range p {
			sh[i] = out[j]
		}
		return sh
	}
	switch mode := r.Intn(5); mode {
	case 0:
		out := append([]*specqbft.SignedMessage{}, ms...)
		i := r.Intn(len(out))
		j := (i + 1 + r.Intn(len(out)-1)) % len(out)
		out[i] = cp(out[j])
		return out, "replace-one"
	case 1:
		return pad(int(q)-1, int(q)), "pad-to-quorum"
	case 2:
		return pad(int(q)-1, n), "pad-to-committee"
	case 3:
		out := append([]*specqbft.SignedMessage{}, ms...)
		for k := 1 + r.Intn(2); k > 0; k-- {
			out = append(out, cp(ms[r.Intn(len(ms))]))
		}
		return out, "append-copies"
	default:
		var out []*specqbft.SignedMessage
		for _, m := range ms {
			out = append(out, m, cp(m))
		}
		return out, "all-twice"
	}
}

// repeatIDs: a signer list of (at least) quorum LENGTH with fewer distinct ids
func repeatIDs(r *hx.Rng, ids []spectypes.OperatorID, q uint64) []spectypes.OperatorID {
	if len(ids) < 2 {
		return ids
	}
	d := int(q) - 1 - r.Intn(2)
	if d < 1 {
		d = 1
	}
	if d > len(ids) {
		d = len(ids)
	}
	out := append([]spectypes.OperatorID{}, ids[:d]...)
	for uint64(len(out)) < q+uint64(r.Intn(2)) {
		out = append(out, ids[r.Intn(d)])
	}
	return out
}

// scenarioRepeatedJustifications (directed, mode c06; seeded change C06b-m3): instance three-way (node / ssv-spec / model) and
// controller. The operator is in round 1; the leader of round 2 sends proposals for X that carry a quorum of round-changes
// prepared on (1, X) — each with its own intact prepare quorum — and a PrepareJustification of quorum (or committee) LENGTH
// from fewer than quorum DISTINCT signers; then round-change justifications with repeated round-changes; then the intact one.
func scenarioRepeatedJustifications(n int, h specqbft.Height, ctrl bool) caseOut {
	env := getEnv(n)
	r := hx.NewRng(uint64(n)*977 + uint64(h))
	f := &Forge{env: env, r: r, h: h}
	ld := f.leader(2)
	op := spectypes.OperatorID(1)
	if op == ld {
		op = 2
	}
	var others []spectypes.OperatorID
	for i := 1; i <= n; i++ {
		if spectypes.OperatorID(i) != op {
			others = append(others, spectypes.OperatorID(i))
		}
	}
	qs := others[:env.q]
	X := valueBytes(7)
	root := sha256.Sum256(X)
	var preps, rcs []*specqbft.SignedMessage
	for _, id := range qs {
		preps = append(preps, f.prepare(id, 1, root))
	}
	for i, id := range qs {
		if i == 0 {
			rcs = append(rcs, f.roundChange(id, 2, 1, X, preps))
		} else {
			rcs = append(rcs, f.roundChange(id, 2, 0, nil, nil))
		}
	}
	short := func(size int) []*specqbft.SignedMessage { // quorum-1 distinct signers, `size` entries
		out := append([]*specqbft.SignedMessage{}, preps[:env.q-1]...)
		for len(out) < size {
			out = append(out, cloneMsg(preps[len(out)%int(env.q-1)]))
		}
		return out
	}
	c := newCase(env, op, h, [][]byte{badValue}, ctrl, !ctrl, false)
	c.emit(c.resetLine(), "ok")
	deliver := func(m *specqbft.SignedMessage) {
		if ctrl {
			c.applyCtrlDeliver(decodeMsg(enc(m)))
		} else {
			c.applyInstDeliver(enc(m))
		}
	}
	if ctrl {
		c.applyCtrlStart(h, valueBytes(3))
	} else {
		c.applyInstStart(valueBytes(3), h)
	}
	deliver(f.proposal(ld, 2, X, rcs, short(int(env.q))))
	deliver(f.proposal(ld, 2, X, rcs, short(n)))
	deliver(f.proposal(ld, 2, X, rcs, append(append([]*specqbft.SignedMessage{}, preps[:1]...), preps[:env.q-1]...)))
	// repeated round-changes: quorum length, quorum-1 distinct signers
	rshort := append(append([]*specqbft.SignedMessage{}, rcs[:env.q-1]...), cloneMsg(rcs[0]))
	deliver(f.proposal(ld, 2, X, rshort, preps))
	// a round-change message whose OWN prepare justification has quorum length from quorum-1 distinct signers
	deliver(f.roundChange(qs[1], 2, 1, X, short(int(env.q))))
	deliver(f.proposal(ld, 2, X, append([]*specqbft.SignedMessage{f.roundChange(qs[0], 2, 1, X, short(int(env.q)))}, rcs[1:]...), preps))
	// intact
	deliver(f.proposal(ld, 2, X, rcs, preps))
	return finishCase(c, []string{"case/directed", fmt.Sprintf("directed/repeated-justification-entries-n%d-ctrl-%v", n, ctrl)})
}
