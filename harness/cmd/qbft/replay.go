// Replay: abstract op lines (as written by this harness or by hand, e.g. corpus witnesses) are turned back into REAL
// signed messages (value id k ↔ valueBytes(k), root = its sha256, `sig=1` ↔ properly signed by the listed signers,
// `sig=0` ↔ corrupted signature, `mal=1` ↔ an undecodable justification entry) and applied to the real objects with the
// same oracles as in generation. The lines that are emitted are re-abstracted from the real messages.
package main

import (
	"crypto/sha256"
	"strconv"
	"strings"

	specqbft "github.com/bloxapp/ssv-spec/qbft"
	spectypes "github.com/bloxapp/ssv-spec/types"
)

func kvOf(ws []string, k string) string {
	for _, w := range ws {
		if strings.HasPrefix(w, k+"=") {
			return w[len(k)+1:]
		}
	}
	return ""
}

func atou(s string) uint64 { v, _ := strconv.ParseUint(s, 10, 64); return v }

func parseIDs(s string) []spectypes.OperatorID {
	if s == "-" || s == "" {
		return nil
	}
	var out []spectypes.OperatorID
	for _, p := range strings.Split(s, "+") {
		out = append(out, spectypes.OperatorID(atou(p)))
	}
	return out
}

type absBase struct {
	t, h, r, id, root, dr, mid uint64
	sig, mal                   bool
	signers                    []spectypes.OperatorID
}

func parseAbsBase(s string) (absBase, bool) {
	f := strings.Split(s, ",")
	if len(f) != 10 {
		return absBase{}, false
	}
	return absBase{t: atou(f[0]), h: atou(f[1]), r: atou(f[2]), id: atou(f[3]), root: atou(f[4]), dr: atou(f[5]), sig: f[6] == "1", mal: f[7] == "1",
		mid: atou(f[8]), signers: parseIDs(f[9])}, true
}

// concretizer of one case
type concr struct {
	c    *Case
	sigs map[uint64][]byte // original mid -> signature bytes of the validly signed top-level message (for `sigof=`)
}

func (k *concr) rootBytes(id uint64) [32]byte {
	var r [32]byte
	switch id {
	case 0:
		r = sha256.Sum256(nil)
	case 1:
		r = [32]byte{}
	default:
		r = sha256.Sum256(valueBytes(int(id)))
	}
	if _, ok := k.c.in.roots[r]; !ok {
		taken := false
		for _, v := range k.c.in.roots {
			if v == int(id) {
				taken = true
			}
		}
		if !taken {
			k.c.in.roots[r] = int(id)
		}
	}
	return r
}

func (k *concr) valBytes(id uint64) []byte {
	if id == 0 {
		return nil
	}
	k.rootBytes(id)
	return valueBytes(int(id))
}

func (k *concr) ident(id uint64) []byte {
	switch id {
	case 0:
		return nil
	case 1:
		return k.c.env.identifier
	case 2: // the other duty role of the same validator (crossrole.go)
		if k.c.role == 2 {
			return getEnv(k.c.env.n).identifier
		}
		return getEnvRole2(k.c.env.n).identifier
	}
	b := append([]byte{}, k.c.env.identifier...)
	b[len(b)-1] ^= byte(id)
	return b
}

func (k *concr) build(b absBase, rcj, pj [][]byte, full []byte) *specqbft.SignedMessage {
	m := &specqbft.Message{MsgType: specqbft.MessageType(b.t), Height: specqbft.Height(b.h), Round: specqbft.Round(b.r), Identifier: k.ident(b.id),
		Root: k.rootBytes(b.root), DataRound: specqbft.Round(b.dr), RoundChangeJustification: rcj, PrepareJustification: pj}
	if b.mal {
		m.RoundChangeJustification = append(m.RoundChangeJustification, []byte{1, 2, 3})
	}
	var sm *specqbft.SignedMessage
	if len(b.signers) == 0 {
		sm = &specqbft.SignedMessage{Message: *m, Signature: make([]byte, 96)}
	} else {
		sm = k.c.env.multiSign(b.signers, m)
	}
	if !b.sig && len(sm.Signature) == 96 {
		sm.Signature[5] ^= 0x40
	}
	sm.FullData = full
	return sm
}

func (k *concr) baseList(s string) [][]byte {
	if s == "-" || s == "" {
		return nil
	}
	var out [][]byte
	for _, p := range strings.Split(s, ";") {
		if b, ok := parseAbsBase(p); ok {
			enc, err := k.build(b, nil, nil, nil).MarshalSSZ()
			if err == nil {
				out = append(out, enc)
			}
		}
	}
	return out
}

func (k *concr) l1List(s string) [][]byte {
	if s == "-" || s == "" {
		return nil
	}
	var out [][]byte
	for _, p := range strings.Split(s, "/") {
		f := strings.SplitN(p, "|", 2)
		if len(f) != 2 {
			continue
		}
		if b, ok := parseAbsBase(f[0]); ok {
			enc, err := k.build(b, k.baseList(f[1]), nil, nil).MarshalSSZ()
			if err == nil {
				out = append(out, enc)
			}
		}
	}
	return out
}

func (k *concr) msg(ws []string) []byte {
	b := absBase{t: atou(kvOf(ws, "t")), h: atou(kvOf(ws, "h")), r: atou(kvOf(ws, "r")), id: atou(kvOf(ws, "id")), root: atou(kvOf(ws, "root")),
		dr: atou(kvOf(ws, "dr")), sig: kvOf(ws, "sig") == "1", mal: kvOf(ws, "mal") == "1", mid: atou(kvOf(ws, "mid")), signers: parseIDs(kvOf(ws, "s"))}
	sm := k.build(b, k.l1List(kvOf(ws, "rcj")), k.baseList(kvOf(ws, "pj")), k.valBytes(atou(kvOf(ws, "full"))))
	if k.sigs == nil {
		k.sigs = map[uint64][]byte{}
	}
	if b.sig {
		if _, ok := k.sigs[b.mid]; !ok {
			k.sigs[b.mid] = append([]byte{}, sm.Signature...)
		}
	} else if so := kvOf(ws, "sigof"); so != "" {
		if sg, ok := k.sigs[atou(so)]; ok {
			sm.Signature = append([]byte{}, sg...)
		}
	}
	return roundTrip(sm)
}

// multi-node replay (modes sim / c07): the `reset` blocks of one file are the correct operators of ONE schedule; the
// cross-operator oracles are evaluated on the real objects after all blocks ran.
type replayNode struct {
	c        *Case
	reported []byte
	hasRep   bool
	flipped  bool
	compacts int
}

func crossOracles(nodes []*replayNode, all []string) []violation {
	var out []violation
	if len(nodes) < 2 || (*mode != "sim" && *mode != "c07") {
		return nil
	}
	suffix := ""
	compacts := 0
	for _, n := range nodes {
		compacts += n.compacts
	}
	if compacts > 0 {
		for _, n := range nodes {
			if n.c.diverged {
				suffix = ":runner-compaction-visible"
			}
		}
	}
	add := func(sig, detail string) { out = append(out, violation{sig: sig, detail: detail, replay: all}) }
	var allCases []*Case
	for _, n := range nodes {
		allCases = append(allCases, n.c)
	}
	staleTimer := false
	for _, c := range allCases {
		staleTimer = staleTimer || (*mode == "c07" && c.firedUnarmed)
	}
	if inconsistentReplay(allCases) || staleTimer {
		// the file feeds an operator a message in the name of a correct operator that does not send it on this tree, or (c07:
		// the continuation fires timers as armed) fires a round timer that is not the live one here: the recorded schedule
		// is not a schedule of this tree (the traces are still diffed against the model)
		nodes[0].c.tags = append(nodes[0].c.tags, "replay/schedule-does-not-exist-on-this-tree")
		return nil
	}
	if *mode == "sim" {
		if suffix != "" {
			suffix += compactionMechanism(allCases)
		}
		for i, a := range nodes {
			if a.flipped {
				add("C01/decided-value-of-an-honest-operator-changed"+suffix, "replay: DecidedValue of operator "+strconv.Itoa(int(a.c.op))+" changed")
			}
			for _, b := range nodes[i+1:] {
				if a.hasRep && b.hasRep && string(a.reported) != string(b.reported) {
					add("C01/two-honest-operators-report-different-values"+suffix, "replay: operators "+strconv.Itoa(int(a.c.op))+" and "+strconv.Itoa(int(b.c.op))+" report different values")
				}
				ia, ib := a.c.ctrl.StoredInstances.FindInstance(a.c.height), b.c.ctrl.StoredInstances.FindInstance(b.c.height)
				if ia != nil && ib != nil && ia.State.Decided && ib.State.Decided && string(ia.State.DecidedValue) != string(ib.State.DecidedValue) {
					add("C01/two-honest-instances-hold-different-decided-values"+suffix, "replay: operators "+strconv.Itoa(int(a.c.op))+" and "+strconv.Itoa(int(b.c.op))+" hold different DecidedValue")
				}
			}
		}
	} else { // c07: the file is a prefix followed by the constructed continuation; at its end everybody must be decided
		var cs []*Case
		for _, n := range nodes {
			cs = append(cs, n.c)
		}
		if d, ok := refusedCorrectProposals(cs); ok {
			add("C07/correct-leaders-proposal-refused", "replay: "+d)
		}
		vals := map[string]bool{}
		undecided, decided := 0, 0
		for _, n := range nodes {
			inst := n.c.ctrl.StoredInstances.FindInstance(n.c.height)
			if inst != nil && inst.State.Decided {
				decided++
				continue
			}
			undecided++
			if inst != nil && inst.State.LastPreparedRound != 0 {
				vals[string(inst.State.LastPreparedValue)] = true
			}
		}
		if undecided > 0 {
			cause := ":other"
			if len(vals) > 1 {
				cause = ":correct-operators-locked-on-different-values"
				suffix = ""
			} else if decided > 0 && uint64(undecided) < nodes[0].c.env.q {
				cause = ":decided-operators-stop-participating"
			} else {
				var cs []*Case
				for _, n := range nodes {
					cs = append(cs, n.c)
				}
				if sp := wedgeCauseOf(cs); sp != "" {
					cause = sp
				}
			}
			add("C07/no-decision-within-f+3-rounds"+cause+suffix, "replay: at the end of the constructed continuation not every correct operator has decided")
		}
	}
	return out
}

func replay(lines []string) []caseOut {
	var outs []caseOut
	var c *Case
	var k *concr
	var nodes []*replayNode
	var cur *replayNode
	multi := *mode == "sim" || *mode == "c07"
	flush := func() {
		if c != nil {
			if multi {
				c.viols = nil // per-operator compaction findings only attribute the cross-operator ones
			}
			outs = append(outs, finishCase(c, []string{"case/replay"}))
		}
	}
	for _, l := range lines {
		ws := strings.Fields(l)
		if len(ws) == 0 {
			continue
		}
		if ws[0] == "reset" {
			flush()
			env := getEnv(int(atou(kvOf(ws, "n"))))
			role2 := kvOf(ws, "role") == "2"
			if role2 {
				env = getEnvRole2(env.n)
			}
			ctrl := kvOf(ws, "mode") == "ctrl"
			c = newCaseCfg(env, spectypes.OperatorID(atou(kvOf(ws, "op"))), specqbft.Height(atou(kvOf(ws, "h"))), nil, ctrl, !ctrl, ctrl, kvOf(ws, "cfg") == "prod")
			if role2 {
				c.role = 2
				c.in.Ident(getEnv(env.n).identifier)
			} else {
				c.in.Ident(getEnvRole2(env.n).identifier)
			}
			c.c02 = *mode == "c02"
			c.c07 = *mode == "c07" && !role2 && ctrl
			k = &concr{c: c}
			cur = &replayNode{c: c}
			if !role2 { // the cross-operator oracles are about the role under test
				nodes = append(nodes, cur)
			}
			for _, b := range parseIDs(kvOf(ws, "bad")) {
				c.bad = append(c.bad, k.valBytes(uint64(b)))
			}
			c.emit(c.resetLine(), "ok")
			continue
		}
		if c == nil {
			continue
		}
		c.nf = kvOf(ws, "nf")
		switch ws[0] {
		case "start":
			h := c.height
			if s := kvOf(ws, "h"); s != "" {
				h = specqbft.Height(atou(s))
			}
			c.applyInstStart(k.valBytes(atou(kvOf(ws, "v"))), h)
		case "deliver":
			if enc := k.msg(ws[1:]); enc != nil {
				c.applyInstDeliver(enc)
			}
		case "timeout":
			c.applyInstTimeout()
		case "compact":
			c.applyInstCompact(false)
		case "compactcopy":
			c.applyInstCompact(true)
		case "stop":
			c.applyInstStop()
		case "cstart":
			c.applyCtrlStart(specqbft.Height(atou(kvOf(ws, "h"))), k.valBytes(atou(kvOf(ws, "v"))))
		case "cdeliver":
			if enc := k.msg(ws[1:]); enc != nil {
				var before []byte
				wasDecided := false
				if inst := c.ctrl.StoredInstances.FindInstance(c.height); inst != nil && inst.State.Decided {
					wasDecided, before = true, append([]byte{}, inst.State.DecidedValue...)
				}
				r := c.applyCtrlDeliver(decodeMsg(enc))
				if r.retMsg != nil && r.retMsg.Message.Height == c.height && !cur.hasRep {
					cur.hasRep, cur.reported = true, append([]byte{}, r.retMsg.FullData...)
				}
				if inst := c.ctrl.StoredInstances.FindInstance(c.height); inst != nil && wasDecided && string(inst.State.DecidedValue) != string(before) {
					cur.flipped = true
				}
			}
		case "ctimeout":
			c.applyCtrlTimeout(specqbft.Height(atou(kvOf(ws, "h"))), specqbft.Round(atou(kvOf(ws, "r"))))
		case "ccompact":
			if multi { // sim / c07 policy decided-only: attributed to compaction only when the shadow comparison says so
				cur.compacts++
			} else {
				c.diverged = true // arbitrary placement: not what the node does, the compaction oracle is not evaluated
			}
			c.applyCtrlCompactAt(specqbft.Height(atou(kvOf(ws, "h"))))
		case "crcompact":
			if enc := k.msg(ws[1:]); enc != nil {
				c.applyCtrlRunnerCompact(decodeMsg(enc))
				cur.compacts++
			}
		}
	}
	flush()
	if multi && len(outs) > 0 {
		var all []string
		for _, o := range outs {
			all = append(all, o.lines...)
		}
		outs[0].viols = append(outs[0].viols, crossOracles(nodes, all)...)
	}
	return outs
}
