// Harness for engine `qbft` (C01, C02, C06, C07): drives REAL instance.Instance / controller.Controller objects
// (real BLS signing and verification), writes one op line + one canonical observation per op (diffed against the Lean
// model `m_qbft` by bin/check) and evaluates the implementation-side property oracles (apply.go, sim_search.go).
//
//	-mode c06  : single-instance sequences (node vs model vs ssv-spec instance) + controller sequences with the runner's
//	             real compaction against a never-compacted reference controller
//	-mode c02  : forged-certificate stream against the real controller + real QBFTStore
//	-mode sim  : n real controllers under a seeded adversarial scheduler (C01 agreement / C07 termination oracles)
package main

import (
	"crypto/sha256"
	"flag"
	"fmt"
	"os"
	"runtime"
	"runtime/debug"
	"strconv"
	"strings"
	"sync"

	specqbft "github.com/bloxapp/ssv-spec/qbft"
	spectypes "github.com/bloxapp/ssv-spec/types"

	"github.com/bloxapp/ssv/zz_verif/lib/hx"
)

var mode = flag.String("mode", "c06", "c06 | c02 | sim | c07")

type caseOut struct {
	lines, obs []string
	viols      []violation
	tags       []string
	seen       []string
}

func finishCase(c *Case, extraTags []string) caseOut {
	o := caseOut{lines: c.lines, obs: c.obs, viols: append(append([]violation{}, c.viols...), c.stepViols...), tags: append(extraTags, c.tags...)}
	for i, l := range c.lines {
		kind := l
		if j := strings.IndexByte(l, ' '); j > 0 {
			kind = l[:j]
		}
		res := c.obs[i]
		if j := strings.IndexByte(res, ' '); j > 0 {
			res = res[:j]
		}
		t := ""
		if kind == "deliver" || kind == "cdeliver" {
			if j := strings.Index(l, " t="); j > 0 {
				t = l[j+3 : j+4]
			}
		}
		o.tags = append(o.tags, "op/"+kind, "res/"+res)
		dec := strings.Contains(c.obs[i], ",d1:")
		o.seen = append(o.seen, fmt.Sprintf("%s|%s|%s|dec=%v|n=%d", kind, t, res, dec, c.env.n))
	}
	return o
}

// ---------------------------------------------------------------- mode c06

func runInstCase(t *Traffic, op spectypes.OperatorID, r *hx.Rng) caseOut {
	env := t.env
	var tags []string
	ops := mutateScript(t, t.scripts[int(op)-1], r, &tags)
	policy := []string{"none", "none", "none", "after-rc", "after-every", "random"}[r.Intn(6)]
	prod := r.Chance(25)
	c := newCaseCfg(env, op, t.h, [][]byte{badValue}, false, policy == "none", false, prod)
	c.emit(c.resetLine(), "ok")
	tags = append(tags, fmt.Sprintf("config/production-%v", prod), "case/inst", "scenario/"+t.scenario, "compaction/"+policy, fmt.Sprintf("n/%d", env.n))
	pFault := []int{0, 0, 3, 8}[r.Intn(4)]
	for _, o := range ops {
		if r.Chance(pFault) {
			c.nf = []string{"a", "b"}[r.Intn(2)]
			tags = append(tags, "gen/network-fault-"+c.nf)
		}
		switch o.Kind {
		case "start":
			c.applyInstStart(o.Value, o.H)
		case "deliver":
			res := c.applyInstDeliver(o.Msg)
			_ = res
			m := decodeMsg(o.Msg)
			isRC := m != nil && m.Message.MsgType == specqbft.RoundChangeMsgType
			if policy == "after-every" || (policy == "after-rc" && isRC) || (policy == "random" && r.Chance(25)) {
				c.applyInstCompact(r.Chance(30))
			}
		case "timeout":
			c.applyInstTimeout()
		case "stop":
			c.applyInstStop()
		}
	}
	return finishCase(c, tags)
}

func runCtrlCase(t *Traffic, op spectypes.OperatorID, r *hx.Rng) caseOut {
	env := t.env
	var tags []string
	ops := mutateScript(t, t.scripts[int(op)-1], r, &tags)
	if r.Chance(35) {
		ops = multiHeight(t, ops, r, &tags)
	}
	policy := []string{"none", "runner", "runner", "runner", "arbitrary"}[r.Intn(5)]
	prod := r.Chance(25)
	c := newCaseCfg(env, op, t.h, [][]byte{badValue}, true, false, policy == "runner", prod)
	c.emit(c.resetLine(), "ok")
	tags = append(tags, fmt.Sprintf("config/production-%v", prod), "case/ctrl", "scenario/"+t.scenario, "compaction/"+policy, fmt.Sprintf("n/%d", env.n))
	pFault := []int{0, 0, 3, 8}[r.Intn(4)]
	for _, o := range ops {
		if r.Chance(pFault) {
			c.nf = []string{"a", "b"}[r.Intn(2)]
			tags = append(tags, "gen/network-fault-"+c.nf)
		}
		switch o.Kind {
		case "start":
			c.applyCtrlStart(o.H, o.Value)
		case "deliver":
			m := decodeMsg(o.Msg)
			c.applyCtrlDeliver(m)
			if policy == "runner" {
				c.applyCtrlRunnerCompact(decodeMsg(o.Msg))
			} else if policy == "arbitrary" && r.Chance(30) {
				c.applyCtrlCompactAt(m.Message.Height)
			}
		case "timeout":
			round := o.R
			if inst := c.ctrl.StoredInstances.FindInstance(o.H); inst != nil && r.Chance(85) {
				round = inst.State.Round
			}
			c.applyCtrlTimeout(o.H, round)
		}
	}
	return finishCase(c, tags)
}

// multiHeight sprinkles operations on other heights over a controller sequence: starts (valid, past, repeated, with a
// rejected value), timeouts for unknown heights, decided messages and ordinary messages of future / past heights.
func multiHeight(t *Traffic, ops []ScriptOp, r *hx.Rng, tags *[]string) []ScriptOp {
	f := &Forge{env: t.env, r: r, h: t.h}
	hs := []specqbft.Height{t.h + 1, t.h + 2, t.h + 3, t.h - 1, t.h}
	for k := 1 + r.Intn(5); k > 0; k-- {
		h := hs[r.Intn(len(hs))]
		if t.h == 0 && h > 1<<62 {
			h = 1
		}
		var o ScriptOp
		switch r.Intn(6) {
		case 0:
			v := valueBytes(90 + r.Intn(3))
			if r.Chance(15) {
				v = badValue
			} else if r.Chance(10) {
				v = nil
			}
			o = ScriptOp{Kind: "start", Value: v, H: h}
			*tags = append(*tags, "gen/other-height-start")
		case 1:
			o = ScriptOp{Kind: "timeout", H: h, R: specqbft.Round(1 + r.Intn(3))}
			*tags = append(*tags, "gen/other-height-timeout")
		case 2, 3:
			k := int(t.env.q) + r.Intn(t.env.n-int(t.env.q)+1)
			o = ScriptOp{Kind: "deliver", Msg: enc(f.decided(f.subset(k), h, specqbft.Round(1+r.Intn(3)), valueBytes(90+r.Intn(3))))}
			*tags = append(*tags, "gen/other-height-decided")
		default:
			g := &Forge{env: t.env, r: r, h: h}
			root := sha256.Sum256(valueBytes(90))
			m := []*specqbft.SignedMessage{g.prepare(g.subset(1)[0], 1, root), g.commit(g.subset(1)[0], 1, root),
				g.roundChange(g.subset(1)[0], 2, 0, nil, nil), g.proposal(g.leader(1), 1, valueBytes(90), nil, nil)}[r.Intn(4)]
			o = ScriptOp{Kind: "deliver", Msg: enc(m)}
			*tags = append(*tags, "gen/other-height-msg")
		}
		i := 1 + r.Intn(len(ops))
		ops = append(ops[:i], append([]ScriptOp{o}, ops[i:]...)...)
	}
	return ops
}

func forgeTraffic(env *Env, r *hx.Rng) (*Traffic, spectypes.OperatorID) {
	hs := []uint64{0, 1, 2, 3, 5, 6, 9, 1 << 30}
	h := specqbft.Height(hs[r.Intn(len(hs))])
	op := spectypes.OperatorID(1 + r.Intn(env.n))
	f := &Forge{env: env, r: r, h: h}
	sv := valueBytes(r.Intn(40))
	t := &Traffic{env: env, h: h, scenario: "forged", values: [][]byte{sv}}
	t.scripts = make([][]ScriptOp, env.n)
	t.scripts[int(op)-1] = f.forgeScript(op, sv)
	for _, o := range t.scripts[int(op)-1] {
		if o.Kind == "deliver" {
			t.wire = append(t.wire, &Wire{Enc: o.Msg, Msg: decodeMsg(o.Msg)})
		}
	}
	return t, op
}

// ---------------------------------------------------------------- driver

func one(f func(idx int, r *hx.Rng) caseOut) func(idx int, r *hx.Rng) []caseOut {
	return func(idx int, r *hx.Rng) []caseOut { return []caseOut{f(idx, r)} }
}

func parallelCases(run *hx.Run, nOps int, mk func(idx int, r *hx.Rng) []caseOut) {
	workers := runtime.NumCPU()
	if workers > 12 {
		workers = 12
	}
	batch := workers * 4
	idx := 0
	for run.Evals < nOps {
		outs := make([][]caseOut, batch)
		var wg sync.WaitGroup
		sem := make(chan struct{}, workers)
		for k := 0; k < batch; k++ {
			wg.Add(1)
			sem <- struct{}{}
			go func(k int) {
				defer wg.Done()
				defer func() { <-sem }()
				outs[k] = guarded(func() []caseOut {
					o := mk(idx+k, hx.NewRng(run.Seed*1000003+uint64(idx+k)*7919+11))
					if selfTestPanic && idx+k == 3 { // VERIF_QBFT_SELFTEST_PANIC=1: exercises the harness-error path
						panic("self-test")
					}
					return o
				})
			}(k)
		}
		wg.Wait()
		idx += batch
		for _, os := range outs {
			for _, o := range os {
				absorb(run, o)
			}
		}
	}
}

// ---------------------------------------------------------------- harness errors are findings about the HARNESS, not process deaths

var selfTestPanic = os.Getenv("VERIF_QBFT_SELFTEST_PANIC") != ""

var caseReg sync.Map // goroutine id -> *[]*Case : the cases created by the case body running on that goroutine

func goid() uint64 {
	var buf [64]byte
	n := runtime.Stack(buf[:], false)
	f := strings.Fields(string(buf[:n]))
	if len(f) < 2 {
		return 0
	}
	id, _ := strconv.ParseUint(f[1], 10, 64)
	return id
}

func regCase(c *Case) {
	v, _ := caseReg.LoadOrStore(goid(), &[]*Case{})
	p := v.(*[]*Case)
	*p = append(*p, c)
}

// guarded runs one case body; a panic inside the harness (not inside the code under test: those are recovered per op and are
// observations) becomes a `HARNESS/panic` violation carrying the op lines of the cases the body had created, and the run goes on.
func guarded(body func() []caseOut) (outs []caseOut) {
	id := goid()
	caseReg.Delete(id)
	defer func() {
		if rec := recover(); rec != nil {
			stack := string(debug.Stack())
			where := ""
			ls := strings.Split(stack, "\n")
			for i := 0; i+1 < len(ls); i++ { // frames: function line, then "\tfile:line +off"
				fn := ls[i]
				if strings.HasPrefix(ls[i+1], "\t") && strings.Contains(ls[i+1], "zz_verif/") && !strings.Contains(fn, "guarded") && !strings.Contains(fn, "debug.Stack") {
					where = strings.TrimSpace(fn) + " " + strings.TrimSpace(ls[i+1])
					break
				}
			}
			var all []string
			outs = nil
			if v, ok := caseReg.Load(id); ok {
				for _, c := range *(v.(*[]*Case)) {
					c.viols, c.stepViols = nil, nil
					outs = append(outs, finishCase(c, []string{"case/harness-panic"}))
					all = append(all, c.lines...)
				}
			}
			if len(outs) == 0 {
				outs = []caseOut{{tags: []string{"case/harness-panic"}}}
			}
			outs[0].viols = append(outs[0].viols, violation{sig: "HARNESS/panic", detail: fmt.Sprintf("harness error (not a property violation): panic `%v` at %s; the op lines are the ones applied before it", rec, where), replay: all})
		}
		caseReg.Delete(id)
	}()
	return body()
}

func absorb(run *hx.Run, o caseOut) {
	for i := range o.lines {
		run.Emit(o.lines[i], o.obs[i])
	}
	for _, t := range o.tags {
		run.Tag(t)
	}
	for _, s := range o.seen {
		run.Seen(s)
	}
	for _, v := range o.viols {
		run.Violate(v.sig, v.detail, v.replay...)
	}
}

func trafficPool(seed uint64, count4, count7 int) []*Traffic {
	total := count4 + count7
	pool := make([]*Traffic, total)
	var wg sync.WaitGroup
	for i := 0; i < total; i++ {
		wg.Add(1)
		go func(i int) {
			defer wg.Done()
			n := 4
			if i >= count4 {
				n = 7
			}
			pool[i] = genTraffic(getEnv(n), hx.NewRng(seed*31+uint64(i)*101+7))
		}(i)
	}
	wg.Wait()
	return pool
}

func main() {
	run := hx.Start()
	defer run.Finish()
	spectypes.InitBLS()
	getEnv(4)
	getEnv(7)
	if lines := run.ReplayLines(); lines != nil {
		for _, o := range replay(lines) {
			absorb(run, o)
		}
		return
	}
	if run.N == 0 {
		return
	}
	switch *mode {
	case "c06":
		c4, c7 := 24, 8
		if run.Tier == "thorough" {
			c4, c7 = 120, 40
		}
		pool := trafficPool(run.Seed, c4, c7)
		for _, t := range pool {
			run.Tag("traffic/" + t.scenario)
		}
		for _, o := range []caseOut{scenarioRepeatedJustifications(4, 0, false), scenarioRepeatedJustifications(4, 0, true),
			scenarioRepeatedJustifications(7, 2, false), scenarioRepeatedJustifications(7, 2, true),
			scenarioProdLeaderOfAskedRound(4, 0, 1, false), scenarioProdLeaderOfAskedRound(4, 2, 2, false), scenarioProdLeaderOfAskedRound(7, 1, 1, false),
			scenarioProdLeaderOfAskedRound(4, 0, 1, true), scenarioProdLeaderOfAskedRound(7, 3, 2, true)} {
			absorb(run, o)
		}
		parallelCases(run, run.N, one(func(idx int, r *hx.Rng) caseOut {
			var t *Traffic
			var op spectypes.OperatorID
			if r.Chance(35) {
				t, op = forgeTraffic(getEnv([]int{4, 4, 7}[r.Intn(3)]), r)
			} else {
				t = pool[r.Intn(len(pool))]
				op = spectypes.OperatorID(1 + r.Intn(t.env.n))
			}
			if r.Chance(55) {
				return runInstCase(t, op, r)
			}
			return runCtrlCase(t, op, r)
		}))
	case "c02":
		c4, c7 := 16, 6
		if run.Tier == "thorough" {
			c4, c7 = 80, 30
		}
		pool := trafficPool(run.Seed, c4, c7)
		dr := hx.NewRng(run.Seed ^ 0xc02)
		for _, o := range []caseOut{scenarioReusedSignature(0), scenarioReusedSignature(5),
			runC02History(dr, "wrong-leader", 4, 0, 3, 1, 2, 0), runC02History(dr, "wrong-leader", 4, 2, 1, 2, 3, 0),
			runC02History(dr, "wrong-leader", 7, 1, 5, 1, 2, 1), runC02History(dr, "bad-value", 4, 0, 3, 1, 2, 0),
			runC02History(dr, "bad-value", 4, 3, 2, 2, 3, 0), runC02History(dr, "bad-value", 7, 1, 6, 2, 2, 0),
			scenarioProdOneSignatureCertificate(4, 0), scenarioProdOneSignatureCertificate(7, 2),
			scenarioProdLeaderOfAskedRound(4, 0, 1, true), scenarioProdLeaderOfAskedRound(7, 3, 2, true)} {
			absorb(run, o)
		}
		parallelCases(run, run.N, one(func(idx int, r *hx.Rng) caseOut {
			if r.Chance(8) {
				return randomC02History(r)
			}
			var t *Traffic
			var op spectypes.OperatorID
			if r.Chance(25) {
				t, op = forgeTraffic(getEnv([]int{4, 4, 7}[r.Intn(3)]), r)
			} else {
				t = pool[r.Intn(len(pool))]
				op = spectypes.OperatorID(1 + r.Intn(t.env.n))
			}
			return runC02Case(t, op, r)
		}))
	case "sim", "c07":
		withCont := *mode == "c07"
		var directed [][]caseOut
		if withCont {
			directed = append(directed, scenarioWedge(), scenarioLaggards(true), scenarioLaggards(false), scenarioLoneLaggard(),
				scenarioPulledThenOwnTimer(), scenarioLaggardAfterOwnTimeout(), scenarioFutureRoundProposalToLaggard(false), scenarioFutureRoundProposalToLaggard(true),
				scenarioTimeoutsUpToCutoff(4, 0), scenarioTimeoutsUpToCutoff(7, 3), scenarioBroadcastFailsAtRoundExpiry())
		} else {
			directed = append(directed, scenarioCompactionEquivocation(4, true), scenarioCompactionEquivocation(4, false),
				scenarioCompactionEquivocation(7, true), scenarioCompactionEquivocation(7, false), scenarioCrossRole(),
				scenarioStaleRoundJustification(), scenarioForgedKnownSigner(false), scenarioForgedKnownSigner(true), scenarioCommitBroadcastFault(), scenarioRepeatedPrepareJustification(),
				scenarioDecidedCompactedThenPulled())
		}
		for _, os := range directed {
			for _, o := range os {
				absorb(run, o)
			}
		}
		parallelCases(run, run.N, func(idx int, r *hx.Rng) []caseOut { return runSim(r, withCont) })
	default:
		fmt.Fprintln(os.Stderr, "unknown mode", *mode)
		os.Exit(2)
	}
}
