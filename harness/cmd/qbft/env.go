// Construction of the REAL objects under test (node instance / controller, reference spec instance) the way the node
// builds them (operator/validator/controller.go SetupRunners: RoundRobinProposer, signature verification ON), with
// recording mocks for the external systems only (network, round timer) and a real QBFTStore behind a recorder.
package main

import (
	"context"
	"encoding/json"
	"fmt"
	"strings"
	"sync"

	specqbft "github.com/bloxapp/ssv-spec/qbft"
	spectypes "github.com/bloxapp/ssv-spec/types"
	"github.com/bloxapp/ssv-spec/types/testingutils"
	"github.com/herumi/bls-eth-go-binary/bls"
	"go.uber.org/zap"

	ibftstorage "github.com/bloxapp/ssv/ibft/storage"
	"github.com/bloxapp/ssv/protocol/v2/qbft"
	"github.com/bloxapp/ssv/protocol/v2/qbft/controller"
	"github.com/bloxapp/ssv/protocol/v2/qbft/instance"
	qbftstorage "github.com/bloxapp/ssv/protocol/v2/qbft/storage"
	"github.com/bloxapp/ssv/protocol/v2/ssv/runner"
	ssvtypes "github.com/bloxapp/ssv/protocol/v2/types"
	"github.com/bloxapp/ssv/storage/basedb"
	"github.com/bloxapp/ssv/storage/kv"
)

var logger = zap.NewNop()

// Env: one committee (spec test key set), shared by all cases of that size.
type Env struct {
	n          int
	ks         *testingutils.TestKeySet
	committee  []*spectypes.Operator
	identifier []byte
	domain     spectypes.DomainType
	q, pq      uint64
}

var envs = map[int]*Env{}
var envMu sync.Mutex

func getEnv(n int) *Env {
	envMu.Lock()
	defer envMu.Unlock()
	if e, ok := envs[n]; ok {
		return e
	}
	var ks *testingutils.TestKeySet
	switch n {
	case 4:
		ks = testingutils.Testing4SharesSet()
	case 7:
		ks = testingutils.Testing7SharesSet()
	case 10:
		ks = testingutils.Testing10SharesSet()
	case 13:
		ks = testingutils.Testing13SharesSet()
	default:
		panic("committee size")
	}
	id := spectypes.NewMsgID(testingutils.TestingSSVDomainType, ks.ValidatorPK.Serialize(), spectypes.BNRoleAttester)
	e := &Env{n: n, ks: ks, committee: ks.Committee(), identifier: id[:], domain: testingutils.TestingSSVDomainType, q: ks.Threshold, pq: ks.PartialThreshold}
	envs[n] = e
	return e
}

func (e *Env) share(op spectypes.OperatorID) *spectypes.Share {
	return &spectypes.Share{OperatorID: op, ValidatorPubKey: e.ks.ValidatorPK.Serialize(), SharePubKey: e.ks.Shares[op].GetPublicKey().Serialize(),
		DomainType: e.domain, Quorum: e.q, PartialQuorum: e.pq, Committee: e.committee}
}

// sign produces a signed message the way every operator does (same signing root as the key manager).
func (e *Env) sign(id spectypes.OperatorID, msg *specqbft.Message) *specqbft.SignedMessage {
	sk := e.ks.Shares[id]
	if sk == nil { // foreign signer: some other key
		sk = foreignKey
	}
	r, _ := spectypes.ComputeSigningRoot(msg, spectypes.ComputeSignatureDomain(e.domain, spectypes.QBFTSignatureType))
	return &specqbft.SignedMessage{Message: *msg, Signers: []spectypes.OperatorID{id}, Signature: sk.SignByte(r[:]).Serialize()}
}

// multiSign aggregates the signatures of `ids` over msg (ids need not be committee members).
func (e *Env) multiSign(ids []spectypes.OperatorID, msg *specqbft.Message) *specqbft.SignedMessage {
	var agg *bls.Sign
	for _, id := range ids {
		s := e.sign(id, msg)
		sg := &bls.Sign{}
		_ = sg.Deserialize(s.Signature)
		if agg == nil {
			agg = sg
		} else {
			agg.Add(sg)
		}
	}
	out := &specqbft.SignedMessage{Message: *msg, Signers: append([]spectypes.OperatorID{}, ids...)}
	if agg != nil {
		out.Signature = agg.Serialize()
	} else {
		out.Signature = make([]byte, 96)
	}
	return out
}

var foreignKey = func() *bls.SecretKey {
	spectypes.InitBLS()
	k := &bls.SecretKey{}
	_ = k.SetHexString("2f3c2b7a1d0e9f8877665544332211ffeeddccbbaa99887766554433221100aa")
	return k
}()

// ---------------------------------------------------------------- recorders (external systems)

type event struct {
	kind string // b (instance broadcast / controller decided broadcast), t, s
	msg  *specqbft.SignedMessage
	h, r uint64
}

// recorder: the operator's network / timer / storage as seen by the harness. `fault` injects ONE failure of the operator's own
// network layer into the next Broadcast call: "a" = the message leaves the node, then Broadcast returns an error; "b" = Broadcast
// returns an error without sending.
type recorder struct {
	ev    []event
	fault string
}

const injectedNetError = "injected network fault"

func (rc *recorder) Broadcast(m *spectypes.SSVMessage) error {
	sm := &specqbft.SignedMessage{}
	if err := sm.Decode(m.Data); err != nil {
		panic("harness: cannot decode own broadcast: " + err.Error())
	}
	f := rc.fault
	rc.fault = ""
	if f != "b" {
		rc.ev = append(rc.ev, event{kind: "b", msg: sm})
	}
	if f != "" {
		return fmt.Errorf(injectedNetError)
	}
	return nil
}

type nodeTimer struct{ rc *recorder }

func (t nodeTimer) TimeoutForRound(h specqbft.Height, r specqbft.Round) {
	t.rc.ev = append(t.rc.ev, event{kind: "t", h: uint64(h), r: uint64(r)})
}

type specTimer struct {
	rc *recorder
	h  *specqbft.Height
}

func (t specTimer) TimeoutForRound(r specqbft.Round) {
	t.rc.ev = append(t.rc.ev, event{kind: "t", h: uint64(*t.h), r: uint64(r)})
}

// recStore records what reaches the REAL store (in-memory Badger behind ibft/storage).
type recStore struct {
	qbftstorage.QBFTStore
	rc *recorder
}

func (s recStore) SaveInstance(i *qbftstorage.StoredInstance) error {
	s.rc.ev = append(s.rc.ev, event{kind: "sh", msg: i.DecidedMessage}) // historical only
	return s.QBFTStore.SaveInstance(i)
}
func (s recStore) SaveHighestInstance(i *qbftstorage.StoredInstance) error {
	s.rc.ev = append(s.rc.ev, event{kind: "s", msg: i.DecidedMessage})
	return s.QBFTStore.SaveHighestInstance(i)
}
func (s recStore) SaveHighestAndHistoricalInstance(i *qbftstorage.StoredInstance) error {
	s.rc.ev = append(s.rc.ev, event{kind: "s", msg: i.DecidedMessage})
	return s.QBFTStore.SaveHighestAndHistoricalInstance(i)
}

var (
	dbOnce   sync.Once
	memDB    basedb.Database
	storeSeq int
	storeMu  sync.Mutex
)

func newStore(rc *recorder) qbftstorage.QBFTStore {
	dbOnce.Do(func() {
		d, err := kv.NewInMemory(logger, basedb.Options{Ctx: context.Background()})
		if err != nil {
			panic(err)
		}
		memDB = d
	})
	storeMu.Lock()
	storeSeq++
	p := fmt.Sprintf("c%d", storeSeq)
	storeMu.Unlock()
	return recStore{QBFTStore: ibftstorage.New(memDB, p), rc: rc}
}

// ---------------------------------------------------------------- a case = one self-contained `reset …` block

type Case struct {
	env      *Env
	in       *Intern
	op       spectypes.OperatorID
	height   specqbft.Height
	bad      [][]byte // values rejected by the value check (besides the empty value)
	ctrlMode bool

	rc   *recorder
	cfg  *qbft.Config
	inst *instance.Instance
	ctrl *controller.Controller

	// reference objects (never compacted): the spec instance (equality clause) / a second node object (compaction clause)
	specRc   *recorder
	spec     *specqbft.Instance
	specH    specqbft.Height
	shadowRc *recorder
	shInst   *instance.Instance
	shCtrl   *controller.Controller

	lines           []string // op lines of this case (replay of an oracle violation)
	obs             []string
	viols           []violation
	diverged        bool // compacted object and its reference have diverged (reported once per case)
	specOff         bool // spec comparison no longer meaningful (after a compaction or a reported difference)
	removedMsgs     []removedMsg
	roundLowered    bool
	c02             bool           // evaluate the C02 certificate oracle after every controller op
	sigSeen         map[string]int // signature bytes + signer list of valid delivered messages -> mid (abs.go, `sigof=`)
	c07             bool           // evaluate the step-level liveness oracles (c07.go)
	armedH          uint64         // the single round timer of the operator: armed for (armedH, armedR), not yet fired
	armedR          uint64
	armedOK         bool
	stepViols       []violation
	sentProps       map[propKey]bool
	refused         []refusedProp
	acceptedByRound map[specqbft.Round][32]byte // root of the proposal accepted per round (instance of c.height)
	secondProposal  bool                        // two different proposals were accepted for one round
	prod            bool                        // production wiring (prodcfg.go)
	firedUnarmed    bool                        // a ctimeout op named a timer that was not the live one
	sentAll         map[msgKey]bool             // single-signer messages this operator broadcast
	gotSigned       []msgKey                    // validly signed single-signer messages of OTHER operators it was fed (replay consistency)
	nf              string                      // network fault ("a" | "b") to inject into the next op's broadcast
	role            int                         // 2 = controller of the second duty role of a multi-node schedule (crossrole.go)
	roundBefore     specqbft.Round
	lastRet         *specqbft.SignedMessage
	tags            []string // distribution tags collected while the case ran
}

func (c *Case) valCheck(data []byte) error {
	if c.prod { // the production value check (ssv-spec AttesterValueCheckF, as wired by SetupRunners)
		return c.cfg.ValueCheckF(data)
	}
	if len(data) == 0 {
		return fmt.Errorf("invalid value")
	}
	for _, b := range c.bad {
		if string(b) == string(data) {
			return fmt.Errorf("invalid value")
		}
	}
	return nil
}

func (c *Case) nodeConfig(rc *recorder) *qbft.Config {
	return &qbft.Config{
		Signer:      testingutils.NewTestingKeyManager(),
		SigningPK:   c.env.ks.ValidatorPK.Serialize(),
		Domain:      c.env.domain,
		ValueCheckF: c.valCheck,
		ProposerF: func(state *specqbft.State, round specqbft.Round) spectypes.OperatorID {
			return specqbft.RoundRobinProposer(state, round) // as in operator/validator/controller.go
		},
		Storage:               newStore(rc),
		Network:               rc,
		Timer:                 nodeTimer{rc},
		SignatureVerification: true,
	}
}

func newCase(env *Env, op spectypes.OperatorID, height specqbft.Height, bad [][]byte, ctrlMode, withSpec, withShadow bool) *Case {
	return newCaseCfg(env, op, height, bad, ctrlMode, withSpec, withShadow, false)
}

// newCaseCfg: prod = the node objects come from the PRODUCTION wiring (prodcfg.go) instead of the harness's own qbft.Config
func newCaseCfg(env *Env, op spectypes.OperatorID, height specqbft.Height, bad [][]byte, ctrlMode, withSpec, withShadow, prod bool) *Case {
	c := &Case{env: env, in: NewIntern(env.identifier), op: op, height: height, bad: bad, ctrlMode: ctrlMode, rc: &recorder{}, prod: prod}
	regCase(c)
	share := env.share(op)
	if prod {
		c.ctrl, c.cfg = c.prodController(c.rc)
		var shCfg *qbft.Config
		if withShadow {
			c.shadowRc = &recorder{}
			c.shCtrl, shCfg = c.prodController(c.shadowRc)
		}
		if !ctrlMode { // instance-level cases: the node's instance with the production config
			c.inst = instance.NewInstance(c.cfg, c.ctrl.Share, env.identifier, height)
			c.ctrl = nil
			if withShadow {
				c.shInst = instance.NewInstance(shCfg, c.shCtrl.Share, env.identifier, height)
				c.shCtrl = nil
			}
		}
	} else {
		c.cfg = c.nodeConfig(c.rc)
		if ctrlMode {
			c.ctrl = controller.NewController(env.identifier, share, c.cfg, false)
			if withShadow {
				c.shadowRc = &recorder{}
				c.shCtrl = controller.NewController(env.identifier, env.share(op), c.nodeConfig(c.shadowRc), false)
			}
		} else {
			c.inst = instance.NewInstance(c.cfg, share, env.identifier, height)
			if withShadow {
				c.shadowRc = &recorder{}
				c.shInst = instance.NewInstance(c.nodeConfig(c.shadowRc), env.share(op), env.identifier, height)
			}
		}
	}
	if !ctrlMode && withSpec { // the reference: ssv-spec instance, reference leader function, reference value check
		c.specRc = &recorder{}
		c.specH = height
		scfg := &specqbft.Config{Signer: testingutils.NewTestingKeyManager(), SigningPK: env.ks.ValidatorPK.Serialize(), Domain: env.domain,
			ValueCheckF: c.valCheck, ProposerF: specqbft.RoundRobinProposer, Network: c.specRc, Timer: specTimer{c.specRc, &c.specH}}
		c.spec = specqbft.NewInstance(scfg, env.share(op), env.identifier, height)
	}
	return c
}

func (c *Case) resetLine() string {
	mode := "inst"
	if c.ctrlMode {
		mode = "ctrl"
	}
	bad := make([]string, len(c.bad))
	for i, b := range c.bad {
		bad[i] = fmt.Sprint(c.in.Val(b))
	}
	bs := "-"
	if len(bad) > 0 {
		bs = strings.Join(bad, "+")
	}
	role := ""
	if c.prod {
		role = " cfg=prod" // ignored by the model driver; replay rebuilds the node objects through the production wiring
	}
	if c.role == 2 {
		role += " role=2" // ignored by the model driver; multi-node replays keep the two duty roles apart
	}
	return fmt.Sprintf("reset mode=%s n=%d q=%d pq=%d op=%d h=%d cutoff=%d cap=%d bad=%s%s", mode, c.env.n, c.env.q, c.env.pq, uint64(c.op),
		uint64(c.height), instance.CutoffRound, controller.InstanceContainerDefaultCapacity, bs, role)
}

// fmtEvents: in controller ops a broadcast carrying more than one signer can only be Controller.broadcastDecided
// (instances only ever create single-signer messages)
func (c *Case) fmtEvents(ev []event, decidedBroadcastFrom int) string {
	parts := make([]string, 0, len(ev))
	for _, e := range ev {
		switch e.kind {
		case "b":
			k := "b="
			if decidedBroadcastFrom >= 0 && len(e.msg.Signers) > 1 {
				k = "B="
			}
			parts = append(parts, k+c.fmtMsg(e.msg))
		case "t":
			parts = append(parts, fmt.Sprintf("t=%d:%d", e.h, e.r))
		case "s":
			parts = append(parts, fmt.Sprintf("s=m%d", c.in.Mid(e.msg)))
		case "sh":
			parts = append(parts, fmt.Sprintf("sh=m%d", c.in.Mid(e.msg)))
		case "n":
			parts = append(parts, fmt.Sprintf("n=m%d", c.in.Mid(e.msg)))
		}
	}
	return "[" + strings.Join(parts, ",") + "]"
}

// ---------------------------------------------------------------- instance-level ops on a node instance

type instResult struct {
	res     string // ok | panic | guard tag
	outs    string
	decided bool
	value   int
	agg     string
	aggMsg  *specqbft.SignedMessage
	state   string
	rootHex string
	bcasts  [][]byte // encoded broadcasts (equality clause compares bytes node vs spec)
}

func (r instResult) line() string {
	return fmt.Sprintf("%s o=%s d=%s:%d agg=%s | %s", r.res, r.outs, b01(r.decided), r.value, r.agg, r.state)
}

func encodedBroadcasts(ev []event) [][]byte {
	var out [][]byte
	for _, e := range ev {
		if e.kind == "b" {
			b, _ := e.msg.Encode()
			out = append(out, b)
		}
	}
	return out
}

func (c *Case) nodeInstState(i *instance.Instance) string {
	return c.fmtState(i.State, i.StartValue, i.CanProcessMessages())
}

func (c *Case) finishInst(i *instance.Instance, rc *recorder, res string, decided bool, val []byte, agg *specqbft.SignedMessage) instResult {
	r := instResult{res: res, outs: c.fmtEvents(rc.ev, -1), decided: decided, value: c.in.Val(val), agg: "-", aggMsg: agg,
		state: c.nodeInstState(i), bcasts: encodedBroadcasts(rc.ev)}
	if agg != nil {
		r.agg = c.fmtMsg(agg)
	}
	root, _ := i.State.GetRoot()
	r.rootHex = fmt.Sprintf("%x", root)
	return r
}

func (c *Case) instDeliver(i *instance.Instance, rc *recorder, m *specqbft.SignedMessage) instResult {
	rc.ev = nil
	var decided bool
	var val []byte
	var agg *specqbft.SignedMessage
	var err error
	panicked := false
	func() {
		defer func() {
			if r := recover(); r != nil {
				panicked = true
			}
		}()
		decided, val, agg, err = i.ProcessMsg(logger, m)
	}()
	res := tagOf(err)
	if panicked {
		res, decided, val, agg = "panic", false, nil, nil
	}
	return c.finishInst(i, rc, res, decided, val, agg)
}

func (c *Case) instStart(i *instance.Instance, rc *recorder, value []byte, h specqbft.Height) instResult {
	rc.ev = nil
	panicked := false
	func() {
		defer func() {
			if r := recover(); r != nil {
				panicked = true
			}
		}()
		i.Start(logger, value, h)
	}()
	res := "ok"
	if panicked {
		return c.finishInst(i, rc, "panic", false, nil, nil)
	}
	d, v := i.IsDecided()
	return c.finishInst(i, rc, res, d, v, nil)
}

func (c *Case) instTimeout(i *instance.Instance, rc *recorder) instResult {
	rc.ev = nil
	var err error
	panicked := false
	func() {
		defer func() {
			if r := recover(); r != nil {
				panicked = true
			}
		}()
		err = i.UponRoundTimeout(logger)
	}()
	if panicked {
		return c.finishInst(i, rc, "panic", false, nil, nil)
	}
	if err != nil {
		return c.finishInst(i, rc, tagOf(err), false, nil, nil)
	}
	d, v := i.IsDecided()
	return c.finishInst(i, rc, "ok", d, v, nil)
}

// ---------------------------------------------------------------- the same ops on the reference spec instance

type specResult struct {
	res     string
	decided bool
	value   int
	aggSig  string // canonical: signers sorted
	rootHex string
	bcasts  [][]byte
	timers  string
}

func sortedSigners(m *specqbft.SignedMessage) string {
	if m == nil {
		return "-"
	}
	ids := append([]spectypes.OperatorID{}, m.Signers...)
	for i := 1; i < len(ids); i++ {
		for j := i; j > 0 && ids[j] < ids[j-1]; j-- {
			ids[j], ids[j-1] = ids[j-1], ids[j]
		}
	}
	return fmt.Sprintf("%d:%d:%x:%s", uint64(m.Message.Round), uint64(m.Message.Height), m.Message.Root[:4], joinU(ids, "+"))
}

func timersOf(ev []event) string {
	var s []string
	for _, e := range ev {
		if e.kind == "t" {
			s = append(s, fmt.Sprintf("%d:%d", e.h, e.r))
		}
	}
	return strings.Join(s, ",")
}

func (c *Case) specFinish(res string, decided bool, val []byte, agg *specqbft.SignedMessage) specResult {
	root, _ := c.spec.State.GetRoot()
	return specResult{res: res, decided: decided, value: c.in.Val(val), aggSig: sortedSigners(agg), rootHex: fmt.Sprintf("%x", root),
		bcasts: encodedBroadcasts(c.specRc.ev), timers: timersOf(c.specRc.ev)}
}

func (c *Case) specDeliver(m *specqbft.SignedMessage) specResult {
	c.specRc.ev = nil
	var decided bool
	var val []byte
	var agg *specqbft.SignedMessage
	var err error
	panicked := false
	func() {
		defer func() {
			if r := recover(); r != nil {
				panicked = true
			}
		}()
		decided, val, agg, err = c.spec.ProcessMsg(m)
	}()
	res := tagOf(err)
	if panicked {
		res, decided, val, agg = "panic", false, nil, nil
	}
	return c.specFinish(res, decided, val, agg)
}

func (c *Case) specStart(value []byte, h specqbft.Height) specResult {
	c.specRc.ev = nil
	c.specH = h
	panicked := false
	func() {
		defer func() {
			if r := recover(); r != nil {
				panicked = true
			}
		}()
		c.spec.Start(value, h)
	}()
	if panicked {
		return c.specFinish("panic", false, nil, nil)
	}
	d, v := c.spec.IsDecided()
	return c.specFinish("ok", d, v, nil)
}

func (c *Case) specTimeout() specResult {
	c.specRc.ev = nil
	var err error
	panicked := false
	func() {
		defer func() {
			if r := recover(); r != nil {
				panicked = true
			}
		}()
		err = c.spec.UponRoundTimeout()
	}()
	if panicked {
		return c.specFinish("panic", false, nil, nil)
	}
	if err != nil {
		return c.specFinish(tagOf(err), false, nil, nil)
	}
	d, v := c.spec.IsDecided()
	return c.specFinish("ok", d, v, nil)
}

// ---------------------------------------------------------------- controller-level ops

type ctrlResult struct {
	res    string
	outs   string
	ret    string
	retMsg *specqbft.SignedMessage
	state  string
	brief  string // decision-relevant state of every stored instance (round, accepted, lock, decided) — compaction clause
	bcasts [][]byte
}

func (r ctrlResult) line() string {
	return fmt.Sprintf("%s o=%s ret=%s | %s", r.res, r.outs, r.ret, r.state)
}

func (c *Case) fmtCtrl(ct *controller.Controller) (string, string) {
	parts := make([]string, len(ct.StoredInstances))
	brief := make([]string, len(ct.StoredInstances))
	for i, inst := range ct.StoredInstances {
		parts[i] = c.nodeInstState(inst)
		s := inst.State
		acc := "-"
		if s.ProposalAcceptedForCurrentRound != nil {
			acc = fmt.Sprintf("m%d", c.in.Mid(s.ProposalAcceptedForCurrentRound))
		}
		brief[i] = fmt.Sprintf("h%d,r%d,a%s,lp%d:%d,d%s:%d,cp%s", uint64(s.Height), uint64(s.Round), acc, uint64(s.LastPreparedRound),
			c.in.Val(s.LastPreparedValue), b01(s.Decided), c.in.Val(s.DecidedValue), b01(inst.CanProcessMessages()))
	}
	return fmt.Sprintf("H=%d [%s]", uint64(ct.Height), strings.Join(parts, ";")), fmt.Sprintf("H=%d [%s]", uint64(ct.Height), strings.Join(brief, ";"))
}

func (c *Case) finishCtrl(ct *controller.Controller, rc *recorder, res string, ret *specqbft.SignedMessage, decidedFrom int) ctrlResult {
	r := ctrlResult{res: res, outs: c.fmtEvents(rc.ev, decidedFrom), ret: "-", retMsg: ret, bcasts: encodedBroadcasts(rc.ev)}
	if ret != nil {
		r.ret = c.fmtMsg(ret)
	}
	r.state, r.brief = c.fmtCtrl(ct)
	return r
}

func (c *Case) ctrlDeliver(ct *controller.Controller, rc *recorder, m *specqbft.SignedMessage) ctrlResult {
	rc.ev = nil
	ct.NewDecidedHandler = func(d *specqbft.SignedMessage) { rc.ev = append(rc.ev, event{kind: "n", msg: d}) }
	var ret *specqbft.SignedMessage
	var err error
	panicked := false
	func() {
		defer func() {
			if r := recover(); r != nil {
				panicked = true
			}
		}()
		ret, err = ct.ProcessMsg(logger, m)
	}()
	res := tagOf(err)
	if panicked {
		res, ret = "panic", nil
	}
	return c.finishCtrl(ct, rc, res, ret, 0)
}

func (c *Case) ctrlStart(ct *controller.Controller, rc *recorder, h specqbft.Height, value []byte) ctrlResult {
	rc.ev = nil
	var err error
	panicked := false
	func() {
		defer func() {
			if r := recover(); r != nil {
				panicked = true
			}
		}()
		err = ct.StartNewInstance(logger, h, value)
	}()
	res := tagOf(err)
	if panicked {
		res = "panic"
	}
	return c.finishCtrl(ct, rc, res, nil, 0)
}

func (c *Case) ctrlTimeout(ct *controller.Controller, rc *recorder, h specqbft.Height, r specqbft.Round) ctrlResult {
	rc.ev = nil
	data, _ := json.Marshal(ssvtypes.TimeoutData{Height: h, Round: r})
	var err error
	panicked := false
	func() {
		defer func() {
			if r := recover(); r != nil {
				panicked = true
			}
		}()
		err = ct.OnTimeout(logger, ssvtypes.EventMsg{Type: ssvtypes.Timeout, Data: data})
	}()
	res := tagOf(err)
	if panicked {
		res = "panic"
	}
	return c.finishCtrl(ct, rc, res, nil, 0)
}

// runner-style compaction: the runner's REAL compactInstanceIfNeeded(msg) (via the in-package shim)
func (c *Case) ctrlRunnerCompact(ct *controller.Controller, m *specqbft.SignedMessage) string {
	runner.VerifCompactInstanceIfNeeded(ct, ct.Share, m)
	s, _ := c.fmtCtrl(ct)
	return "ok | " + s
}

func (c *Case) ctrlCompactAt(ct *controller.Controller, h specqbft.Height) string {
	if inst := ct.StoredInstances.FindInstance(h); inst != nil {
		instance.Compact(inst.State, nil)
	}
	s, _ := c.fmtCtrl(ct)
	return "ok | " + s
}
