// Abstraction of REAL QBFT objects into the line protocol of engine `qbft` (see lean/Ssv/Model/Qbft/Wire.lean)
// and canonical printing of what the real code returned. Part of the trusted base; every abstract fact
// (sigOk, malformed, roots, ids) is computed by calling the real function on the real object.
package main

import (
	"crypto/sha256"
	"fmt"
	"sort"
	"strings"
	"sync"

	specqbft "github.com/bloxapp/ssv-spec/qbft"
	spectypes "github.com/bloxapp/ssv-spec/types"
)

// Intern maps real byte strings to the small ids of one case (ids are assigned in order of first appearance,
// so a case is self-contained and deterministic).
type Intern struct {
	roots  map[[32]byte]int
	mids   map[[32]byte]int
	idents map[string]int
}

var emptyHash = sha256.Sum256(nil)

func NewIntern(identifier []byte) *Intern {
	in := &Intern{roots: map[[32]byte]int{}, mids: map[[32]byte]int{}, idents: map[string]int{}}
	in.roots[emptyHash] = 0  // hash of the empty value
	in.roots[[32]byte{}] = 1 // all-zero root (unprepared round-change)
	in.idents[""] = 0
	in.idents[string(identifier)] = 1
	return in
}

func (in *Intern) Root(r [32]byte) int {
	if id, ok := in.roots[r]; ok {
		return id
	}
	id := len(in.roots)
	in.roots[r] = id
	return id
}

// Val: value id of full data = root id of its hash (hash is the identity on ids); empty/nil = 0.
func (in *Intern) Val(data []byte) int {
	if len(data) == 0 {
		return 0
	}
	return in.Root(sha256.Sum256(data))
}

func (in *Intern) Ident(id []byte) int {
	if v, ok := in.idents[string(id)]; ok {
		return v
	}
	v := len(in.idents)
	in.idents[string(id)] = v
	return v
}

// midKey identifies a signed message without its full data (signature, signers, message).
func midKey(m *specqbft.SignedMessage) [32]byte {
	b, err := m.WithoutFUllData().MarshalSSZ()
	if err != nil {
		// not SSZ-encodable (never produced by the generators, which round-trip through SSZ); fall back to a textual key
		b = []byte(fmt.Sprintf("%x|%v|%+v", m.Signature, m.Signers, m.Message))
	}
	return sha256.Sum256(b)
}

func (in *Intern) Mid(m *specqbft.SignedMessage) int {
	k := midKey(m)
	if id, ok := in.mids[k]; ok {
		return id
	}
	id := len(in.mids) + 1
	in.mids[k] = id
	return id
}

func (in *Intern) MidOfBytes(ssz []byte) int {
	k := sha256.Sum256(ssz)
	if id, ok := in.mids[k]; ok {
		return id
	}
	id := len(in.mids) + 1
	in.mids[k] = id
	return id
}

// ---------------------------------------------------------------- sigOk: the REFERENCE verification (ssv-spec
// types.Signature.VerifyByOperators: plain BLS FastAggregateVerify over the signing root, no caches), cached here per
// (message content incl. signature, committee). It is deliberately NOT the node's protocol/v2/types.VerifyByOperators: the
// node's verifier is part of the code under test (it is what the instances and the controller call), so a node that accepts a
// message this function refuses shows up as model≠code and in the C02 certificate oracle.

var sigCache sync.Map // [33]byte -> bool

func sigOk(env *Env, m *specqbft.SignedMessage) bool {
	k := midKey(m)
	var ck [33]byte
	copy(ck[:], k[:])
	ck[32] = byte(env.n)
	if v, ok := sigCache.Load(ck); ok {
		return v.(bool)
	}
	ok := m.Signature.VerifyByOperators(m, env.domain, spectypes.QBFTSignatureType, env.committee) == nil
	sigCache.Store(ck, ok)
	return ok
}

// malformed: the real Message.Validate() fails while unmarshalling a justification list
func malformed(m *specqbft.Message) bool {
	if _, err := m.GetRoundChangeJustifications(); err != nil {
		return true
	}
	if _, err := m.GetPrepareJustifications(); err != nil {
		return true
	}
	return false
}

func b01(b bool) string {
	if b {
		return "1"
	}
	return "0"
}

func joinU(ids []spectypes.OperatorID, sep string) string {
	if len(ids) == 0 {
		return "-"
	}
	s := make([]string, len(ids))
	for i, x := range ids {
		s[i] = fmt.Sprint(uint64(x))
	}
	return strings.Join(s, sep)
}

func (c *Case) absBase(m *specqbft.SignedMessage) string {
	return fmt.Sprintf("%d,%d,%d,%d,%d,%d,%s,%s,%d,%s", uint64(m.Message.MsgType), uint64(m.Message.Height), uint64(m.Message.Round),
		c.in.Ident(m.Message.Identifier), c.in.Root(m.Message.Root), uint64(m.Message.DataRound), b01(sigOk(c.env, m)),
		b01(malformed(&m.Message)), c.in.Mid(m), joinU(m.Signers, "+"))
}

func (c *Case) absBList(ms []*specqbft.SignedMessage) string {
	if len(ms) == 0 {
		return "-"
	}
	s := make([]string, len(ms))
	for i, m := range ms {
		s[i] = c.absBase(m)
	}
	return strings.Join(s, ";")
}

func (c *Case) absL1List(ms []*specqbft.SignedMessage) string {
	if len(ms) == 0 {
		return "-"
	}
	s := make([]string, len(ms))
	for i, m := range ms {
		inner, err := m.Message.GetRoundChangeJustifications()
		if err != nil {
			inner = nil
		}
		s[i] = c.absBase(m) + "|" + c.absBList(inner)
	}
	return strings.Join(s, "/")
}

// absMsg spells a delivered message out for the op line.
func (c *Case) absMsg(m *specqbft.SignedMessage) string {
	rcj, err1 := m.Message.GetRoundChangeJustifications()
	pj, err2 := m.Message.GetPrepareJustifications()
	if err1 != nil || err2 != nil { // malformed: the lists are never read
		rcj, pj = nil, nil
	}
	// `sigof=<mid>`: the (invalid) signature is byte-for-byte that of the earlier VALID message <mid> of this case with the
	// same signer list (ignored by the model: only `sig` matters there; the replay concretizer re-uses those bytes)
	sigof := ""
	key := string(m.Signature) + "|" + joinU(m.Signers, "+")
	mid := c.in.Mid(m)
	if sigOk(c.env, m) {
		if c.sigSeen == nil {
			c.sigSeen = map[string]int{}
		}
		if _, ok := c.sigSeen[key]; !ok {
			c.sigSeen[key] = mid
		}
	} else if m0, ok := c.sigSeen[key]; ok {
		sigof = fmt.Sprintf(" sigof=%d", m0)
	}
	return fmt.Sprintf("t=%d h=%d r=%d id=%d root=%d dr=%d s=%s sig=%s mal=%s mid=%d full=%d rcj=%s pj=%s%s",
		uint64(m.Message.MsgType), uint64(m.Message.Height), uint64(m.Message.Round), c.in.Ident(m.Message.Identifier),
		c.in.Root(m.Message.Root), uint64(m.Message.DataRound), joinU(m.Signers, "+"), b01(sigOk(c.env, m)),
		b01(malformed(&m.Message)), mid, c.in.Val(m.FullData), c.absL1List(rcj), c.absBList(pj), sigof)
}

// ---------------------------------------------------------------- printing of what the real code produced

func (c *Case) fmtMids(js [][]byte) string {
	if len(js) == 0 {
		return "-"
	}
	s := make([]string, len(js))
	for i, j := range js {
		s[i] = fmt.Sprintf("m%d", c.in.MidOfBytes(j))
	}
	return strings.Join(s, ".")
}

// fmtMsg: full content of a message created by the node (justifications by mid)
func (c *Case) fmtMsg(m *specqbft.SignedMessage) string {
	return fmt.Sprintf("%d:%d:%d:%d:%d:%d:%d:%s:%s:%s", uint64(m.Message.MsgType), uint64(m.Message.Height), uint64(m.Message.Round),
		c.in.Ident(m.Message.Identifier), c.in.Root(m.Message.Root), uint64(m.Message.DataRound), c.in.Val(m.FullData),
		joinU(m.Signers, "+"), c.fmtMids(m.Message.RoundChangeJustification), c.fmtMids(m.Message.PrepareJustification))
}

func (c *Case) fmtContainer(mc *specqbft.MsgContainer) string {
	if mc == nil {
		return "[]"
	}
	var rounds []uint64
	for r, l := range mc.Msgs {
		if len(l) > 0 {
			rounds = append(rounds, uint64(r))
		}
	}
	sort.Slice(rounds, func(i, j int) bool { return rounds[i] < rounds[j] })
	parts := make([]string, len(rounds))
	for i, r := range rounds {
		l := mc.Msgs[specqbft.Round(r)]
		ms := make([]string, len(l))
		for k, m := range l {
			ms[k] = fmt.Sprintf("m%d/%s", c.in.Mid(m), joinU(m.Signers, "+"))
		}
		parts[i] = fmt.Sprintf("%d:%s", r, strings.Join(ms, "."))
	}
	return "[" + strings.Join(parts, ";") + "]"
}

func (c *Case) fmtState(s *specqbft.State, startValue []byte, canProcess bool) string {
	acc := "-"
	if s.ProposalAcceptedForCurrentRound != nil {
		acc = fmt.Sprintf("m%d", c.in.Mid(s.ProposalAcceptedForCurrentRound))
	}
	return fmt.Sprintf("i(h%d,r%d,a%s,lp%d:%d,d%s:%d,sv%d,cp%s,P%s,Pr%s,C%s,RC%s)", uint64(s.Height), uint64(s.Round), acc,
		uint64(s.LastPreparedRound), c.in.Val(s.LastPreparedValue), b01(s.Decided), c.in.Val(s.DecidedValue), c.in.Val(startValue),
		b01(canProcess), c.fmtContainer(s.ProposeContainer), c.fmtContainer(s.PrepareContainer),
		c.fmtContainer(s.CommitContainer), c.fmtContainer(s.RoundChangeContainer))
}

// ---------------------------------------------------------------- error chains -> guard tags

var atomOf = map[string]string{
	"instance stopped processing messages":               "stopped",
	"instance stopped processing timeouts":               "stoppedTimeouts",
	"invalid signed message":                             "invalidSigned",
	"message signers is empty":                           "signersEmpty",
	"non unique signer":                                  "nonUniqueSigner",
	"signer ID 0 not allowed":                            "signerZero",
	"message identifier is invalid":                      "identEmpty",
	"message type is invalid":                            "typeInvalid",
	"past round":                                         "pastRound",
	"signed message type not supported":                  "typeNotSupported",
	"msg type is not proposal":                           "notProposal",
	"wrong msg height":                                   "wrongHeight",
	"msg allows 1 signer":                                "oneSigner",
	"msg signature invalid":                              "sigInvalid", // the rest of the chain is dropped
	"proposal leader invalid":                            "leaderInvalid",
	"proposal invalid":                                   "proposalInvalid",
	"H(data) != root":                                    "hashMismatch",
	"proposal not justified":                             "notJustified",
	"proposal fullData invalid":                          "valueInvalid", // rest dropped
	"change round msg not valid":                         "rcNotValid",
	"change round has no quorum":                         "rcNoQuorum",
	"prepares has no quorum":                             "prepNoQuorum",
	"no highest prepared":                                "noHighestPrepared",
	"proposed data doesn't match highest prepared":       "notHighestPrepared",
	"signed prepare not valid":                           "prepareNotValid",
	"proposal is not valid with current state":           "notValidWithState",
	"did not receive proposal for this round":            "noProposal",
	"prepare msg type is wrong":                          "notPrepare",
	"wrong msg round":                                    "wrongRound",
	"wrong msg identifier":                               "wrongMsgIdentifier",
	"prepareData invalid":                                "prepareInvalid",
	"proposed data mistmatch":                            "dataMismatch",
	"commit msg type is wrong":                           "notCommit",
	"signed commit invalid":                              "commitInvalid",
	"round change msg type is wrong":                     "notRoundChange",
	"roundChange invalid":                                "roundChangeInvalid",
	"round change justification invalid":                 "rcJustInvalid",
	"no justifications quorum":                           "noJustQuorum",
	"prepared round > round":                             "preparedGtRound",
	"failed to broadcast prepare message":                "bcastPrepareFailed",
	"failed to broadcast commit message":                 "bcastCommitFailed",
	"failed to broadcast proposal message":               "bcastProposalFailed",
	"failed to broadcast round change message":           "bcastRoundChangeFailed",
	"could not aggregate commit msgs":                    "aggregateFailed",
	"could not aggregate commit msg":                     "aggregateOne",
	"can't aggregate zero commit msgs":                   "aggregateZero",
	"can't aggregate, roots not equal":                   "rootsNotEqual",
	"duplicate signers":                                  "duplicateSigners",
	"invalid msg":                                        "invalidMsg",
	"message doesn't belong to Identifier":               "wrongIdentifier",
	"future msg from height, could not process":          "futureMsg",
	"instance not found":                                 "instanceNotFound",
	"could not process msg":                              "couldNotProcess",
	"invalid decided msg":                                "invalidDecided",
	"invalid decided":                                    "invalidDecided2",
	"not a decided msg":                                  "notDecided",
	"value invalid":                                      "startValueInvalid", // rest dropped
	"attempting to start an instance with a past height": "pastHeight",
	"instance already running":                           "alreadyRunning",
	"instance is nil":                                    "instanceNil",
}

var dropRest = map[string]bool{"sigInvalid": true, "valueInvalid": true, "startValueInvalid": true}

// wraps after which the only unknown text can be an SSZ unmarshalling error of a justification list
var validateWrap = map[string]bool{"invalidSigned": true, "proposalInvalid": true, "prepareInvalid": true, "commitInvalid": true,
	"roundChangeInvalid": true, "invalidDecided": true, "invalidDecided2": true}

// tagOf maps an error chain ("outer: inner: …") to the chain of guard atoms. No error text is compared anywhere else.
func tagOf(err error) string {
	if err == nil {
		return "ok"
	}
	segs := strings.Split(err.Error(), ": ")
	var out []string
	for i := 0; i < len(segs); i++ {
		if segs[i] == injectedNetError {
			break // the network's own error text is not part of the guard tag
		}
		a, ok := atomOf[segs[i]]
		if !ok {
			if len(out) > 0 && validateWrap[out[len(out)-1]] {
				out = append(out, "unmarshal") // fastssz error text of a justification that does not decode
			} else {
				out = append(out, "?"+strings.ReplaceAll(strings.Join(segs[i:], ":"), " ", "_"))
			}
			break
		}
		out = append(out, a)
		if dropRest[a] {
			break
		}
	}
	return strings.Join(out, "/")
}
