// Second duty role (other identifier) of the same validator at the same height: every correct operator of a schedule also
// runs a REAL controller for role Aggregator. Its traffic (round-changes for the same rounds — the timers of both roles fire
// together —, proposals, prepares) is visible to the Byzantine operators, which embed those foreign-identifier messages as
// justifications into messages for the role under test (round-change quorums of later rounds, prepare justifications) and
// also send them directly. (Defect repaired by /repo e1612ceed: embedded justifications were never checked for their
// identifier, while correct operators sign the same (height, round) for every role.)
// The second-role controllers are ordinary controller-mode cases too (`reset … role=2`), diffed against the Lean model.
package main

import (
	"crypto/sha256"
	"sync"

	specqbft "github.com/bloxapp/ssv-spec/qbft"
	spectypes "github.com/bloxapp/ssv-spec/types"
	"github.com/bloxapp/ssv-spec/types/testingutils"
)

var (
	envs2  = map[int]*Env{}
	env2Mu sync.Mutex
)

// getEnvRole2: the same committee and keys as getEnv(n), identifier of the Aggregator role
func getEnvRole2(n int) *Env {
	e := getEnv(n)
	env2Mu.Lock()
	defer env2Mu.Unlock()
	if x, ok := envs2[n]; ok {
		return x
	}
	id := spectypes.NewMsgID(testingutils.TestingSSVDomainType, e.ks.ValidatorPK.Serialize(), spectypes.BNRoleAggregator)
	x := &Env{n: e.n, ks: e.ks, committee: e.committee, identifier: id[:], domain: e.domain, q: e.q, pq: e.pq}
	envs2[n] = x
	return x
}

type altRole struct {
	env     *Env
	cases   map[spectypes.OperatorID]*Case
	wire    []*Wire
	pending map[spectypes.OperatorID][]int
	seen    int
}

func (a *advSim) altInit(vals [][]byte) {
	env2 := getEnvRole2(a.env.n)
	shared := NewIntern(env2.identifier)
	shared.Val(badValue)
	shared.Ident(a.env.identifier) // the role under test is identifier 2 in the second role's cases
	a.alt = &altRole{env: env2, cases: map[spectypes.OperatorID]*Case{}, pending: map[spectypes.OperatorID][]int{}}
	for i, nd := range a.nodes {
		if nd.byz {
			continue
		}
		c := newCase(env2, nd.id, a.h, [][]byte{badValue}, true, false, false)
		c.in = shared
		c.role = 2
		c.emit(c.resetLine(), "ok")
		a.alt.cases[nd.id] = c
		r := c.applyCtrlStart(a.h, vals[i])
		a.altCollect(nd.id, r)
	}
}

func (a *advSim) altCollect(from spectypes.OperatorID, r ctrlResult) {
	for _, b := range r.bcasts {
		a.alt.wire = append(a.alt.wire, &Wire{From: from, Enc: b, Msg: decodeMsg(b)})
	}
	for ; a.alt.seen < len(a.alt.wire); a.alt.seen++ {
		for id := range a.alt.cases {
			a.alt.pending[id] = append(a.alt.pending[id], a.alt.seen)
		}
	}
}

func (a *advSim) altTimeout(id spectypes.OperatorID) {
	c := a.alt.cases[id]
	if c == nil {
		return
	}
	var round specqbft.Round = 1
	if inst := c.ctrl.StoredInstances.FindInstance(a.h); inst != nil {
		round = inst.State.Round
	}
	a.altCollect(id, c.applyCtrlTimeout(a.h, round))
}

func (a *advSim) altDeliverNext(id spectypes.OperatorID) {
	c := a.alt.cases[id]
	p := a.alt.pending[id]
	if c == nil || len(p) == 0 {
		return
	}
	idx := p[0]
	a.alt.pending[id] = p[1:]
	if m := decodeMsg(a.alt.wire[idx].Enc); m != nil {
		a.altCollect(id, c.applyCtrlDeliver(m))
	}
}

// altStep: the second role makes some progress of its own
func (a *advSim) altStep() {
	if a.alt == nil {
		return
	}
	hs := a.honest()
	id := hs[a.r.Intn(len(hs))].id
	if a.r.Chance(35) {
		a.altTimeout(id)
	} else {
		for k := 1 + a.r.Intn(4); k > 0; k-- {
			a.altDeliverNext(id)
		}
	}
}

func (a *advSim) altMaterial() []*specqbft.SignedMessage {
	if a.alt == nil {
		return nil
	}
	var out []*specqbft.SignedMessage
	for _, w := range a.alt.wire {
		if w.Msg != nil {
			out = append(out, w.Msg)
		}
	}
	return out
}

// altSign: a Byzantine operator's own message for the second role (it holds its key for every role)
func (a *advSim) altMsg(t specqbft.MessageType, round specqbft.Round, root [32]byte) *specqbft.Message {
	return &specqbft.Message{MsgType: t, Height: a.h, Round: round, Identifier: a.alt.env.identifier, Root: root}
}

// byzCrossRole: one cross-role action of a Byzantine operator
func (a *advSim) byzCrossRole() {
	if a.alt == nil {
		return
	}
	ids := a.byzIDs()
	if len(ids) == 0 {
		return
	}
	r := a.r
	hs := a.honest()
	target := hs[r.Intn(len(hs))]
	round := a.round(target)
	if round == 0 {
		round = 1
	}
	mat := a.altMaterial()
	valB := valueBytes(200 + r.Intn(3))
	switch r.Intn(4) {
	case 0, 1: // proposal of a Byzantine leader for a later round, justified by the OTHER role's round-changes of that round
		for _, rd := range []specqbft.Round{round, round + 1, round + 2} {
			if rd < 2 || !a.byz[a.f.leader(rd)] {
				continue
			}
			seen := map[spectypes.OperatorID]bool{}
			var rcs []*specqbft.SignedMessage
			for _, m := range mat {
				if m.Message.MsgType == specqbft.RoundChangeMsgType && m.Message.Round == rd && m.Message.DataRound == 0 && len(m.Signers) == 1 && !seen[m.Signers[0]] {
					seen[m.Signers[0]] = true
					rcs = append(rcs, m)
				}
			}
			for _, b := range ids { // its own round-changes, for either identifier
				if !seen[b] {
					if r.Bool() {
						rcs = append(rcs, a.f.roundChange(b, rd, 0, nil, nil))
					} else {
						rcs = append(rcs, a.env.sign(b, a.altMsg(specqbft.RoundChangeMsgType, rd, [32]byte{})))
					}
				}
			}
			if uint64(len(rcs)) < a.env.q {
				continue
			}
			a.tags = append(a.tags, "byz/cross-role-justified-proposal")
			ld := a.f.leader(rd)
			to := hs
			if r.Chance(40) {
				to = a.someHonest(1 + r.Intn(len(hs)))
			}
			a.sendDirect(enc(a.f.proposal(ld, rd, valB, rcs, nil)), to)
			root := sha256.Sum256(valB)
			for _, b := range ids {
				a.sendDirect(enc(a.f.prepare(b, rd, root)), to)
				a.sendDirect(enc(a.f.commit(b, rd, root)), to)
			}
			return
		}
	case 2: // round-change for the role under test claiming a lock that only the other role's prepares back
		type key struct {
			r    specqbft.Round
			root [32]byte
		}
		groups := map[key][]*specqbft.SignedMessage{}
		var order []key
		for _, m := range mat {
			if m.Message.MsgType == specqbft.PrepareMsgType && len(m.Signers) == 1 {
				k := key{m.Message.Round, m.Message.Root}
				if groups[k] == nil {
					order = append(order, k)
				}
				groups[k] = append(groups[k], m)
			}
		}
		for _, k := range order {
			preps := groups[k]
			for _, b := range ids {
				preps = append(preps, a.env.sign(b, a.altMsg(specqbft.PrepareMsgType, k.r, k.root)))
			}
			if uint64(len(preps)) < a.env.q {
				continue
			}
			var val []byte
			for _, v := range a.altValues {
				if sha256.Sum256(v) == k.root {
					val = v
				}
			}
			if val == nil {
				continue
			}
			a.tags = append(a.tags, "byz/round-change-locked-by-other-roles-prepares")
			me := ids[r.Intn(len(ids))]
			rd := round + specqbft.Round(r.Intn(2))
			if rd < k.r {
				rd = k.r
			}
			a.sendDirect(enc(a.f.roundChange(me, rd, k.r, val, preps)), a.someHonest(1+r.Intn(len(hs))))
			return
		}
	default: // the other role's messages sent as they are
		if len(mat) > 0 {
			a.tags = append(a.tags, "byz/other-role-message-direct")
			a.sendDirect(enc(mat[r.Intn(len(mat))]), a.someHonest(1+r.Intn(len(hs))))
		}
	}
}

func (a *advSim) altOuts(extra []string) []caseOut {
	if a.alt == nil {
		return nil
	}
	var outs []caseOut
	for _, nd := range a.honest() {
		if c := a.alt.cases[nd.id]; c != nil {
			c.viols = nil
			outs = append(outs, finishCase(c, append([]string{"case/second-role"}, extra...)))
		}
	}
	return outs
}
