module ssvextract

go 1.20
