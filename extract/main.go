// ssvextract: regenerates /verif/lean/Ssv/Gen/*.lean from the CURRENT source of /repo (and the
// pinned modules the anchored code calls). Deliberately tiny: constants (evaluated from the
// AST), normalised-source fingerprints of named functions, and call-site facts.
// Standard library only.
package main

import (
	"bytes"
	"crypto/sha256"
	"encoding/hex"
	"encoding/json"
	"fmt"
	"go/ast"
	"go/constant"
	"go/parser"
	"go/printer"
	"go/token"
	"os"
	"path/filepath"
	"sort"
	"strings"
)

type ConstSpec struct {
	Dir  string `json:"dir"`  // package dir relative to root
	Root string `json:"root"` // "repo" | "spec" | "ekm" | "fastssz"
	Name string `json:"name"`
	Lean string `json:"lean"`
	Kind string `json:"kind"` // nat | int | bytes (string as byte list) | str
}
type FuncSpec struct {
	Dir  string `json:"dir"`
	Root string `json:"root"`
	Func string `json:"func"` // Name or Recv.Name
	Lean string `json:"lean"`
}
type CallSpec struct { // fact: inside function Func (of Dir), the list of callee names matching any of Callees, in source order
	Dir     string   `json:"dir"`
	Root    string   `json:"root"`
	Func    string   `json:"func"`
	Callees []string `json:"callees"`
	Lean    string   `json:"lean"`
}
type LitSpec struct { // fact: the literals and operators of a function body, in prefix (AST pre-order) order
	Dir  string `json:"dir"`
	Root string `json:"root"`
	Func string `json:"func"`
	Lean string `json:"lean"`
}
type HasSpec struct { // fact: each given (whitespace-normalised) simple statement / case label occurs in the function body
	Dir   string   `json:"dir"`
	Root  string   `json:"root"`
	Func  string   `json:"func"`
	Stmts []string `json:"stmts"`
	Lean  string   `json:"lean"`
}
type Spec struct {
	Consts  []ConstSpec  `json:"consts"`
	Funcs   []FuncSpec   `json:"funcs"`
	Calls   []CallSpec   `json:"calls"`
	Lits    []LitSpec    `json:"lits"`
	Kernels []KernelSpec `json:"kernels"`
	Has     []HasSpec    `json:"has"`
}

var roots = map[string]string{}

type pkg struct {
	fset   *token.FileSet
	files  []*ast.File
	consts map[string]ast.Expr // name -> value expr (iota resolved separately)
	iota   map[string]int
	typed  map[string]bool
}

var pkgs = map[string]*pkg{}

func loadPkg(root, dir string) *pkg {
	key := root + ":" + dir
	if p, ok := pkgs[key]; ok {
		return p
	}
	full := filepath.Join(roots[root], dir)
	fset := token.NewFileSet()
	ents, err := os.ReadDir(full)
	if err != nil {
		die("cannot read %s: %v", full, err)
	}
	p := &pkg{fset: fset, consts: map[string]ast.Expr{}, iota: map[string]int{}}
	for _, e := range ents {
		n := e.Name()
		if e.IsDir() || !strings.HasSuffix(n, ".go") || strings.HasSuffix(n, "_test.go") {
			continue
		}
		f, err := parser.ParseFile(fset, filepath.Join(full, n), nil, parser.SkipObjectResolution)
		if err != nil {
			die("parse %s: %v", n, err)
		}
		p.files = append(p.files, f)
		for _, d := range f.Decls {
			gd, ok := d.(*ast.GenDecl)
			if !ok || (gd.Tok != token.CONST && gd.Tok != token.VAR) {
				continue
			}
			if gd.Tok == token.VAR {
				// package-level `var x = <constant expression>`: recorded like a constant (evaluated on demand)
				for _, s := range gd.Specs {
					vs := s.(*ast.ValueSpec)
					for j, nm := range vs.Names {
						if j < len(vs.Values) {
							if _, dup := p.consts[nm.Name]; !dup {
								p.consts[nm.Name] = vs.Values[j]
							}
						}
					}
				}
				continue
			}
			var last []ast.Expr
			for i, s := range gd.Specs {
				vs := s.(*ast.ValueSpec)
				vals := vs.Values
				if len(vals) == 0 {
					vals = last
				} else {
					last = vals
				}
				for j, nm := range vs.Names {
					if j < len(vals) {
						p.consts[nm.Name] = vals[j]
						p.iota[nm.Name] = i
					}
				}
			}
		}
	}
	pkgs[key] = p
	return p
}

var timeUnits = map[string]int64{"Nanosecond": 1, "Microsecond": 1e3, "Millisecond": 1e6, "Second": 1e9, "Minute": 60e9, "Hour": 3600e9}

func (p *pkg) eval(e ast.Expr, iota int, depth int) constant.Value {
	if depth > 50 {
		die("const evaluation too deep")
	}
	switch x := e.(type) {
	case *ast.BasicLit:
		return constant.MakeFromLiteral(x.Value, x.Kind, 0)
	case *ast.ParenExpr:
		return p.eval(x.X, iota, depth+1)
	case *ast.Ident:
		if x.Name == "iota" {
			return constant.MakeInt64(int64(iota))
		}
		if v, ok := p.consts[x.Name]; ok {
			return p.eval(v, p.iota[x.Name], depth+1)
		}
		die("unknown const ident %s", x.Name)
	case *ast.SelectorExpr:
		if id, ok := x.X.(*ast.Ident); ok && id.Name == "time" {
			if u, ok := timeUnits[x.Sel.Name]; ok {
				return constant.MakeInt64(u)
			}
		}
		die("unsupported selector %v", x.Sel.Name)
	case *ast.BinaryExpr:
		l, r := p.eval(x.X, iota, depth+1), p.eval(x.Y, iota, depth+1)
		if x.Op == token.QUO && l.Kind() == constant.Int && r.Kind() == constant.Int {
			return constant.BinaryOp(l, token.QUO_ASSIGN, r) // integer division
		}
		if x.Op == token.SHL || x.Op == token.SHR {
			s, _ := constant.Uint64Val(r)
			return constant.Shift(l, x.Op, uint(s))
		}
		return constant.BinaryOp(l, x.Op, r)
	case *ast.UnaryExpr:
		return constant.UnaryOp(x.Op, p.eval(x.X, iota, depth+1), 0)
	case *ast.CallExpr: // conversion T(x)
		if len(x.Args) == 1 {
			return p.eval(x.Args[0], iota, depth+1)
		}
	}
	die("unsupported const expr %T", e)
	return nil
}

func die(f string, a ...any) {
	fmt.Fprintf(os.Stderr, "ssvextract: "+f+"\n", a...)
	os.Exit(2)
}

func findFunc(p *pkg, name string) *ast.FuncDecl {
	recv := ""
	if i := strings.Index(name, "."); i >= 0 {
		recv, name = name[:i], name[i+1:]
	}
	for _, f := range p.files {
		for _, d := range f.Decls {
			fd, ok := d.(*ast.FuncDecl)
			if !ok || fd.Name.Name != name {
				continue
			}
			r := ""
			if fd.Recv != nil && len(fd.Recv.List) == 1 {
				t := fd.Recv.List[0].Type
				if s, ok := t.(*ast.StarExpr); ok {
					t = s.X
				}
				if ix, ok := t.(*ast.IndexExpr); ok {
					t = ix.X
				}
				if id, ok := t.(*ast.Ident); ok {
					r = id.Name
				}
			}
			if r == recv {
				return fd
			}
		}
	}
	return nil
}

// findPlainFunc: the package-level function (no receiver) of that name, if any.
func findPlainFunc(p *pkg, name string) *ast.FuncDecl {
	for _, f := range p.files {
		for _, d := range f.Decls {
			if fd, ok := d.(*ast.FuncDecl); ok && fd.Recv == nil && fd.Name.Name == name {
				return fd
			}
		}
	}
	return nil
}

// findUniqueMethod: the only method of that (unexported) name in the package, if there is exactly one.
func findUniqueMethod(p *pkg, name string) *ast.FuncDecl {
	var r *ast.FuncDecl
	for _, f := range p.files {
		for _, d := range f.Decls {
			if fd, ok := d.(*ast.FuncDecl); ok && fd.Recv != nil && fd.Name.Name == name {
				if r != nil {
					return nil
				}
				r = fd
			}
		}
	}
	return r
}

// normalised source of a function, then hashed. The normal form is meant to be stable under rewrites that cannot
// change behaviour: the function is printed from the AST without comments (formatting and comments do not matter),
// statements that are only a call on a logger (x.logger.Debug(…), logger.Info(…), …) are dropped, and the names the
// function binds itself (receiver, parameters, results, :=, var, range and type-switch bindings, labels) are replaced by
// v0, v1, … in order of first binding, so that renaming a local variable leaves the fingerprint unchanged.
func funcFingerprint(p *pkg, fd *ast.FuncDecl) (string, string) {
	var buf bytes.Buffer
	cfg := printer.Config{Mode: printer.RawFormat}
	c := normaliseFunc(fd)
	cfg.Fprint(&buf, token.NewFileSet(), c) // fresh fileset: no comments, no positions
	src := strings.Join(strings.Fields(buf.String()), " ")
	h := sha256.Sum256([]byte(src))
	return hex.EncodeToString(h[:8]), src
}

func isLogCall(e ast.Expr) bool {
	call, ok := e.(*ast.CallExpr)
	if !ok {
		return false
	}
	sel, ok := call.Fun.(*ast.SelectorExpr)
	if !ok {
		return false
	}
	switch sel.Sel.Name {
	case "Debug", "Info", "Warn", "Error", "Debugf", "Infof", "Warnf", "Errorf", "Debugw", "Infow", "Warnw", "Errorw":
	default:
		return false
	}
	// the receiver chain must name a logger: logger, h.logger, c.logger.With(…), log, …
	var names func(x ast.Expr) bool
	names = func(x ast.Expr) bool {
		switch y := x.(type) {
		case *ast.Ident:
			l := strings.ToLower(y.Name)
			return strings.Contains(l, "logger") || l == "log"
		case *ast.SelectorExpr:
			l := strings.ToLower(y.Sel.Name)
			return strings.Contains(l, "logger") || names(y.X)
		case *ast.CallExpr:
			return names(y.Fun)
		}
		return false
	}
	return names(sel.X)
}

// normaliseFunc returns a deep copy of fd (via print+parse would lose nothing we need; we copy by re-parsing the
// printed source) with log statements removed and bound names alpha-renamed.
func normaliseFunc(fd *ast.FuncDecl) *ast.FuncDecl {
	// deep copy: print and re-parse, so the caller's AST is never mutated
	var buf bytes.Buffer
	c0 := *fd
	c0.Doc = nil
	(&printer.Config{Mode: printer.RawFormat}).Fprint(&buf, token.NewFileSet(), &c0)
	f, err := parser.ParseFile(token.NewFileSet(), "x.go", "package x\n"+buf.String(), 0)
	if err != nil || len(f.Decls) != 1 {
		return &c0
	}
	c := f.Decls[0].(*ast.FuncDecl)
	// 1. drop log-only statements
	var strip func(list []ast.Stmt) []ast.Stmt
	strip = func(list []ast.Stmt) []ast.Stmt {
		out := list[:0:0]
		for _, st := range list {
			if es, ok := st.(*ast.ExprStmt); ok && isLogCall(es.X) {
				continue
			}
			out = append(out, st)
		}
		return out
	}
	ast.Inspect(c, func(n ast.Node) bool {
		switch x := n.(type) {
		case *ast.BlockStmt:
			x.List = strip(x.List)
		case *ast.CaseClause:
			x.Body = strip(x.Body)
		case *ast.CommClause:
			x.Body = strip(x.Body)
		}
		return true
	})
	// 2. collect bound names in order of first binding
	ren := map[string]string{}
	bind := func(id *ast.Ident) {
		if id == nil || id.Name == "_" {
			return
		}
		if _, ok := ren[id.Name]; !ok {
			ren[id.Name] = fmt.Sprintf("v%d", len(ren))
		}
	}
	fields := func(fl *ast.FieldList) {
		if fl == nil {
			return
		}
		for _, f := range fl.List {
			for _, n := range f.Names {
				bind(n)
			}
		}
	}
	fields(c.Recv)
	fields(c.Type.Params)
	fields(c.Type.Results)
	ast.Inspect(c.Body, func(n ast.Node) bool {
		switch x := n.(type) {
		case *ast.AssignStmt:
			if x.Tok == token.DEFINE {
				for _, l := range x.Lhs {
					if id, ok := l.(*ast.Ident); ok {
						bind(id)
					}
				}
			}
		case *ast.ValueSpec:
			for _, id := range x.Names {
				bind(id)
			}
		case *ast.RangeStmt:
			if x.Tok == token.DEFINE {
				if id, ok := x.Key.(*ast.Ident); ok {
					bind(id)
				}
				if id, ok := x.Value.(*ast.Ident); ok {
					bind(id)
				}
			}
		case *ast.FuncLit:
			fields(x.Type.Params)
			fields(x.Type.Results)
		case *ast.LabeledStmt:
			bind(x.Label)
		}
		return true
	})
	// 3. rename every use, except field/method selectors and struct-literal keys
	skip := map[*ast.Ident]bool{}
	ast.Inspect(c, func(n ast.Node) bool {
		switch x := n.(type) {
		case *ast.SelectorExpr:
			skip[x.Sel] = true
		case *ast.KeyValueExpr:
			if id, ok := x.Key.(*ast.Ident); ok {
				skip[id] = true
			}
		}
		return true
	})
	skip[c.Name] = true
	ast.Inspect(c, func(n ast.Node) bool {
		if id, ok := n.(*ast.Ident); ok && !skip[id] {
			if r, ok := ren[id.Name]; ok {
				id.Name = r
			}
		}
		return true
	})
	return c
}

func calleeName(e ast.Expr) string {
	switch x := e.(type) {
	case *ast.Ident:
		return x.Name
	case *ast.SelectorExpr:
		return calleeName(x.X) + "." + x.Sel.Name
	case *ast.CallExpr:
		return calleeName(x.Fun) + "()"
	case *ast.ParenExpr:
		return calleeName(x.X)
	case *ast.IndexExpr:
		return calleeName(x.X)
	}
	return "?"
}

func leanStr(s string) string {
	var b strings.Builder
	b.WriteByte('"')
	for _, r := range s {
		switch r {
		case '"':
			b.WriteString("\\\"")
		case '\\':
			b.WriteString("\\\\")
		case '\n':
			b.WriteString("\\n")
		default:
			b.WriteRune(r)
		}
	}
	b.WriteByte('"')
	return b.String()
}

func writeIfChanged(path, content string) {
	old, err := os.ReadFile(path)
	if err == nil && string(old) == content {
		return
	}
	if err := os.WriteFile(path, []byte(content), 0o644); err != nil {
		die("write %s: %v", path, err)
	}
}

func camel(s string) string {
	if s == "" {
		return s
	}
	return strings.ToUpper(s[:1]) + s[1:]
}

func main() {
	if len(os.Args) < 4 {
		die("usage: ssvextract <specdir> <repo> <outdir> [dumpfile]")
	}
	roots["repo"] = os.Args[2]
	mc := os.Getenv("GOMODCACHE")
	if mc == "" {
		mc = "/root/go/pkg/mod"
	}
	roots["spec"] = filepath.Join(mc, "github.com/bloxapp/ssv-spec@v0.3.7")
	roots["ekm"] = filepath.Join(mc, "github.com/bloxapp/eth2-key-manager@v1.4.0")
	roots["fastssz"] = filepath.Join(mc, "github.com/ferranbt/fastssz@v0.1.3")
	out := os.Args[3]
	ents, err := os.ReadDir(os.Args[1])
	if err != nil {
		die("%v", err)
	}
	var d strings.Builder
	for _, e := range ents {
		if !strings.HasSuffix(e.Name(), ".json") {
			continue
		}
		section := strings.TrimSuffix(e.Name(), ".json")
		raw, err := os.ReadFile(filepath.Join(os.Args[1], e.Name()))
		if err != nil {
			die("%v", err)
		}
		var spec Spec
		if err := json.Unmarshal(raw, &spec); err != nil {
			die("spec %s: %v", e.Name(), err)
		}
		genSection(section, spec, out, &d)
	}
	if len(os.Args) > 4 {
		writeIfChanged(os.Args[4], d.String())
	}
}

// genSection writes <out>/<Section>.lean: constants, function fingerprints and call-site facts of one spec file.
func genSection(section string, spec Spec, out string, d *strings.Builder) {
	var c strings.Builder
	c.WriteString("/- GENERATED by /verif/extract from the current source tree (spec: extract/spec/" + section + ".json). Do not edit.\n" +
		"   Constants are evaluated from the AST; `src_*` are fingerprints (first 8 bytes of sha256, hex) of the comment-free,\n" +
		"   whitespace-normalised, log-statement-free, alpha-renamed (bound names → v0,v1,…) source of functions the models were written against; `calls_*` are ordered call-site facts. -/\nnamespace Ssv.Gen\n\n")
	for _, cs := range spec.Consts {
		p := loadPkg(cs.Root, cs.Dir)
		e, ok := p.consts[cs.Name]
		if !ok {
			die("const %s not found in %s", cs.Name, cs.Dir)
		}
		v := p.eval(e, p.iota[cs.Name], 0)
		switch cs.Kind {
		case "nat":
			i, ok := constant.Int64Val(constant.ToInt(v))
			if !ok || i < 0 {
				die("const %s is not a natural number: %v", cs.Name, v)
			}
			fmt.Fprintf(&c, "/-- %s/%s -/\ndef %s : Nat := %d\n", cs.Dir, cs.Name, cs.Lean, i)
		case "int":
			i, ok := constant.Int64Val(constant.ToInt(v))
			if !ok {
				die("const %s is not an int: %v", cs.Name, v)
			}
			fmt.Fprintf(&c, "/-- %s/%s -/\ndef %s : Int := %d\n", cs.Dir, cs.Name, cs.Lean, i)
		case "bytes":
			s := constant.StringVal(v)
			parts := []string{}
			for _, b := range []byte(s) {
				parts = append(parts, fmt.Sprint(b))
			}
			fmt.Fprintf(&c, "/-- %s/%s = %s -/\ndef %s : List Nat := [%s]\n", cs.Dir, cs.Name, leanStr(s), cs.Lean, strings.Join(parts, ", "))
		case "str":
			fmt.Fprintf(&c, "/-- %s/%s -/\ndef %s : String := %s\n", cs.Dir, cs.Name, cs.Lean, leanStr(constant.StringVal(v)))
		default:
			die("bad kind %s", cs.Kind)
		}
	}
	srcDump := map[string]string{}
	for _, fs := range spec.Funcs {
		p := loadPkg(fs.Root, fs.Dir)
		fd := findFunc(p, fs.Func)
		if fd == nil {
			fmt.Fprintf(&c, "/-- %s/%s : NOT FOUND -/\ndef %s : String := \"missing\"\n", fs.Dir, fs.Func, fs.Lean)
			continue
		}
		h, src := funcFingerprint(p, fd)
		srcDump[fs.Lean] = src
		fmt.Fprintf(&c, "/-- %s/%s -/\ndef %s : String := %s\n", fs.Dir, fs.Func, fs.Lean, leanStr(h))
	}
	for _, cs := range spec.Calls {
		p := loadPkg(cs.Root, cs.Dir)
		fd := findFunc(p, cs.Func)
		var found []string
		if fd != nil && fd.Body != nil {
			// Calls to same-package helpers that are not themselves listed callees are FLATTENED: the helper's own
			// listed calls appear at the place of the call (depth ≤ 4, no recursion into a function twice on one path),
			// so that extracting a few lines into a helper, or inlining one, leaves the fact unchanged.
			matches := func(nm string) []string {
				var out []string
				for _, w := range cs.Callees {
					if nm == w || strings.HasSuffix(nm, "."+w) {
						out = append(out, w)
					}
				}
				return out
			}
			var walk func(body ast.Node, depth int, onPath map[*ast.FuncDecl]bool)
			walk = func(body ast.Node, depth int, onPath map[*ast.FuncDecl]bool) {
				ast.Inspect(body, func(n ast.Node) bool {
					ce, ok := n.(*ast.CallExpr)
					if !ok {
						return true
					}
					nm := calleeName(ce.Fun)
					if m := matches(nm); len(m) > 0 {
						found = append(found, m...)
						return true
					}
					if depth >= 4 {
						return true
					}
					var helper *ast.FuncDecl
					switch f := ce.Fun.(type) {
					case *ast.Ident:
						helper = findPlainFunc(p, f.Name)
					case *ast.SelectorExpr:
						if !ast.IsExported(f.Sel.Name) {
							helper = findUniqueMethod(p, f.Sel.Name)
						}
					}
					if helper != nil && helper.Body != nil && !onPath[helper] && helper != fd {
						// arguments are evaluated before the call: visit them first, then the helper's body
						for _, a := range ce.Args {
							walk(a, depth, onPath)
						}
						onPath[helper] = true
						walk(helper.Body, depth+1, onPath)
						delete(onPath, helper)
						return false
					}
					return true
				})
			}
			walk(fd.Body, 0, map[*ast.FuncDecl]bool{})
		} else {
			found = []string{"<function missing>"}
		}
		q := []string{}
		for _, f := range found {
			q = append(q, leanStr(f))
		}
		fmt.Fprintf(&c, "/-- calls in %s/%s among %v, in source order -/\ndef %s : List String := [%s]\n", cs.Dir, cs.Func, cs.Callees, cs.Lean, strings.Join(q, ", "))
	}
	for _, ks := range spec.Kernels {
		genKernel(loadPkg(ks.Root, ks.Dir), ks, &c)
	}
	for _, hs := range spec.Has {
		p := loadPkg(hs.Root, hs.Dir)
		fd := findFunc(p, hs.Func)
		present := map[string]bool{}
		norm := func(n ast.Node) string {
			var buf bytes.Buffer
			cfg := printer.Config{Mode: printer.RawFormat}
			cfg.Fprint(&buf, token.NewFileSet(), n)
			return strings.Join(strings.Fields(buf.String()), " ")
		}
		if fd != nil && fd.Body != nil {
			// statements of same-package helpers the function calls count as present too (depth ≤ 4), so that extracting a
			// few lines into a helper leaves the fact unchanged
			var bodies []ast.Node
			seen := map[*ast.FuncDecl]bool{fd: true}
			var collect func(body ast.Node, depth int)
			collect = func(body ast.Node, depth int) {
				bodies = append(bodies, body)
				if depth >= 4 {
					return
				}
				ast.Inspect(body, func(n ast.Node) bool {
					if ce, ok := n.(*ast.CallExpr); ok {
						var helper *ast.FuncDecl
						switch f := ce.Fun.(type) {
						case *ast.Ident:
							helper = findPlainFunc(p, f.Name)
						case *ast.SelectorExpr:
							if !ast.IsExported(f.Sel.Name) {
								helper = findUniqueMethod(p, f.Sel.Name)
							}
						}
						if helper != nil && helper.Body != nil && !seen[helper] && !ast.IsExported(helper.Name.Name) {
							seen[helper] = true
							collect(helper.Body, depth+1)
						}
					}
					return true
				})
			}
			collect(fd.Body, 0)
			for _, body := range bodies {
				ast.Inspect(body, func(n ast.Node) bool {
					switch x := n.(type) {
					case *ast.AssignStmt, *ast.ReturnStmt, *ast.IncDecStmt, *ast.ExprStmt, *ast.DeferStmt, *ast.GoStmt, *ast.SendStmt:
						present[norm(n)] = true
					case *ast.CaseClause:
						if x.List == nil {
							present["default:"] = true
						} else {
							parts := []string{}
							for _, e := range x.List {
								parts = append(parts, norm(e))
							}
							present["case "+strings.Join(parts, ", ")+":"] = true
						}
					case *ast.IfStmt:
						present["if "+norm(x.Cond)] = true
					}
					return true
				})
			}
		}
		q := []string{}
		for _, st := range hs.Stmts {
			if present[strings.Join(strings.Fields(st), " ")] {
				q = append(q, "true")
			} else {
				q = append(q, "false")
			}
		}
		fmt.Fprintf(&c, "/-- does %s/%s contain each of: %s -/\ndef %s : List Bool := [%s]\n", hs.Dir, hs.Func, strings.ReplaceAll(strings.Join(hs.Stmts, " | "), "-/", "- /"), hs.Lean, strings.Join(q, ", "))
	}
	for _, ls := range spec.Lits {
		p := loadPkg(ls.Root, ls.Dir)
		fd := findFunc(p, ls.Func)
		var toks []string
		if fd != nil && fd.Body != nil {
			ast.Inspect(fd.Body, func(n ast.Node) bool {
				switch x := n.(type) {
				case *ast.BasicLit:
					toks = append(toks, x.Value)
				case *ast.BinaryExpr:
					toks = append(toks, x.Op.String())
				case *ast.UnaryExpr:
					toks = append(toks, "u"+x.Op.String())
				case *ast.IncDecStmt:
					toks = append(toks, x.Tok.String())
				case *ast.AssignStmt:
					if x.Tok != token.ASSIGN && x.Tok != token.DEFINE {
						toks = append(toks, x.Tok.String())
					}
				}
				return true
			})
		} else {
			toks = []string{"<function missing>"}
		}
		q := []string{}
		for _, t := range toks {
			q = append(q, leanStr(t))
		}
		fmt.Fprintf(&c, "/-- literals and operators of %s/%s in AST pre-order -/\ndef %s : List String := [%s]\n", ls.Dir, ls.Func, ls.Lean, strings.Join(q, ", "))
	}
	c.WriteString("\nend Ssv.Gen\n")
	content := c.String()
	if len(spec.Kernels) > 0 {
		content = "import Ssv.Common.GoInt\n" + content
	}
	writeIfChanged(filepath.Join(out, camel(section)+".lean"), content)
	keys := []string{}
	for k := range srcDump {
		keys = append(keys, k)
	}
	sort.Strings(keys)
	for _, k := range keys {
		fmt.Fprintf(d, "== %s\n%s\n\n", k, srcDump[k])
	}
}
