package main

// Mini-translator: pure integer "kernels" of the Go source -> Lean definitions over Int.
//
// Supported Go subset (anything else aborts the extraction with a message naming the construct):
//   statements : x := e | x = e | x op= e | var x T | var x T = e | if c { … } [else { … }] | return e1[, e2 …]
//                (an `if` whose body does not end in `return` may only assign already-declared variables)
//   expressions: integer literals, identifiers, package constants (inlined), selector chains a.b.c and
//                len(x) (both become extra parameters named a_b_c / len_x), + - * / % (Go truncating
//                division/remainder = Int.tdiv/Int.tmod), comparisons, && || !, parentheses,
//                conversions T(e): to a signed integer type from an unsigned 64-bit value = two's-complement
//                reinterpretation (Ssv.Gen.toInt64), to an unsigned 64-bit type from a signed value = mod 2^64
//                (Ssv.Gen.toUint64), otherwise identity.
// Arithmetic overflow of + - * is NOT modelled (values are mathematical integers); theorems that rely on a
// generated kernel state the range they need.

import (
	"fmt"
	"go/ast"
	"go/constant"
	"go/token"
	"sort"
	"strings"
)

type KernelSpec struct {
	Dir   string            `json:"dir"`
	Root  string            `json:"root"`
	Func  string            `json:"func"`
	Lean  string            `json:"lean"`
	Types map[string]string `json:"types"` // optional: type class ("i"|"u") of free variables (selectors, len_…)
	Return string           `json:"return"` // optional: every `return …` yields this local variable instead (e.g. the index computed before a slice access)
}

type ktr struct {
	p      *pkg
	spec   KernelSpec
	vars   map[string]string // bound variable -> type class "i" (signed) | "u" (unsigned 64) | "b"
	free   map[string]string // free variables (become parameters) -> type class
	order  []string
	failed string
}

func (k *ktr) fail(f string, a ...any) {
	if k.failed == "" {
		k.failed = fmt.Sprintf(f, a...)
	}
}

func typeClass(e ast.Expr) string {
	switch x := e.(type) {
	case *ast.Ident:
		switch x.Name {
		case "int", "int64", "int32":
			return "i"
		case "bool":
			return "b"
		case "uint64", "uint", "uint32", "Height", "Round", "OperatorID", "Slot", "Epoch":
			return "u"
		case "Duration":
			return "i"
		}
	case *ast.SelectorExpr:
		return typeClass(x.Sel)
	}
	return ""
}

func (k *ktr) freeVar(name, hint string) string {
	if _, ok := k.free[name]; !ok {
		t := k.spec.Types[name]
		if t == "" {
			t = hint
		}
		if t == "" {
			t = "i"
		}
		k.free[name] = t
		k.order = append(k.order, name)
	}
	return name
}

func selName(e ast.Expr) string {
	switch x := e.(type) {
	case *ast.Ident:
		return x.Name
	case *ast.SelectorExpr:
		return selName(x.X) + "_" + x.Sel.Name
	case *ast.StarExpr:
		return selName(x.X)
	case *ast.ParenExpr:
		return selName(x.X)
	}
	return "?"
}

// expr returns (lean term, type class)
func (k *ktr) expr(e ast.Expr) (string, string) {
	switch x := e.(type) {
	case *ast.BasicLit:
		if x.Kind == token.INT {
			v := constant.MakeFromLiteral(x.Value, x.Kind, 0)
			return "(" + v.ExactString() + " : Int)", "lit"
		}
	case *ast.ParenExpr:
		s, t := k.expr(x.X)
		return "(" + s + ")", t
	case *ast.Ident:
		if t, ok := k.vars[x.Name]; ok {
			return x.Name, t
		}
		if x.Name == "true" || x.Name == "false" {
			return x.Name, "b"
		}
		if ce, ok := k.p.consts[x.Name]; ok {
			v := k.p.eval(ce, k.p.iota[x.Name], 0)
			if i, ok := constant.Int64Val(constant.ToInt(v)); ok {
				return fmt.Sprintf("(%d : Int)", i), "lit"
			}
		}
		return k.freeVar(x.Name, ""), k.free[x.Name]
	case *ast.SelectorExpr:
		// pkg.Const of another package cannot be resolved here: treated as a free variable
		n := selName(x)
		return k.freeVar(n, ""), k.free[n]
	case *ast.CallExpr:
		if id, ok := x.Fun.(*ast.Ident); ok && id.Name == "len" && len(x.Args) == 1 {
			n := "len_" + selName(x.Args[0])
			return k.freeVar(n, "i"), "i"
		}
		if len(x.Args) == 1 { // conversion
			tc := typeClass(x.Fun)
			if tc == "" {
				k.fail("unsupported call %s", selName(x.Fun))
				return "0", "i"
			}
			s, t := k.expr(x.Args[0])
			switch {
			case tc == "i" && t == "u":
				return "(Ssv.Gen.toInt64 " + s + ")", "i"
			case tc == "u" && t == "i":
				return "(Ssv.Gen.toUint64 " + s + ")", "u"
			default:
				return s, tc
			}
		}
	case *ast.UnaryExpr:
		s, t := k.expr(x.X)
		switch x.Op {
		case token.NOT:
			return "(!" + s + ")", "b"
		case token.SUB:
			return "(-" + s + ")", t
		}
	case *ast.BinaryExpr:
		l, lt := k.expr(x.X)
		r, rt := k.expr(x.Y)
		t := lt
		if t == "lit" {
			t = rt
		}
		if t == "lit" {
			t = "i"
		}
		switch x.Op {
		case token.ADD, token.SUB, token.MUL:
			return "(" + l + " " + x.Op.String() + " " + r + ")", t
		case token.QUO:
			return "(Int.tdiv " + l + " " + r + ")", t
		case token.REM:
			return "(Int.tmod " + l + " " + r + ")", t
		case token.EQL:
			if lt == "b" {
				return "(" + l + " == " + r + ")", "b"
			}
			return "(decide (" + l + " = " + r + "))", "b"
		case token.NEQ:
			if lt == "b" {
				return "(" + l + " != " + r + ")", "b"
			}
			return "(decide (" + l + " ≠ " + r + "))", "b"
		case token.LSS, token.LEQ, token.GTR, token.GEQ:
			op := map[token.Token]string{token.LSS: "<", token.LEQ: "≤", token.GTR: ">", token.GEQ: "≥"}[x.Op]
			return "(decide (" + l + " " + op + " " + r + "))", "b"
		case token.LAND:
			return "(" + l + " && " + r + ")", "b"
		case token.LOR:
			return "(" + l + " || " + r + ")", "b"
		}
	}
	k.fail("unsupported expression %T", e)
	return "0", "i"
}

func endsInReturn(b *ast.BlockStmt) bool {
	if b == nil || len(b.List) == 0 {
		return false
	}
	switch s := b.List[len(b.List)-1].(type) {
	case *ast.ReturnStmt:
		return true
	case *ast.IfStmt:
		if s.Else == nil {
			return false
		}
		eb, ok := s.Else.(*ast.BlockStmt)
		return ok && endsInReturn(s.Body) && endsInReturn(eb)
	}
	return false
}

func assignedVars(b *ast.BlockStmt, out map[string]bool) {
	for _, s := range b.List {
		switch x := s.(type) {
		case *ast.AssignStmt:
			for _, l := range x.Lhs {
				if id, ok := l.(*ast.Ident); ok && x.Tok != token.DEFINE {
					out[id.Name] = true
				}
			}
		case *ast.IfStmt:
			assignedVars(x.Body, out)
			if eb, ok := x.Else.(*ast.BlockStmt); ok {
				assignedVars(eb, out)
			}
		}
	}
}

// stmts translates a statement list into a Lean term; `tail` is the term to continue with when the list
// falls through (empty = this list must end in return).
func (k *ktr) stmts(list []ast.Stmt, tail string, ind string) string {
	if len(list) == 0 {
		if tail == "" {
			k.fail("control reaches the end of the function without return")
			return "default"
		}
		return tail
	}
	rest := func() string { return k.stmts(list[1:], tail, ind) }
	switch s := list[0].(type) {
	case *ast.ReturnStmt:
		if k.spec.Return != "" {
			if _, ok := k.vars[k.spec.Return]; !ok {
				k.fail("return variable %s is not bound at a return statement", k.spec.Return)
			}
			return k.spec.Return
		}
		parts := []string{}
		for _, r := range s.Results {
			e, _ := k.expr(r)
			parts = append(parts, e)
		}
		if len(parts) == 1 {
			return parts[0]
		}
		return "(" + strings.Join(parts, ", ") + ")"
	case *ast.DeclStmt:
		gd, ok := s.Decl.(*ast.GenDecl)
		if ok && gd.Tok == token.VAR {
			out := ""
			for _, sp := range gd.Specs {
				vs := sp.(*ast.ValueSpec)
				for j, nm := range vs.Names {
					val, t := "(0 : Int)", typeClass(vs.Type)
					if t == "b" {
						val = "false"
					}
					if j < len(vs.Values) {
						val, _ = k.expr(vs.Values[j])
					}
					if t == "" {
						t = "i"
					}
					k.vars[nm.Name] = t
					out += "let " + nm.Name + " := " + val + "\n" + ind
				}
			}
			return out + rest()
		}
	case *ast.AssignStmt:
		if len(s.Lhs) == 1 && len(s.Rhs) == 1 {
			id, ok := s.Lhs[0].(*ast.Ident)
			if ok {
				e, t := k.expr(s.Rhs[0])
				if t == "lit" {
					t = "i"
				}
				switch s.Tok {
				case token.DEFINE:
					k.vars[id.Name] = t
				case token.ASSIGN:
				case token.ADD_ASSIGN:
					e = "(" + id.Name + " + " + e + ")"
				case token.SUB_ASSIGN:
					e = "(" + id.Name + " - " + e + ")"
				case token.MUL_ASSIGN:
					e = "(" + id.Name + " * " + e + ")"
				default:
					k.fail("unsupported assignment operator %s", s.Tok)
				}
				if _, bound := k.vars[id.Name]; !bound {
					k.fail("assignment to unknown variable %s", id.Name)
				}
				return "let " + id.Name + " := " + e + "\n" + ind + rest()
			}
		}
	case *ast.IfStmt:
		if s.Init != nil {
			k.fail("if with init statement")
		}
		c, _ := k.expr(s.Cond)
		var eb *ast.BlockStmt
		if s.Else != nil {
			b, ok := s.Else.(*ast.BlockStmt)
			if !ok {
				b = &ast.BlockStmt{List: []ast.Stmt{s.Else}}
			}
			eb = b
		}
		if endsInReturn(s.Body) {
			thenT := k.stmts(s.Body.List, "", ind+"  ")
			var elseT string
			if eb != nil {
				elseT = k.stmts(append(append([]ast.Stmt{}, eb.List...), list[1:]...), tail, ind+"  ")
			} else {
				elseT = k.stmts(list[1:], tail, ind+"  ")
			}
			return "if " + c + " then\n" + ind + "  " + thenT + "\n" + ind + "else\n" + ind + "  " + elseT
		}
		// fall-through if: only assignments to already-declared variables
		av := map[string]bool{}
		assignedVars(s.Body, av)
		if eb != nil {
			assignedVars(eb, av)
		}
		names := []string{}
		for n := range av {
			if _, ok := k.vars[n]; !ok {
				k.fail("if-block assigns undeclared variable %s", n)
			}
			names = append(names, n)
		}
		sort.Strings(names)
		if len(names) == 0 {
			k.fail("if-block without effect")
		}
		tup := names[0]
		if len(names) > 1 {
			tup = "(" + strings.Join(names, ", ") + ")"
		}
		saved := map[string]string{}
		for n, t := range k.vars {
			saved[n] = t
		}
		thenT := k.stmts(s.Body.List, tup, ind+"  ")
		k.vars = saved
		elseT := tup
		if eb != nil {
			elseT = k.stmts(eb.List, tup, ind+"  ")
			k.vars = saved
		}
		return "let " + tup + " := (if " + c + " then\n" + ind + "  " + thenT + "\n" + ind + "else\n" + ind + "  " + elseT + ")\n" + ind + rest()
	}
	k.fail("unsupported statement %T", list[0])
	return "default"
}

func genKernel(p *pkg, ks KernelSpec, c *strings.Builder) {
	fd := findFunc(p, ks.Func)
	if fd == nil || fd.Body == nil {
		fmt.Fprintf(c, "/-- kernel %s/%s : FUNCTION MISSING -/\ndef %s_missing : Bool := true\n", ks.Dir, ks.Func, ks.Lean)
		return
	}
	k := &ktr{p: p, spec: ks, vars: map[string]string{}, free: map[string]string{}}
	params := []string{}
	for _, f := range fd.Type.Params.List {
		tc := typeClass(f.Type)
		for _, nm := range f.Names {
			if tc == "" { // struct/pointer parameter: its fields are reached through selectors (free variables)
				continue
			}
			k.vars[nm.Name] = tc
			if tc == "b" {
				params = append(params, "("+nm.Name+" : Bool)")
			} else {
				params = append(params, "("+nm.Name+" : Int)")
			}
		}
	}
	// named results are variables initialised to zero
	pre := ""
	nres := 0
	resTypes := []string{}
	if fd.Type.Results != nil {
		for _, f := range fd.Type.Results.List {
			tc := typeClass(f.Type)
			n := len(f.Names)
			if n == 0 {
				n = 1
			}
			for i := 0; i < n; i++ {
				nres++
				if tc == "b" {
					resTypes = append(resTypes, "Bool")
				} else {
					resTypes = append(resTypes, "Int")
				}
			}
			for _, nm := range f.Names {
				k.vars[nm.Name] = tc
				pre += "let " + nm.Name + " := (0 : Int)\n  "
			}
		}
	}
	body := k.stmts(fd.Body.List, "", "  ")
	if k.failed != "" {
		die("kernel %s/%s: %s", ks.Dir, ks.Func, k.failed)
	}
	for _, n := range k.order {
		if k.free[n] == "b" {
			params = append(params, "("+n+" : Bool)")
		} else {
			params = append(params, "("+n+" : Int)")
		}
	}
	if ks.Return != "" {
		resTypes = []string{"Int"}
	}
	fmt.Fprintf(c, "/-- translated from %s/%s (Go int semantics: truncating / and %%; free variables became parameters) -/\ndef %s %s : %s :=\n  %s%s\n",
		ks.Dir, ks.Func, ks.Lean, strings.Join(params, " "), strings.Join(resTypes, " × "), pre, body)
}
