"""C16 — each assigned beacon duty is dispatched exactly once, at its slot."""
CFG = dict(
    level="proof",
    design_ref="DESIGN.md §7.16, §8 item 8",
    level_text="PARTIAL (wall-clock tick timing, the ExecuteDuties goroutines and the one-third-slot wait are outside the model; ticker uniqueness is a hypothesis). "
               "Lean 4 theorems over the model of the attester / proposer / sync-committee handlers and the duty store, for ALL networks (slots per epoch, epochs per period), "
               "initial clocks and ALL event lists (ticks, reorg(previous|current) notices, indices-change notices, every fetch paired with noIdx|fail|ok assignment), by induction: "
               "at most once (tick slots strictly increasing); only at the tick of its own slot and inside the shouldExecute window (no hypothesis); "
               "only the most recently fetched assignment (proposer, sync committee: no hypothesis; attester: event slots never go backwards); "
               "exactly once if fetched (proposer: event slots never go backwards; attester, sync committee: additionally no reorg(current)/indices-change notice that resets the "
               "next epoch's/period's duties directly followed by a tick of a later epoch/period). The full exactly-once statement is REFUTED for the attester (two witnesses) and "
               "sync-committee handlers, the full only-latest statement for the attester handler; each witness is replayed on the real handlers (known findings).",
    level_note="Trusted: Lean kernel (axioms propext/Classical.choice/Quot.sound only), the go/ast fact extractor, the harness (mocks of slot ticker, wall clock, beacon node, "
               "validator controller; in small-network cases also of slots-per-epoch / epochs-per-period), its canonicalisation and its oracle. The handlers run in their own "
               "goroutine; determinism comes from a no-op reorg event used as a barrier, no sleeps.",
    technique="Lean 4 proof (inductive invariants over event lists; refutation witnesses by `decide`) + regenerated constants / literal-operator lists / call-site facts + "
              "differential run of the real handlers against the model + implementation-side oracle",
    lean=["Ssv.Props.C16"],
    engines=[dict(harness="duties", driver="m_duties", case_delim="reset", n_quick=1500, n_thorough=40000, thorough_seeds=4, n_search=6000, search_seeds=4)],
    rule="seeded generator: handler kind (att 45% / prop 20% / sync 35%), network (real 32/256 near epoch and sync-period boundaries, or small spe in {4,6,8,16} x epp in {2,3,4,8}), "
         "40-160 ticks per case with skipped slots, clock skew (-1, +1, +spe+2), reorg(previous|current|both) and indices-change notices before/after ticks (boosted after the last "
         "slot of an epoch, 1% handled one tick late), per-fetch outcome ok (changing assignments, fresh content tags) / fail / no-active-indices in three failure regimes; "
         "each event is applied to the real handler and to the Lean model; distinct+non-trivial = (handler, network mode, event kind, sequence of fetch outcomes and non-empty dispatch)",
    trusted_base=["mock slot ticker / wall clock / beacon node / validator controller of the harness; barrier = a ReorgEvent{Previous:false,Current:false} passing through the handler's select loop",
                  "in small-network cases the slot/epoch/period arithmetic of the mocked BeaconNetwork mirrors beacon.Network with the two parameters replaced (real-network cases use the real beacon.Network)",
                  "the oracle's reading of 'fetched successfully': most recent fetch for the epoch/period succeeded and no fetch failed or was skipped since"],
    assumptions=["the slot ticker delivers strictly increasing slots (real slotticker: `nextSlot <= s.slot` guard)",
                 "ExecuteDuties (goroutine per duty, one-third-slot wait) hands every duty it is given to the executor exactly once — outside the model",
                 "the exactly-once clause speaks about ticks handled while the clock shows the tick's slot"],
)
