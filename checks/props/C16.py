"""C16 — each assigned beacon duty is dispatched exactly once, at its slot."""
CFG = dict(
    level="proof",
    design_ref="DESIGN.md §7.16, §8 item 8",
    level_text="PARTIAL (wall-clock tick timing, the ExecuteDuties goroutines and the one-third-slot wait are outside the model; ticker uniqueness is a hypothesis). "
               "Lean 4 theorems over the model of the attester / proposer / sync-committee handlers (code after fixes 1e0cc1057, f167f5eb9) and the duty store, for ALL networks "
               "(slots per epoch, epochs per period), initial clocks and ALL event lists (ticks, reorg(previous|current) notices, indices-change notices, every fetch paired with "
               "noIdx|fail|ok assignment), by induction: at most once (tick slots strictly increasing); only at the tick of its own slot and inside the shouldExecute window (no "
               "hypothesis); only the most recently fetched assignment (no hypothesis); exactly once if fetched, for all three handlers, whenever no tick is handled after an event "
               "that carries a later slot (notices may be handled arbitrarily late). Without that order condition the exactly-once statement is still refuted for the attester "
               "handler (a reorg(previous) notice of the next epoch handled before a pending tick): known finding, replayed on the real handler. The proposer handler's missing retry of a failed first fetch (fixed by f167f5eb9) is a regression lemma + theorem (a failed fetch-first tick is retried at the next tick). The four defects of the pre-fix "
               "tree are regression lemmas (old handlers fail / fixed handlers pass) and regression corpus cases.",
    level_note="Trusted: Lean kernel (axioms propext/Classical.choice/Quot.sound only), the go/ast fact extractor, the harness (mocks of slot ticker, wall clock, beacon node, "
               "validator controller; in small-network cases also of slots-per-epoch / epochs-per-period), its canonicalisation and its oracle. The handlers run in their own "
               "goroutine; determinism comes from a no-op reorg event used as a barrier, no sleeps.",
    technique="Lean 4 proof (inductive invariants over event lists; regression / refutation witnesses by `decide`) + regenerated constants / literal-operator lists / call-site and "
              "statement-presence facts + differential run of the real handlers against the model + implementation-side oracle",
    lean=["Ssv.Props.C16"],
    engines=[dict(harness="duties", driver="m_duties", case_delim="reset", n_quick=800, n_thorough=8000, thorough_seeds=4, n_search=6000, search_seeds=4),
             # real-time glue strata, no model: real slotticker read late / real proposer handler on it / real StartValidators with a slow set-up
             dict(harness="duties", driver=None, args=["-mode", "glue"], n_quick=48, n_thorough=600, thorough_seeds=2, n_search=200, search_seeds=2)],
    rule="seeded generator: handler kind (att 45% / prop 20% / sync 35%), network (real 32/256 near epoch and sync-period boundaries, or small spe in {4,6,8,16} x epp in {2,3,4,8}), "
         "40-160 ticks per case with skipped slots, clock skew (-1, +1, +spe+2), reorg(previous|current|both) and indices-change notices before/after ticks (boosted after the last "
         "slot of an epoch; 1% handled one tick late; 1% carrying a slot later than the next tick), scripted registries (own/foreign, liquidated, attesting / pending-queued / exited / slashed / unknown / no metadata, random order, changing before indices-change notices), per-fetch beacon answer ok (assignments change at every re-fetch: validators move "
         "between slots, fresh content tags) / fail in several failure regimes (no-active-indices comes from the real index functions); each event is applied to the real handler and to the Lean model; "
         "distinct+non-trivial = (handler, network mode, event kind, sequence of fetch outcomes and non-empty dispatch)",
    trusted_base=["the validator controller is the REAL one (AllActiveIndices / CommitteeActiveIndices over a real shares store + validators map, verif shim harness/inpkg/operator/validator); the shim decides which shares have a running validator as StartValidators/onShareStop do (own, not liquidated)",
                  "mock slot ticker / wall clock / beacon node of the harness (the beacon mock answers for the requested indices only); barrier = a ReorgEvent{Previous:false,Current:false} passing through the handler's select loop",
                  "in small-network cases the slot/epoch/period arithmetic of the mocked BeaconNetwork mirrors beacon.Network with the two parameters replaced (real-network cases use the real beacon.Network)",
                  "the oracle's reading of 'fetched successfully': the most recent SUCCESSFUL assignment of the epoch/period stays owed across later failed fetches, unless a reorg / indices-change notice declared it out of date and the re-fetch of that epoch/period failed (the Lean monitor is weaker: any failed fetch voids the obligations until the next success)"],
    explanation="second engine entry (mode glue): wall-clock strata with one-sided bounds only (a tick / dispatch must not come BEFORE the start of its slot; a waitForInitial fetch must not consult CommitteeActiveIndices before StartValidators finished) so load can never make them alarm",
    assumptions=["the slot ticker delivers strictly increasing slots (real slotticker: `nextSlot <= s.slot` guard)",
                 "exactly-once clause: the handler's select loop does not take a tick after a notice that carries a later slot (notices may be arbitrarily late)",
                 "ExecuteDuties (goroutine per duty, one-third-slot wait) hands every duty it is given to the executor exactly once — outside the model",
                 "the exactly-once clause speaks about ticks handled while the clock shows the tick's slot"],
)
