"""C09 — Message validation never accepts a message that breaks a gossip rule."""
CFG = dict(
    level="proof",
    design_ref="DESIGN.md §7.9",
    level_text="Lean 4 theorems over the executable model of validateSSVMessage / validateP2PMessage (same model as C08), for ALL decoded messages, signer states "
               "and receive times: accept implies, clause by clause, a known / non-liquidated / attesting validator on the right domain, the validator's topic and — "
               "once signed envelopes are active — a verified operator signature, strictly increasing non-zero committee-member signers, one signer unless a "
               "quorum-sized commit, the round-robin leader for proposals, full data hashing to the root for every type, duty-store membership for proposer / sync roles, "
               "well-placed decodable justifications, slot window [slot <= current <= slot+ttl] and round window [1, min(role max, estimate+1)] (the two window clauses "
               "for 12-s-slot networks and a local clock between genesis and 2242), per-signer monotone (slot, round); the per-signer limits (<= 1 proposal / prepare / "
               "commit / round change per signer per (slot, round), hence no second proposal) as an invariant over ALL histories of validation calls by induction; "
               "calls for different (validator, role) ids commute (verdicts and final state), which with the per-id mutex reduces every interleaving to a sequential order. "
               "PARTIAL-SIGNATURE messages: the FUTURE side of the slot window holds since repair 6c728adc1 (accepted => slot <= current slot; an accepted message "
               "never leaves the signer's entry beyond the receiver's current slot, so nobody can be muted; regression lemma on the pre-repair guard list); the LATE side "
               "of the window is NOT enforced by the code (full clause refuted in Lean with a concrete witness — a duty 1000 slots old is accepted —, reproduced on the "
               "real validator: known finding C09/partial-sig-late-slot-unchecked; harmless to the signer, it only lets stale messages through). ",
    level_note="Trusted: Lean kernel; the fact extractor; the harness' abstraction of real messages into op lines; RSA/BLS/SHA-256/SSZ as abstract inputs computed by the "
               "real functions; the model of Go time.Time and uint64 slot arithmetic (differentially validated).",
    technique="Lean 4 proof (accept-soundness clause by clause, trace invariant by induction over histories, commutation) + regenerated guard-order/limit facts "
              "+ differential run with single-rule-breaking mutations after every prefix of accepted honest traffic, independent rule oracle on the real objects",
    lean=["Ssv.Props.C09"],
    engines=[dict(harness="validation", driver="m_validation", args=["-mode", "c09"], case_delim="reset",
                  n_quick=80, n_thorough=2000, thorough_seeds=2, n_search=600, search_seeds=3),
             # thorough tier only: concurrent calls for the same / different ids under the Go race detector (the engine builds the
             # race-instrumented harness itself), sequential Lean model as linearizability oracle of the verdict multisets
             dict(harness="validationrace", driver="m_validation", case_delim=None, n_quick=0, n_thorough=150, thorough_seeds=2, n_search=0, search_seeds=0)],
    rule="honest traffic = spec-test-kit partial-signature messages + every broadcast of real multi-operator QBFT runs (n=4/7, every 10th case n=10/13; directed "
         "large-committee cases: all 10 / 13 operators active in one slot and round, then every per-signer limit again for early and late signers; five consensus roles, scenarios: happy, "
         "different start values, lost leaders (justified proposals rounds 2..12), prepared round changes with prepare justifications, shuffled delivery, one operator down, "
         "rounds up to the role maximum); per case: fresh real validator, a prefix of the honest trace (accepted), then up to six single-rule-breaking mutations of the next "
         "honest message (~95 mutation kinds: rounds, heights incl. +2^62 / 2^63 / max, signers, leader, full data, types, signatures, justifications, role, validator "
         "flavour, domain, sizes, receive times, envelope signatures, partial-signature fields), replays / equivocations after the honest message, older messages again, "
         "then the rest of the trace; every 7th case also through validateP2PMessage with real RSA envelopes and topics; oracle = independent re-evaluation of every rule "
         "on the real objects of each ACCEPTED message (exact big-integer arithmetic, own accepted-history bookkeeping)",
    trusted_base=["instance.IsProposalJustification is an abstract Boolean of the model (computed by the harness with the validator's own config)",
                  "model of go1.23 time.Time and beacon.Network slot arithmetic"],
    assumptions=["slot / round window clauses: 12-second slots, node clock between genesis and year 2242 (outside, the wrap-exact model is only differentially validated)",
                 "SHA-256 collision freedom (roots and full data are interned ids)"],
)
