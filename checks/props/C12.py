"""C12 — block event processing is atomic and exactly-once across crashes."""
CFG = dict(
    level="proof",
    design_ref="DESIGN.md §7.12, §8-7",
    level_text="Lean 4 theorems over ALL blocks, ALL start states between blocks and ALL write indices k: a crash or failing write in front of the k-th database write of a block "
               "(transactional write, key-manager write, decided-history cleanup, marker write, commit), restart on the surviving database and resumption from marker+1 ends exactly like "
               "the uninterrupted run - same completion, registry (shares, operators, recipients+nonces, marker, own operator id), decided history, and set of stored key shares (none twice) - "
               "for every position except the one between the account record and the wallet index of AddShare, for which the full statement is REFUTED (duplicate account record); the same for ANY SEQUENCE of such faults (C12_fault_sequence_partial); "
               "the registry part is atomic at every position (marker written through the block transaction); an inferior block is refused. The micro-step model is tied to the code on every "
               "run by regenerated call orders and by running the real EventHandler + ekm key manager + ibft store on Badger with a fault-injecting database/transaction/key-manager wrapper: "
               "the real write trace of every block equals the model's step list, and every write / key-manager call of generated blocks is used once as a crash and once as an error point.",
    level_note="Trusted: Lean kernel (axioms propext/Classical.choice/Quot.sound only), the go/ast fact extractor, the harness (fault-injecting wrappers, classification of raw keys into "
               "write kinds, canonical dumps). A crash is simulated by unwinding the handler at the chosen write and dropping every in-process object (most runs keep the in-memory Badger "
               "instance, some reopen an on-disk database); Badger transactions are assumed atomic and durable at Commit. Slashing-protection records (they depend on the wall clock) and "
               "tasks not yet executed when the process dies (e.g. a pending exit task) are outside the compared state.",
    technique="Lean 4 proof (run = registry evolution x wallet fold x history fold; last-call-decides absorption lemmas; case analysis of a cut inside one handler step) + regenerated "
              "call-site facts + differential run with fault injection against the Lean micro-step model + implementation-side oracle (final state after restart-and-resume = uninterrupted real run)",
    lean=["Ssv.Props.C12"],
    engines=[dict(harness="registry", driver="m_registry", args=["-mode", "c12"], case_delim="reset",
                  n_quick=4, n_thorough=40, thorough_seeds=3, n_search=6, search_seeds=2)],
    rule="seeded generator of validator life cycles (operators incl. the own key, add own / foreign validators, decided history, metadata, liquidate, reactivate, exit, remove, re-add, "
         "fee recipients, malformed adds) cut into blocks; for every block every real database write (incl. the slashing-protection writes inside key-manager calls) is used once as a crash "
         "point and once as an error point, every key-manager call once as an error point; each fault run: blocks before, faulted block, new process on the surviving database, resume from "
         "marker+1 to the end, compared with the uninterrupted real run and with the model; plus one in-process retry per block (measurement); empty (progress-only) blocks above / equal to / below the marker, followed - sometimes after a restart - by re-delivery of already processed blocks (all must be refused; marker never goes back); every 8th case is a LARGE block (130-400 cheap events: fee recipients, ValidatorAdded attempts that only bump the nonce, unknown topics) with crash/error points drawn over all its writes (first ones, around every 128th, random, last, marker write, commit). A case class is distinct per "
         "(fault kind, write kind hit, previous write kind) and per (block status, outcome string, write trace)",
    trusted_base=["fault-injecting basedb.Database / Txn / KeyManager wrappers and the mapping of raw database keys to the model's write kinds",
                  "Badger: a transaction is atomic and durable at Commit; uncommitted transaction writes vanish with the process",
                  "eth2-key-manager wallet code is modelled at the granularity of its two storage writes (account record, wallet index)"],
    assumptions=["reads do not fail (a failing OperatorsExist read would be swallowed as a malformed event)", "the fault-free run of the stream completes (no refused block, no log without topics); OperatorAdded ids are fresh and non-zero (needed for the restart to find the own operator id, see C11)"],
    explanation="KNOWN-FINDING: the fault position between account record and wallet index leaves a duplicate account record after resume (see known_findings/C12.json).",
)
