"""C15 — a duty height once started or decided is never run again, even after restart."""
CFG = dict(
    level="proof",
    design_ref="DESIGN.md §7.15, §8 item 5 (repaired: /repo 358626700, 26e2e6b00)",
    level_text="Lean 4 theorems about the model of the CURRENT tree (with the fixes 358626700 store `replaces` guard, 26e2e6b00 reloaded instance kept, "
               "c50569811 duty holding a decided value counts as previously decided), over ALL histories of duty starts (attester-style and two-phase "
               "begin/decide), commit/decided messages (any height, round, root, signer list, validity; via Controller.ProcessMsg or the runner's "
               "ProcessConsensus; optionally while the store fails the write), commit-quorum decisions of the running instance (value check accepting "
               "or rejecting), compactions and restarts (each in full or light mode), from a full or light node, any quorum, no bounds. ALL THREE clauses "
               "in full: (1) C15_no_restart_of_old_height: every consensus start (StartNewDuty of an attester-style runner, or decide of a two-phase "
               "runner) is for a slot strictly above every height started or learned decided since the last restart and above the stored highest at "
               "that restart, on full and light nodes; (2) a restart leaves the store untouched and resumes with the stored highest "
               "height/instance/highest-decided-slot, a height once stored as highest is never started again by any later history with any number of "
               "restarts, and (on histories without store-write failures) every valid decided message at or above the controller height, and every "
               "commit-quorum decision at the controller height whatever the value check says, IS the stored highest afterwards; (3) "
               "C15_highest_replaced_monotone, from ANY state and every op: the highest record and every historical record are never lost and only "
               "replaced by a higher height or, at the same height, by a certificate with more signers. The pre-fix semantics are kept "
               "(Model/HeightsOld.lean) with the three former refutation witnesses as regression lemmas (old: defect; current: closed). The model is tied "
               "to the code by regenerated constants / call-site / call-order / operator facts and by running the model and the real controller + runner "
               "+ Validator.Start + ibft/storage on Badger on the same histories (every step: controller height, container incl. commit containers, "
               "runner state, highest record, historical records). Key layer (Ssv/Props/C15Keys.lean): for ALL store prefixes, identifiers of one length and 64-bit heights no two (store, identifier, highest | height) entries share a database key, and CleanAllInstances removes exactly one identifier's entries; tied by engine `storekey` (real store on a real in-memory Badger DB behind a recording wrapper, read-back oracle).",
    level_note="Trusted: Lean kernel (axioms propext/Classical.choice/Quot.sound only), the go/ast fact extractor, the harness (message construction "
               "with the spec test kit, canonical rendering of real objects, the `ok` fact = real ValidateDecided/BaseMsgValidation verdict), the "
               "in-package shim harness/inpkg/protocol/v2/ssv/runner/zz_verif_heights.go (forwards to unexported baseStartNewDuty/decide/"
               "compactInstanceIfNeeded, reads highestDecidedSlot). Not modelled: single-signer commit processing inside a running instance "
               "(needs an accepted proposal; engine qbft), round timeouts, value checks (the harness uses valid attester consensus data), "
               "storage errors (Badger assumed atomic and durable), non-committee validators, CleanAllInstances other than at case boundaries.",
    technique="Lean 4 proof (invariants by induction over op histories; refutations by evaluation of concrete witnesses) + regenerated "
              "constants/call-site/operator facts + differential run against the real controller, runner, validator start-up and store",
    lean=["Ssv.Props.C15", "Ssv.Props.C15Keys"],
    engines=[dict(harness="heights", driver="m_heights", case_delim="reset", n_quick=110, n_thorough=1500, thorough_seeds=4,
                  n_search=1500, search_seeds=4),
             # key layer of the decided-instance store: real ibft/storage store on a real in-memory Badger DB behind a recording wrapper
             dict(harness="storekey", driver="m_storekey", case_delim="case", n_quick=4000, n_thorough=200000, thorough_seeds=2, n_search=20000, search_seeds=2)],
    rule="seeded generator of cases (reset = fresh store + new process, full or light): 6..28 random ops after an optional scripted opening "
         "(late decided message for a past height + restart + the height again; certificates of several rounds with compaction/restart in "
         "between); ops: start s | begin s | decide | decided h r root signers ok via [sf=1: the store fails the first Save* call of this op] | "
         "commits root vc (the running fresh instance decides through proposal + prepares + commits of operators 1..3 delivered to "
         "runner.ProcessConsensus, vc=0: the runner's value check rejects from the quorum-completing commit on) | compact h | restart full reopen, heights 0..12 "
         "drawn around the controller height (a quarter of the cases stays at heights 0/1), rounds 1..3, signer sets = the five quorums of 4 "
         "operators (9%: below quorum — one or two signers, taking the ordinary commit path; single commits can be accepted by an instance that decided through the commit exchange), 5% invalid signatures, 3% a second value at the same height, 40% of decided messages through "
         "runner.ProcessConsensus, 15-20% of restarts close and reopen the Badger DB; every op is applied to the real objects and to the "
         "Lean model; distinct+non-trivial = (op kind, outcome, node mode, relation of the height to the controller height, instance in "
         "memory / in history, signer count, round) classes computed by the harness",
    trusted_base=["key layer: Badger's key is modelled as prefix ++ key (storage/kv/txn.go) and an iterator prefix match as list-prefix; the model sees the (prefix, key) arguments through a recording wrapper around the real in-memory Badger DB; that the database itself keeps distinct keys apart and honours DeletePrefix is exercised by the read-back oracle, not verified",
                  "decided messages are built by aggregating real BLS commit signatures (spec testingutils, 4-operator key set); the model's `ok` input "
                  "is the verdict of the real Controller.BaseMsgValidation + controller.ValidateDecided on that message",
                  "two-phase duties (begin/decide) use the real baseStartNewDuty with executeDuty stubbed (the pre-consensus phase is external) and the "
                  "real BaseRunner.decide (in-package shim)",
                  "restart = Validator.Stop, new Controller/AttesterRunner/Validator over the same store (15-20%: Badger closed and reopened), real Validator.Start"],
    assumptions=["at most f faulty operators: two quorum certificates for different values at one height do not exist (such replacements are exercised "
                 "for the model/implementation tie but not judged by the oracle)",
                 "Badger transactions are atomic and durable; storage reads do not fail (a failed LoadHighestInstance is outside the model); a FAILED "
                 "write (op flag sf=1, flaky wrapper around the real store) is modelled: it must not weaken the in-process guarantee, but what was "
                 "not written cannot survive a restart (the 'top decided is stored' oracle clause is not judged for a height whose write was made to fail)",
                 "the decided value of height h carries duty slot h (ValidateDecided does not check the value)"],
)
