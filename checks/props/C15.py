"""C15 — a duty height once started or decided is never run again, even after restart."""
CFG = dict(
    level="proof",
    design_ref="DESIGN.md §7.15, §8 item 5",
    level_text="Lean 4 theorems over ALL histories of duty starts (attester-style and two-phase begin/decide), commit/decided "
               "messages (any height, round, root, signer list, validity; via Controller.ProcessMsg or via the runner's ProcessConsensus), "
               "compactions and restarts (each in full or light mode), from a full or light node, any quorum, no bounds: "
               "(clause 2) a restart leaves the store untouched and resumes with the stored highest height/instance/highest-decided-slot, and "
               "once a height is stored as highest NO later history (any number of restarts) starts consensus at or below it; "
               "(clause 3, partial) the highest record is never lost, its height never decreases, and a same-height replacement has strictly more "
               "signers than LongestUniqueSignersForRoundAndRoot finds in its own (round, root) bucket of the live instance, hence more than the "
               "replaced certificate when (round, root) agree and the round is not below State.Round; the FULL clause 3 is refuted in the model "
               "(other round; same round with trimmed bucket) and both witnesses reproduce on the real controller + real Badger store (known findings); "
               "(clause 1, partial) proved for light nodes, for attester-style starts of slots != 0 on every node, and as 'never BELOW a seen height' on "
               "every node; the FULL clause 1 is refuted for full nodes (instance reloaded from storage is not kept) and the witness reproduces on the "
               "real code (known finding). The model is tied to the code by regenerated constants / call-site / operator facts and by running the model "
               "and the real controller + runner + Validator.Start + ibft/storage on Badger on the same histories (every step: controller height, "
               "container incl. commit containers, runner state, highest record, historical records).",
    level_note="Trusted: Lean kernel (axioms propext/Classical.choice/Quot.sound only), the go/ast fact extractor, the harness (message construction "
               "with the spec test kit, canonical rendering of real objects, the `ok` fact = real ValidateDecided/BaseMsgValidation verdict), the "
               "in-package shim harness/inpkg/protocol/v2/ssv/runner/zz_verif_heights.go (forwards to unexported baseStartNewDuty/decide/"
               "compactInstanceIfNeeded, reads highestDecidedSlot). Not modelled: single-signer commit processing inside a running instance "
               "(needs an accepted proposal; engine qbft), round timeouts, value checks (the harness uses valid attester consensus data), "
               "storage errors (Badger assumed atomic and durable), non-committee validators, CleanAllInstances other than at case boundaries.",
    technique="Lean 4 proof (invariants by induction over op histories; refutations by evaluation of concrete witnesses) + regenerated "
              "constants/call-site/operator facts + differential run against the real controller, runner, validator start-up and store",
    lean=["Ssv.Props.C15"],
    engines=[dict(harness="heights", driver="m_heights", case_delim="reset", n_quick=110, n_thorough=1500, thorough_seeds=4,
                  n_search=1500, search_seeds=4)],
    rule="seeded generator of cases (reset = fresh store + new process, full or light): 6..28 random ops after an optional scripted opening "
         "(late decided message for a past height + restart + the height again; certificates of several rounds with compaction/restart in "
         "between); ops: start s | begin s | decide | decided h r root signers ok via [sf=1: the store fails the first Save* call of this op] | "
         "commits root vc (the running fresh instance decides through proposal + prepares + commits of operators 1..3 delivered to "
         "runner.ProcessConsensus, vc=0: the runner's value check rejects from the quorum-completing commit on) | compact h | restart full reopen, heights 0..12 "
         "drawn around the controller height (a quarter of the cases stays at heights 0/1), rounds 1..3, signer sets = the five quorums of 4 "
         "operators (4%: sub-quorum), 5% invalid signatures, 3% a second value at the same height, 40% of decided messages through "
         "runner.ProcessConsensus, 15-20% of restarts close and reopen the Badger DB; every op is applied to the real objects and to the "
         "Lean model; distinct+non-trivial = (op kind, outcome, node mode, relation of the height to the controller height, instance in "
         "memory / in history, signer count, round) classes computed by the harness",
    trusted_base=["decided messages are built by aggregating real BLS commit signatures (spec testingutils, 4-operator key set); the model's `ok` input "
                  "is the verdict of the real Controller.BaseMsgValidation + controller.ValidateDecided on that message",
                  "two-phase duties (begin/decide) use the real baseStartNewDuty with executeDuty stubbed (the pre-consensus phase is external) and the "
                  "real BaseRunner.decide (in-package shim)",
                  "restart = Validator.Stop, new Controller/AttesterRunner/Validator over the same store (15-20%: Badger closed and reopened), real Validator.Start"],
    assumptions=["at most f faulty operators: two quorum certificates for different values at one height do not exist (such replacements are exercised "
                 "for the model/implementation tie but not judged by the oracle)",
                 "Badger transactions are atomic and durable; storage reads do not fail (a failed LoadHighestInstance is outside the model); a FAILED "
                 "write (op flag sf=1, flaky wrapper around the real store) is modelled: it must not weaken the in-process guarantee, but what was "
                 "not written cannot survive a restart (the 'top decided is stored' oracle clause is not judged for a height whose write was made to fail)",
                 "the decided value of height h carries duty slot h (ValidateDecided does not check the value)"],
)
