"""C07 — consensus can still terminate."""
CFG = dict(
    level="proof",
    design_ref="DESIGN.md §7.7, §8-10",
    level_text="PARTIAL. Proved in Lean 4: (a) C07_timeout_progress(_ctrl) — for EVERY state before the cut-off a round timeout moves an undecided operator to the next "
               "round, clears the accepted proposal, re-arms the timer and broadcasts exactly one round-change for that round carrying the lock; stale timeouts are no-ops. "
               "(b) C07_fault_free_round1(_outputs) — GENERICALLY for any committee / quorum / height / leader / values (lemmas about k distinct prepares and commits "
               "reaching the quorum, not evaluation): in the synchronous fault-free schedule every operator decides the round-1 leader's value in round 1 and the schedule is "
               "closed (the messages fed are the messages emitted); instantiated for n∈{4,7,10,13} with the round-robin leader. "
               "(c) continuation from every reachable state is NOT proved and is FALSE on this tree: C07_mixed_locks_never_justify proves for all inputs that a round-change "
               "set holding locks on two different values justifies no proposal; the wedge state is reached and the constructed continuation refuted inside the model "
               "(C07_wedge_*) and on real controllers (known finding). Ssv/Props/C07Wedge.lean makes the refutation a theorem of the multi-node system SystemB: the wedge state is "
               "Reachable (33-step schedule) and in EVERY continuation in which the faulty member signs no commit and no round-change for a round >= 3 (a silent member is a "
               "special case) no correct operator ever decides, accepts a proposal or changes its lock (C07_wedge_forever, C07_continuation_refuted); only the faulty member "
               "can unlock it (C07_wedge_only_byzantine_unlocks). The harness checks the constructed continuation from hundreds of adversarial prefixes on real controllers.",
    level_note="Partial: no theorem that a deciding continuation exists from every reachable state (it does not: two known findings); the clause `from every reachable state` is REFUTED as a theorem (C07_continuation_refuted), not proved. Timeliness after the chosen point is an assumption of the oracle.",
    technique="Lean 4 proof (∀-state step lemma; generic induction over prepares/commits; mechanism lemma; evaluated multi-node witness) + real multi-node continuation check",
    lean=["Ssv.Props.C07", "Ssv.Props.C07Wedge"],
    engines=[dict(harness="qbft", driver="m_qbft", args=["-mode", "c07"], case_delim="reset",
                  n_quick=14000, n_thorough=200000, thorough_seeds=4, n_search=60000, search_seeds=3),
             # validator-level glue liveness (implementation-side oracle only, no model driver): n real validator.Validator objects wired by
             # operator/validator.SetupRunners, real queues + queue consumers, real RoundTimer (scaled), in-process timely network; see notes/C07_vglue.md
             dict(harness="vglue", driver=None, case_delim="case", n_quick=6, n_thorough=48, thorough_seeds=2, n_search=12, search_seeds=1)],
    rule="adversarial prefixes as for C01 (n=4,7; ≤ f Byzantine; drops, duplicates, reorderings, timeouts, compaction on/off, own-network faults; operators running ahead on their own "
         "timers and pulling others by f+1 announcements, lost round-change announcements; real rotating leader), then the Byzantine operators go silent and the constructed "
         "continuation runs on the real controllers: everything ever sent is delivered (the leader of a round receives its round-changes with the highest prepared one on the "
         "quorum edge); with own-network faults on, a firing round timer meets a failing Broadcast in 5/15/40 % of the expiries (error after or before sending in the prefix, after sending in the "
         "continuation) and the timeout-progress oracle still demands round+1, cleared proposal and a re-armed timer; TIMERS FIRE AS ARMED — only the one timer an operator armed last, with the height and round it was armed for (Controller.OnTimeout discards others; an "
         "operator without a live timer never times out); at most f+3 rounds. Step-level oracles on the real controller after every op of a correct operator: "
         "timeout-without-progress (every round up to the cut-off: round+1, accepted proposal cleared, timer re-armed, exactly one round-change carrying the lock), "
         "undecided-operator-without-live-round-timer, not-pulled-by-f+1-round-changes, correct-leaders-proposal-refused (a correct round-robin leader's proposal must be "
         "accepted by every correct undecided operator in a round ≤ its round). 10 directed scenarios first (incl. 14 timeouts up to the cut-off for n=4,7; pulled-then-own-timer; "
         "laggard that timed out once; future-round proposal reaching a laggard first); every correct operator's trace is diffed against the Lean model PRODUCTION-CONFIG share: in 25–35 % of the cases (and directed ones) the node objects are the ones a real node builds — operator/validator.SetupRunners(validator.Options{…, non-nil MessageValidator}) → attester runner → QBFTController, with the production ProposerF closure, SignatureVerification flag, ssv-spec AttesterValueCheckF, default domain (injected by SetDefaultDomain) and identifier; only Timer / Network / Storage are swapped for the recorders (harness/cmd/qbft/prodcfg.go; consensus values are valid attester ConsensusData).",
    trusted_base=["harness abstraction + scheduler + continuation (harness/cmd/qbft/simsearch.go, directed.go)", "BLS / SHA-256 abstracted"],
    assumptions=["timely delivery among correct operators after the chosen point; every message a correct operator ever sent is eventually delivered (drops = delays)"],
    explanation="KNOWN-FINDING lines: (1) wedge by mixed locks (spec-aligned justification predicate), (2) laggards with the runner's compaction (consequence of the C06 finding), (3) a lone laggard behind operators that decided through a received certificate (they neither time out nor re-broadcast it).",
)
