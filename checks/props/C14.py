"""C14 — the validator message queue neither loses nor duplicates messages."""
CFG = dict(
    level="proof",
    design_ref="DESIGN.md §7.14",
    lean=["Ssv.Props.C14"],
    engines=[dict(harness="queue", driver="m_queue", n_quick=1500, n_thorough=60000, thorough_seeds=4, n_search=8000,
                  case_delim="reset", args=["-concurrent"])],
    rule="seeded op sequences (4..30 ops + drain) over {tryPush, TryPop, blocking Pop with forced read/no-read, Len} on the REAL queue with real "
         "DecodedSSVMessages (events, consensus, partial signatures), capacities 1..32, the consumer's three filters + reject-all + id/height "
         "predicates, random prioritizer states; each op also runs on the Lean model; distinct+non-trivial = distinct "
         "(op, filter kind, nil/some, queue length class, running flag) keys; plus concurrent-producer cases (oracle only)",
    level_text="Lean 4 theorems for ALL queue contents, filters, prioritizer states and ALL sequences of atomic queue steps (= all interleavings of "
               "concurrent producers with the consumer): a pop removes exactly what it returns and nothing when it returns nil (multiset conservation "
               "over every history), returns only admitted messages, returns one whenever an admissible one is queued (pop, TryPop, blocking Pop), "
               "and the result is maximal for any total preorder; the standard prioritizer is proved to be a total preorder with duty-start > timeout > "
               "rest and current-height consensus before other heights; the remaining clauses of the order are proved one by one for every prioritizer state (current height/slot before every other for consensus AND partial-signature traffic, later before earlier, consensus > pre > post while an instance runs and pre > post > consensus otherwise, current round > later > earlier rounds, proposal > prepare > commit > round-change, decided first on other heights). The original pop is kept as a definition with two refutation witnesses "
               "(the repaired defect). Tie: differential run of the real queue against the model + implementation-side oracle.",
    level_note="Trusted: Lean kernel (propext/Classical.choice/Quot.sound only), harness (message construction, filters copied from ConsumeQueue, "
               "forced lastRead), Go channels as atomic FIFO, one consumer goroutine (as the queue documents).",
    technique="Lean 4 proof (invariant by induction over operation lists; selection lemma for the scan) + differential run against the real queue",
    trusted_base=["Go buffered channel = linearizable bounded FIFO; a send/receive is one atomic step",
                  "the three consumer filters are re-typed in the harness from Validator.ConsumeQueue"],
    assumptions=["pops are issued by a single goroutine (documented contract of the queue)"],
)
