"""C08 — No network input can crash message validation or decoding."""
CFG = dict(
    level="proof",
    design_ref="DESIGN.md §7.8",
    level_text="Lean 4 theorem C08_validate_never_panics: for ALL decoded messages with arbitrary field values (round 0 … 2^64-1, height 0 … 2^64-1, "
               "empty/oversize/unsorted signer lists, unknown types and roles, any justification lists), ALL per-signer states, ALL receive times and ALL stored "
               "shares with a non-empty committee, the modelled validateSSVMessage / validateP2PMessage pipeline (every Go panic site of the path is an explicit "
               "outcome of the model) returns accept/ignore/reject, never panic; supporting lemmas: every panicking switch (maxRound, partialSignatureTypeMatchesRole, "
               "the four MessageCounts switches, the signature array conversion) is dominated by its valid* guard, the round-robin leader index (kernel TRANSLATED "
               "from the Go source) lies in [0,n) whenever it is computed, size limits precede decoding; node-record entry decoders (network/records/entries.go, reached from every discovered peer's ENR): "
               "C08_domain_type_entry_total / C08_subnets_entry_total — for EVERY entry value (byte string of any length, non-string item) the outcome is an error "
               "or a value, never a panic (short domain type => error, >= 4 bytes => first four; subnets: always 128 entries), tie C08_tie_record_entry_decoders "
               "(length guard precedes the slice-to-array conversion), regression lemma on the pre-repair decoder (every string shorter than 4 bytes panics). BYTE LEVEL (Ssv/Props/C08Ssz.lean): the SSZ decoders that run on attacker bytes — the fastssz-generated UnmarshalSSZ of SSVMessage, qbft.Message, qbft.SignedMessage, "
               "PartialSignatureMessage(s), SignedPartialSignatureMessage and the fastssz helpers DecodeDynamicLength / UnmarshalDynamic / safeReadOffset / DivideInt2, "
               "modelled with EVERY Go slice expression and fixed-width read a partial operation that can panic — return a value or an error for EVERY byte string, never a panic "
               "(C08_ssz_*_never_panics, by induction over the dynamic-list loop for any claimed length and any offsets; UnmarshalDynamic alone DOES panic on a short source and is "
               "safe only behind DecodeDynamicLength: both halves proved); an accepted message obeys the size limits (<= 13 signers / justifications / partial signatures, 56-byte ids, "
               "item <= 65536, full data <= 5243144, data <= 6291829); round trips decode(encode m) = m for every well-formed SSVMessage, qbft.Message (three offsets, identifier, both dynamic justification lists), qbft.SignedMessage (signature, signers, embedded message, full data) and SignedPartialSignatureMessage; tied by the "
               "regenerated literal/operator lists of the generated decoders and helpers (C08_tie_ssz_*) and engine `ssz` (real commons.DecodeNetworkMsg / queue.DecodeSSVMessage / "
               "spec Decode vs model on valid encodings and targeted malformations, panic oracle). PARTIAL: the remaining byte-level decoders (JSON, base64, RLP, "
               "libp2p envelopes), hanging and unbounded allocation are not modelled; they are exercised by a malformed-byte stream (fuzzing) through "
               "ValidatePubsubMessage, DecodeSignedSSVMessage, DecodeNetworkMsg, DecodeSSVMessage, SignedNodeInfo/NodeInfo UnmarshalRecord+Consume, Subnets.FromString, "
               "each call under recover with a timeout and an allocation ceiling.",
    level_note="partial: decoders/hangs/allocation by fuzzing only. Trusted: Lean kernel, the fact extractor, the harness' abstraction of real messages into op lines "
               "(fields read through the real decoders), the model of Go time.Time / uint64 arithmetic (validated by the differential run incl. extreme clocks), "
               "share well-formedness (non-empty committee: guaranteed by the registry, property C11).",
    technique="Lean 4 proof over an executable model with explicit panic outcomes + regenerated guard-order / panic-inventory / literal facts and translated kernels "
              "+ differential run against the real validator + Lean model of the SSZ decoders with explicit slice-bounds panics (never-panics theorems for all byte strings) diffed against the real decoders + decoder fuzzing",
    lean=["Ssv.Props.C08", "Ssv.Props.C08Ssz"],
    engines=[dict(harness="validation", driver="m_validation", args=["-mode", "c08"], case_delim="reset",
                  n_quick=200, n_thorough=4000, thorough_seeds=2, n_search=600, search_seeds=3),
             # byte-level SSZ decoders of the validation path: the real decoders vs the Lean model of the generated code, panic oracle
             dict(harness="ssz", driver="m_ssz", n_quick=6000, n_thorough=120000, thorough_seeds=2, n_search=60000, search_seeds=2)],
    rule="per case: a fresh real validator, a prefix of honest messages captured from real multi-operator QBFT runs (accepted), then structurally valid consensus / "
         "partial-signature messages whose every field is drawn from extreme sets (0, 1, 2^31, 2^32, 2^62, 2^63-1, 2^63, 2^64-1, near-current), known / unknown / "
         "liquidated / metadata-less / exited / pending validators, invalid keys, all roles incl. invalid, clocks from 1969 to the int64 limit; direct kernel ops "
         "(currentEstimatedRound, validateSlotTime, maxDecidedCount, RoundRobinProposer incl. round 0); malformed byte stream (truncation, bit flips, offset/length "
         "word edits, splices, random, 1 MiB) over real encodings; node records: entry values for `domaintype` / `subnets` (byte strings of EVERY length 0..40, single bytes, integers, lists, non-canonical / "
         "truncated items, absent) put into a REAL signed enr.Record, sent through its wire encoding (rlp decode + signature check + enode.New as discv5 does), "
         "read by records.GetDomainTypeEntry / GetSubnetsEntry (outcome diffed against the Lean model of the decoders) and then run through the real "
         "discovery code for a discovered node (ToPeer, badNodeFilter, subnetFilter, sharedSubnetsFilter, checkPeer via shim) under the no-panic oracle; fuzz "
         "target enr-record (mutated wire bytes of whole records); full pubsub wrapper: the REAL ValidatePubsubMessage (wall clock, real metrics reporter, debug-level JSON logger, right topic) for QBFT / "
         "partial-signature / SSV message type values 0..8, 255, 256, 2^31, 2^32, 2^63, 2^64-1 x roles incl. invalid x {current slot, expired slot} x {unsigned, signed "
         "envelope}, so that Descriptor.Fields()/log/metric labels run on attacker-chosen values; operators 101..107 registered with non-RSA / garbage / empty keys "
         "(ECDSA and Ed25519 PKIX PEM, bad DER, CERTIFICATE block, non-PEM, empty, non-base64) and envelopes naming them through validateSSVMessage, "
         "validateP2PMessage and the wrapper; msg-id handler: real handler + Start loop + GC with a 150 ms ttl, oracle on its map through a shim (expired entries gone, "
         "live ones kept, bounded by one ttl period of traffic); metric series: 320 (thorough 4000) refused messages for a served validator with distinct rounds (incl. 2^40+i), unknown QBFT / SSV "
         "message type values and signer counts through the real wrapper, oracle = series counts of the real reporter's vectors (shim) grow by a constant only; "
         "resource stratum: ONE validator receives a stream (120 quick / 3000 thorough) of messages for ids the "
         "node does not serve — distinct well-formed unregistered BLS keys x 7 roles with the right domain, liquidated / metadata-less / exited validators, foreign "
         "domain, invalid roles, malformed keys, every 8th through the pubsub entry point — and, on EVERY call of every case, an oracle on the validator's internals "
         "(shim: sizes of validationLocks and of the consensus-state index before/after): a call for an unserved id leaves no per-id state "
         "(C08/unserved-id-leaves-per-id-state); distinct = (input kind, outcome tag, fresh/with-history); engine ssz: valid encodings of random SSVMessage / qbft.Message / SignedMessage / PartialSignatureMessage(s) / "
         "SignedPartialSignatureMessage values from the real MarshalSSZ (extreme integers, 0..13 justifications / signers / partial signatures, items at the 65536 limit), each then "
         "mutated (truncation at field boundaries, every offset word set to 0 / fixed-1 / fixed / size-1 / size / size+1 / +-1 / +4 / 2^31 / 2^32-1, inner offset-table words, "
         "offset words copied onto each other, bit flips, appends, splices, cuts, random and constant strings of critical lengths, 20 % doubly mutated), sizes exactly at and one beyond "
         "every limit (6291829 / 5243144 / 65536 bytes, 13 / 14 entries), decoded by the REAL commons.DecodeNetworkMsg / queue.DecodeSSVMessage / spec Decode and by the model; "
         "observation = err | every decoded field; encoder ops tie encodeSSV / encodeQMsg / encodeSPSig to the real Encode / MarshalSSZ; oracle: no decoder call panics (C08/ssz-decoder-panic:<target>)",
    trusted_base=["model of Go slice expressions / binary.LittleEndian reads in Ssv/Model/Ssz.lean (bounds checked against len; Go checks cap >= len) and the hand transcription of the generated decoders (pinned by literal lists + differential run)",
                  "model of go1.23 time.Time (Unix/Add/Sub/Before/After with int64 wrap and saturation) and beacon.Network slot arithmetic (uint64 wrap)",
                  "instance.IsProposalJustification, SSZ/JSON decoding, BLS key deserialisation, RSA verification are abstract inputs computed by the harness from the real functions"],
    assumptions=["stored shares have a non-empty committee of fewer than 2^31 operators (registry invariant, C11)",
                 "network constants: slot duration >= 2 s, slots per epoch > 0 (compile-time configuration)"],
)
