"""C05 — only validly threshold-signed duty objects reach the beacon node, once."""
CFG = dict(
    level="proof",
    design_ref="DESIGN.md §7.5, §8 item 6",
    level_text="Lean 4 theorems over ALL message sequences (any signers, roots, share qualities, order, length) delivered to a duty runner in its "
               "partial-signature collection phase. Safety, for every runner (attester, proposer, aggregator, sync-committee message and contribution, "
               "voluntary exit, validator registration): every Submit* carries a signature reconstructed from >= Share.Quorum shares that are ALL correct, "
               "over an expected root of the decided value (verify-before-use), and no root is submitted twice. Liveness, for the single-root runners "
               "(attester, proposer, voluntary exit, validator registration — the ones C05 anchors — and aggregator, sync-committee message), committee "
               "sizes 4/7/10/13 through the quorum kernel translated from the Go source: once 2f+1 distinct members have delivered a correct share the "
               "object has been submitted exactly once, whatever else arrived in whatever order (proved without needing the <= f bound). For the multi-root "
               "contribution runner the liveness statement is REFUTED (Lean witness + reproduced on the real runner: known finding). The model is tied to "
               "the code on every run by regenerated call-site facts, the translated quorum kernel, and by running model and REAL runners (real QBFT "
               "controller, real BLS threshold shares, real ReconstructSignature) on the same generated message sequences, comparing submissions, Finished "
               "and the full container content after every message.",
    level_note="Trusted: Lean kernel (axioms propext/Classical.choice/Quot.sound only), the go/ast fact extractor and kernel translator, the harness "
               "(share quality = result of real BLS verification; mocks of beacon node, network and key manager), the threshold-BLS assumption "
               "(reconstruction over the stored shares succeeds iff all are correct and >= threshold), SSZ codecs. The beacon node mock accepts every submission.",
    technique="Lean 4 proof (trace invariants by induction over message lists; refutation by a decided concrete witness) + regenerated call-site facts "
              "and translated quorum kernel + differential run against the real runners with real BLS + implementation-side oracle with real signature verification + probe arbids: 60 quick / 400 thorough committees split at arbitrary operator ids on the real voluntary-exit runner (oracle only)",
    lean=["Ssv.Props.C05"],
    engines=[dict(harness="partialsig", driver="m_partialsig", case_delim="reset", n_quick=300, n_thorough=4000, thorough_seeds=4, n_search=1500, search_seeds=3)],
    rule="committee sizes 4/7/10/13 (spec test key sets = real threshold shares); all 8 runner flavours; per case a fresh REAL runner is driven through "
         "its real pre-consensus phase and a real decided message, then receives a shuffled sequence of partial-signature messages: correct shares, "
         "replays, and <= f (8% of cases: more) faulty members sending wrong-key / wrong-root-signed / zero / non-point / infinity shares on all or some "
         "roots, replaced shares, permuted roots, wrong slot, inconsistent inner signer, wrong root count, unexpected or duplicate roots, signer 0, "
         "non-member; messages before the decision; late traffic after Finished; in 35% of the cases two or three CONSECUTIVE duties on the same runner object "
         "(same epoch, next epoch, two epochs later; a passed slot is refused), each with its own traffic, so that anything cached across duties "
         "shows; every Submit* signature is verified over EXACTLY the object handed to the beacon mock and that object must belong to the current duty; "
         "an implementation-side probe runs the voluntary-exit runner with a failing own broadcast. Systematic block: n=4, one faulty member, EVERY arrival order "
         "(5! orders x 6 duty/bad-root configurations). A case class is distinct per (runner, n, outcome, share-quality class, #entries).",
    trusted_base=["the model-diffed correspondence run uses committees whose operator ids are 1..n (key sets of the spec test kit); committees split at ARBITRARY operator ids are covered by the oracle-only probe `arbids` on the real voluntary-exit runner (membership, liveness, signature), not by the model diff (campaign V, V-m03)",
                  "threshold BLS: Lagrange recovery over the stored shares followed by verification under the validator key succeeds iff every stored share "
                  "is correct and there are at least Share.Quorum of them (exercised with real BLS by the differential run; cancelling wrong shares are not generated)",
                  "partial signatures are 96 bytes (SSZ decoding guarantees it before the runner sees them)",
                  "mocks: recording beacon node that accepts every submission, recording network, spec test key manager"],
    assumptions=["threshold BLS signatures: shares of <= f members cannot be combined into a valid signature; a set of shares reconstructs the valid signature iff all are correct and there are >= 2f+1",
                 "message signer identity is authentic (operator signatures are verified by message validation before the runner)",
                 "the beacon node accepts the submission"],
)
