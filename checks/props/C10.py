"""C10 — Messages produced by correct operators are never rejected by correct peers."""
CFG = dict(
    level="proof",
    design_ref="DESIGN.md §7.10",
    level_text="PARTIAL. Lean 4 theorems over the validation model: every message that has the emission guarantees listed in `HonestConsensus` / `HonestPartial` "
               "(single own signer or strictly increasing quorum-sized aggregate of committee members, leader-only proposals, root = hash(full data), valid enums and "
               "role, round >= 1, decodable and correctly placed justifications satisfying the predicate the validator itself calls, well-formed signatures, payload "
               "within the size limits) is, for EVERY peer clock and every fresh-or-consistent peer state, classified accept or ignore — never reject, never a panic; "
               "a fresh peer that knows the validator accepts it inside the slot/round window; arithmetic theorem: a round-r message sent at or after the real round "
               "timer's deadline for round r-1 (regenerated QuickTimeoutThreshold/QuickTimeout/SlowTimeout, any non-negative base delay) is estimated at round >= r by "
               "currentEstimatedRound and passes the validator's round window. Ssv/Props/C10Emission.lean DISCHARGES the emission guarantees from the executable QBFT node model (translation toValidationMsg): "
               "C10_node_emissions_not_rejected — every message (.bcast or decided broadcast) emitted by a correct operator in any reachable state of the multi-node system, "
               "validated by a consistent peer at any receive time, is never reject and never a panic; single own signer, identifier, valid type, round >= 1, root = hash, "
               "leader-only proposals (the node's and the validator's round-robin models proved equal incl. int64 wrap), justified proposals pass the very "
               "isProposalJustification the validator calls, prepare/commit roots, round-change lock data, decided aggregates sorted with >= quorum distinct committee "
               "signers, and at most one prepare/commit per round per operator are all derived. Remaining explicit hypotheses: TimelyAction (a round-change quorum is "
               "completed in its own round — the property's timing assumption; WITHOUT it the statement is refuted by a concrete all-correct 4-operator schedule, "
               "C10_untimed_emissions_not_rejected_full_refuted: a leader still one round behind emits a proposal for its current round justified for a later one and "
               "is rejected SignerNotLeader), GatedAction (stored commits carry no justification fields), EnvelopeOk, ShareMatches, PeerConsistent. Also checked "
               "empirically on every message emitted by real multi-operator runs.",
    level_note="partial: the timing assumption (TimelyAction) and the envelope/share/peer-consistency side conditions are hypotheses; the peer's duty store is assumed "
               "to know the proposer duty (DESIGN §9). Trusted: as C09.",
    technique="Lean 4 proof (reject-freeness of every guard under the emission predicate; timer/round-window arithmetic) + real multi-operator QBFT runs whose "
              "every broadcast is validated by a fresh real validator in emission order",
    lean=["Ssv.Props.C10", "Ssv.Props.C10Emission"],
    engines=[dict(harness="validation", driver="m_validation", args=["-mode", "c10"], case_delim="reset",
                  n_quick=700, n_thorough=15000, thorough_seeds=2, n_search=2500, search_seeds=3)],
    rule="real runs: n real QBFT controllers (n=4, every 4th run n=7) with real BLS share keys and signature verification, all five consensus roles + registration/exit "
         "partial signatures, scenarios happy / different start values / lost round-1(-2) leaders / prepared round changes / shuffled delivery / one operator down / "
         "no proposal ever (rounds up to the role maximum + 1), rounds advanced by the real Controller.OnTimeout at the real RoundTimeout deadlines; every broadcast "
         "(proposals with round-change and prepare justifications, round changes with justifications, prepares, commits, decided aggregates) plus the spec-test-kit "
         "pre/post-consensus partial-signature messages is fed in emission order to ONE fresh real validator at receive offsets 0 / 0.3 s / 1.5 s; oracle: verdict "
         "reject => violation; in the happy scenarios at offset 0: anything but accept => violation; every call is also diffed against the Lean model; "
         "duty-handler runs in two variants: the validating node is / is NOT a member of the validator's committee (real handlers store the duties with "
         "inCommittee = true / false; the store contents are announced to the model from the raw maps through a shim); steady schedules: the SAME peer sees the same (validator, role, every signer) perform complete real duties over 6 (thorough: 9, n=4 and 7) consecutive "
         "epochs, one duty per epoch at a slot moving inside the epoch and a variant with two duties in every other epoch, for the duty-count-limited roles "
         "(attester, aggregator, validator registration, voluntary exit): every message must be accepted",
    trusted_base=["the simulated network loops every broadcast back to its sender and delivers FIFO (or shuffled) — a mock of libp2p pubsub",
                  "logical send times follow the real RoundTimeout rule (base 1/3, 2/3 of the slot, 0 for the proposer)"],
    assumptions=["timing: messages of round r are sent at or after the round r-1 timer fired; the instance starts at or after the slot start",
                 "the peer's duty store contains the validator's proposer duty / sync-committee duty"],
)
