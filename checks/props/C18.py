"""C18 — topics, envelope, subnet bitmap."""
CFG = dict(
    level="proof",
    design_ref="DESIGN.md §7.18",
    level_text="Lean 4 theorems, for ALL byte lists: subnet = key[4] mod 128 within [0,128) for keys of >= 5 bytes; short keys -> 'unknown' on all sides; "
               "publish topic = subscribe topic and the validator-side rule accepts exactly it and rejects every other advertised topic; "
               "envelope decode(encode(m,id,sig)) = (m,id,sig) for every payload, 64-bit id and 256-byte signature, short input refused; "
               "the 128-entry 0/1 subnet vector survives its string encoding; SharedSubnets(a,b,maxLen) is sound (only indices set on both sides), strictly increasing, inside [0,128) for a 128-entry own vector, complete when the limit is 0/negative/not reached, and respects a positive limit; DiffSubnets(a,b) holds exactly the entries of b that a lacks. The model is tied to the code on every run by regenerated "
               "constants/call-site facts and by running model and real functions (incl. the real p2pNetwork.Broadcast/Subscribe and "
               "validateP2PMessage) on the same generated inputs.",
    level_note="Trusted: Lean kernel (axioms propext/Classical.choice/Quot.sound only), the go/ast fact extractor, the harness and its canonicalisation, "
               "the hand-written models of encoding/hex, strconv.ParseUint, strings.Replace, fmt %d and go-bitfield (validated only by the differential run); "
               "libp2p pubsub is outside the model.",
    technique="Lean 4 proof (algebraic laws/round-trips over List Nat) + regenerated constants/call-site facts + differential run against the real functions",
    lean=["Ssv.Props.C18"],
    engines=[dict(harness="topics", driver="m_topics", n_quick=30000, n_thorough=1500000, thorough_seeds=4, n_search=300000)],
    rule="seeded generator over keys (len 0..60, edge bytes), Go strings (hex/non-hex/0x), payloads, ids, signatures (0..600 bytes), "
         "subnet vectors (len 0..200, values 0/1/other), pairs of vectors with limits {0,1,2,5,20,128,500,-1} for SharedSubnets/DiffSubnets/Active (model-independent soundness/completeness/limit/patch oracles); each op is run on the real function and on the Lean model; a case is "
         "distinct+non-trivial per (op kind, length class, outcome class) key computed by the harness; `vstart` drives the real "
         "validator.Validator.Start (production subscription path: NewValidator + duty runner + real p2pNetwork.Subscribe) and the oracle demands "
         "that the topics it subscribes equal the topics the real Broadcast publishes on for that validator and role",
    trusted_base=["model of encoding/hex, strconv.ParseUint, strings.Replace, fmt %d, go-bitfield Bitvector128 (exercised by the differential run, not verified)",
                  "topicsCtrl applies GetTopicFullName to the name it is handed (regenerated call-site fact, harness applies the real function)"],
    assumptions=["libp2p pubsub delivers on the topic name it is given"],
)
