"""C11 — registry state is a deterministic function of the contract event log."""
CFG = dict(
    level="proof",
    design_ref="DESIGN.md §7.11, §8-7",
    level_text="Lean 4 theorems over ALL event lists (eight event kinds, valid and malformed, arbitrary crypto facts) and ALL batchings: "
               "batching independence of the whole node state (database, memory, wallet, decided history) - proved for histories whose OperatorAdded ids are fresh and "
               "non-zero, REFUTED without that hypothesis (SaveOperatorData reads outside the block transaction); the nonce equals the start value plus the number of the owner's "
               "ValidatorAdded events mod 2^16 (bumped before validation); every stored share has an add event that passed every check against the state THEN and was not "
               "removed since; an own share implies a decryptable matching key; only the owner removes / exits; after every processed run memory = database and "
               "load(persist s) = s (restart clause REFUTED for operator id 0 / duplicate ids, proved otherwise). The model is tied to the code on every run by regenerated "
               "constants / call orders and by running the real EventHandler + node storage + key manager on Badger against the model on the same generated histories.",
    level_note="Trusted: Lean kernel (axioms propext/Classical.choice/Quot.sound only), the go/ast fact extractor, the harness (ABI packing of logs, interning, canonical dumps of "
               "getters and of a freshly opened storage). Cryptography is abstracted to facts computed by the real code in the harness (verifySignature, RSA decrypt, BLS key "
               "derivation); keccak/BLS/RSA themselves, gob/JSON codecs and Badger are not modelled. The guard ORDER among the checks after the nonce bump is tied by call-site "
               "facts only (every such failure has the same observable effect).",
    technique="Lean 4 proof (invariants by induction over runs, simulation against a batching-free reference run) + regenerated constants/call-site facts + "
              "differential run of the real EventHandler against the Lean model + implementation-side oracles (two batchings, restart, memory vs database, nonce count, valid add is registered, stored committee pairs ids and share keys as emitted)",
    lean=["Ssv.Props.C11"],
    engines=[dict(harness="registry", driver="m_registry", args=["-mode", "c11"], case_delim="reset",
                  n_quick=120, n_thorough=3000, thorough_seeds=2, n_search=400, search_seeds=3)],
    rule="seeded generator of event histories (OperatorAdded/Removed, ValidatorAdded/Removed/Exited, ClusterLiquidated/Reactivated, FeeRecipientUpdated, unparsable, unknown "
         "topic, no topics; ValidatorAdded in 14 single-fact malformed variants; committees of 4/7/10/13; own operator in/out of the committee; nonce near the uint16 wrap; "
         "metadata / decided history / restarts between blocks; inferior blocks incl. EMPTY ones below / at the marker followed by re-delivery of processed blocks; in ~40% of the cases one crash or failing storage write at any write made while a block is processed - transactional or with a nil transaction, before or after the commit, biased to the last writes - followed by restart and re-delivery from the stored marker+1), each history run under two independently drawn batchings on the real handler and on the "
         "model; a case class is distinct per (block status, per-event outcome string, write trace)",
    trusted_base=["harness realisation of abstract events as ABI-packed logs and recomputation of every fact with the real code (verifySignature, operator decrypter, BLS)",
                  "phase0.SignatureLength = 96 and PublicKeyLength = 48 are typed into the model (go-eth2-client is outside the extractor's roots); the differential run exercises them",
                  "Badger transactions are atomic; keccak256/BLS/RSA are functions (same input, same verdict)"],
    assumptions=["no storage read fails (a failing OperatorsExist read would be classified as a malformed event by validateOperators)",
                 "events are delivered in log order, one BlockLogs per block number"],
    explanation="KNOWN-FINDING lines: inputs the contract itself never emits (duplicate operator id inside one block, operator id 0) make the result batching- or restart-dependent; "
                "the Lean side carries the full statements as refuted propositions and the proved partial theorems (hypothesis OpAddsWF).",
)
