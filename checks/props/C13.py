"""C13 — every finalized-enough block's events are delivered once, in order."""
CFG = dict(
    level="proof",
    design_ref="DESIGN.md §7.13, §8 item 4",
    level_text="Lean 4 theorems about an executable model of PackLogs / fetchLogsInBatches / streamLogsToChan / StreamLogs / "
               "FetchHistoricalLogs / SyncHistory and the node's hand-over, for EVERY chain (block -> logs with removed flags), batch size >= 1, "
               "follow distance, start block and EVERY fault script over {head n, subscription error, connection drop, k-th eth_getLogs fails, "
               "eth_subscribe fails} of any length: by induction over the script with the cursor invariant 'everything in [start, cursor) has been "
               "delivered exactly once with exactly its non-removed logs in order, nothing at or above the cursor, block numbers strictly increasing' "
               "(markers of empty batches included: they name blocks without non-removed logs); every head that arrives while the client is alive and "
               "no fetch failure is armed moves the cursor past head - followDistance for good, so every block of [start, head - follow] with "
               "non-removed logs then has exactly one entry; the client gives up (logger.Fatal) only on the third failure in a row, never with <= 2 faults; "
               "historical sync then stream from lastProcessedBlock + 1 is gap-free and duplicate-free and the event handler's monotonicity check accepts it. "
               "The cursor handling before fix e592c25d6 is kept as a second model and proved to violate the same statement on a 3-event script. "
               "Tied to /repo on every run by regenerated constants, call-site facts, statement-occurrence facts and literal/operator lists of the modelled "
               "functions, and by running the real ExecutionClient/EventSyncer over a real websocket against an in-process fake execution node with "
               "fault injection and diffing every observation with the model.",
    level_note="Trusted: Lean kernel (axioms propext/Classical.choice/Quot.sound only), the fact extractor, the harness (fake node, synchronisation, "
               "canonicalisation, oracle). Modelled, not verified: go-ethereum ethclient/rpc (trusted to deliver answers, notifications and errors; "
               "a request whose connection dies between its write and the client's bookkeeping never completes in go-ethereum 1.13.5 and FilterLogs "
               "is called without deadline - the harness avoids that window with a barrier request), sort.Slice as a stable sort on the node's "
               "already ordered answer, goroutines/channels of the fetch pipeline sequentialised as the code's range-then-error order dictates, uint64 as Nat.",
    technique="Lean 4 proof (induction over fault scripts with an explicit cursor invariant; refutation of the pre-fix cursor handling) + regenerated "
              "facts + differential run of the real client against a fault-injecting fake node + probe nodewire: 6 quick / 30 thorough restarts through the REAL cli/operator setupEventHandling with a wire-level oracle on the fake node's request log (oracle only)",
    lean=["Ssv.Props.C13"],
    engines=[dict(harness="logstream", driver="m_logstream", case_delim="reset", n_quick=400, n_thorough=15000, thorough_seeds=4,
                  n_search=1500, search_seeds=3)],
    rule="one case = fresh fake node + real ExecutionClient (batch 1..8, follow 0..8, start 0..1000, log density 0..100%, removed share 0..100%, "
         "blocks with > 12 logs sharing sort keys), optionally a historical sync first (head below/at/above follow distance, eth_blockNumber "
         "failure, k-th batch failing), then 3..15 script events drawn from the state reached (heads stale / below follow / advancing by 0..3 "
         "batches+1, live-subscription error, idle connection drop, k-th eth_getLogs failing by RPC error (generic text or a node's response-too-large text) or by dropped connection, eth_subscribe "
         "failure), usually closed by an undisturbed head; every event line is executed on the real client and on the model and the FilterLogs "
         "call list / re-subscribe count / give-up flag per event and the full delivered sequence (block, log ids) per case are compared; a case "
         "class is distinct per (event kind, outcome, #batches, armed/after-fault flags, re-subscribe count, markers/removed/aborted/historical flags)",
    trusted_base=["the model-diffed cases execute the hand-over between historical and ongoing sync through the harness' own transcription of cli/operator setupEventHandling; the REAL setupEventHandling (real event handler, event syncer, node storage) is covered by the oracle-only probe `nodewire` with a wire-level oracle (the block after the last processed one is requested, no processed block is requested again) on a chain without registry logs (campaign V, V-m10)",
                  "go-ethereum ethclient/rpc client and server (real code, exercised over a real websocket; not modelled)",
                  "fake execution node: scripted immutable chain below head - followDistance, eth_getLogs answers in block order",
                  "harness mirrors cli/operator/node.go's hand-over `SyncOngoing(lastProcessedBlock + 1)` (pinned by a statement-occurrence fact on setupEventHandling) "
                  "and mocks eth/eventhandler by its block-number monotonicity check",
                  "statement-occurrence (`has`) and operator-list (`lits`) facts pin the statements the model relies on; statements added without operators are left to the differential run"],
    assumptions=["no reorg at or below head - followDistance (the node's answer for a block never changes)",
                 "the node lists each block's logs in transaction order (eth_getLogs order); PackLogs' sort is then the identity",
                 "logBatchSize >= 1 (0 makes the Go loop spin forever; default 5000)",
                 "block numbers stay below 2^64; the execution node is reachable again within the reconnection budget (otherwise reconnect panics)",
                 "completeness is stated for heads that arrive while the client is alive and no fetch failure is pending; after logger.Fatal the process exits and the node restarts from the stored block"],
)
