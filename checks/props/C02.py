"""C02 — every reported decision is backed by a verifiable quorum certificate."""
CFG = dict(
    level="proof",
    design_ref="DESIGN.md §7.2",
    level_text="Lean 4 theorems over ALL controller histories (any interleaving of starts, valid/forged messages of any type and height, timeouts, "
               "compactions; no bound): whatever the controller reports as decided — returned decided message, decided broadcast, stored instance, "
               "notification — is a commit whose aggregate verifies, with pairwise distinct non-zero committee signers, at least a quorum of them, "
               "H(fullData)=root, for this identifier (C02_reported_decision_has_valid_certificate); a locally reached first decision is for the proposal "
               "the instance accepted from the leader of its round, whose value passed the value check, in the round of the commits "
               "(C02_local_decision_for_leaders_proposal); one lemma per forged-certificate class (duplicate / zero / foreign signer, "
               "sub-quorum, bad aggregate signature, value≠root, wrong identifier, non-commit, other height) shows the controller state is unchanged "
               "and nothing is emitted. Quorum = 2f+1 of 3f+1 is proved from the kernel translated from ComputeQuorumAndPartialQuorum. Glue: engine `vglue -mode ncv` drives the real NonCommitteeValidator (production constructor, exporter / non-exporter, full / light) with genuine and forged decided messages; everything it reports or stores is re-verified from scratch (oracle only, outside the model).",
    level_note="Trusted: Lean kernel (axioms propext/Classical.choice/Quot.sound only), fact extractor, harness abstraction (sigOk = result of the real "
               "VerifyByOperators). The model is tied to the code by regenerated call-order facts and by the differential run of the real controller + real "
               "QBFTStore against the model on a forged-certificate stream, on which the implementation-side oracle re-verifies every reported certificate "
               "with the real VerifyByOperators. Light node (no reload from storage).",
    technique="Lean 4 proof (container invariant by induction over op lists) + regenerated facts + differential execution + re-verification oracle",
    lean=["Ssv.Props.C02"],
    engines=[dict(harness="qbft", driver="m_qbft", args=["-mode", "c02"], case_delim="reset",
                  n_quick=20000, n_thorough=250000, thorough_seeds=4, n_search=80000, search_seeds=3),
             # glue (implementation-side oracle only): the REAL NonCommitteeValidator (production constructor, exporter / non-exporter, full / light)
             # fed genuine and forged decided messages; everything it reports or stores must re-verify as a quorum certificate (seeded change W-m03)
             dict(harness="vglue", driver=None, args=["-mode", "ncv"], case_delim="ncase", n_quick=60, n_thorough=2000, thorough_seeds=2,
                  n_search=400, search_seeds=2)],
    rule="real controllers (n=4,7) brought to a random point of honest or forged-Byzantine traffic, then a stream of forged certificates: every single-field "
         "mutation of real aggregated commits (signer list edits: drop/duplicate/swap/foreign/zero/reorder/all; re-aggregation with a wrong or foreign key; "
         "full data / root / round / height / identifier / type / data round / justifications, re-signed or not; signature flips), then the rest of the traffic "
         "with more forgeries interleaved; a quarter of the forgeries RE-USE signature and signer list of a genuine certificate that was delivered (and verified by the node) "
         "just before, on another height / round / value / root / full data / type; 8 % of the cases (and 6 directed ones) are histories towards a LOCAL decision: a fully justified "
         "future-round proposal signed by the leader of the operator's CURRENT round (or another non-leader) followed by prepare and commit quorums, and a value this operator's "
         "value check rejects re-proposed with a valid prepared justification of the other operators, followed by prepare and commit quorums (real RoundRobinProposer); "
         "with and without the runner's compaction; each op on real code and on the Lean model. The oracle (and `sig` on the op lines) uses the cache-free reference verifier of "
         "ssv-spec, NOT the node's VerifyByOperators, which is code under test PRODUCTION-CONFIG share: in 25–35 % of the cases (and directed ones) the node objects are the ones a real node builds — operator/validator.SetupRunners(validator.Options{…, non-nil MessageValidator}) → attester runner → QBFTController, with the production ProposerF closure, SignatureVerification flag, ssv-spec AttesterValueCheckF, default domain (injected by SetDefaultDomain) and identifier; only Timer / Network / Storage are swapped for the recorders (harness/cmd/qbft/prodcfg.go; consensus values are valid attester ConsensusData).",
    trusted_base=["engine vglue -mode ncv: the oracle re-verifies certificates with herumi BLS FastAggregateVerify over spectypes.ComputeSigningRoot (not with the node's own verifier); it is outside the Lean model (glue coverage only)",
                  "harness abstraction (sigOk computed by ssv-spec types.Signature.VerifyByOperators — the reference verifier, independent of the node's copy; roots/values interned)", "BLS / SHA-256 abstracted"],
    assumptions=["light node (fullNode=false): instances are not reloaded from storage", "the configured value check rejects the empty value"],
)
