"""C06 — node QBFT instance = reference spec; compaction transparent."""
CFG = dict(
    level="proof",
    design_ref="DESIGN.md §7.6, §8-3",
    level_text="Compaction clause: Lean 4 theorem C06_compaction_sim_partial — for ALL configurations, instance states and op sequences (any messages, "
               "timeouts, force-stops, compaction interleaved anywhere) compaction of UNDECIDED instances changes no output; the full clause is kept as "
               "C06_compaction_full and REFUTED (C06_compaction_full_refuted: second proposal accepted after a round-lowering decided message + runner "
               "compaction; DecidedValue flips), the witness is replayed on the real controller on every run (known finding). "
               "Equality clause: translation validation, not a theorem — regenerated call-order facts of every instance function of the node equal those of "
               "ssv-spec v0.3.7 (C06_tie_port) and a three-way differential run: real node instance vs Lean model vs real ssv-spec instance on the same "
               "generated inputs (accept/reject with guard tag, encoded broadcasts, timer calls, decision, aggregate signers, State.GetRoot()).",
    level_note="Trusted: Lean kernel (axioms propext/Classical.choice/Quot.sound only), the fact extractor, the harness' abstraction of real signed messages into "
               "op lines (sigOk = result of the real VerifyByOperators, roots/values/messages interned), crypto abstracted (BLS, SHA-256). The Lean model is tied to "
               "the code by the differential run on every guard tag, n=4 and n=7. CutoffRound is a Go `var`: the harness passes its runtime value to the model "
               "(reset line) and the source of CanProcessMessages is fingerprinted.",
    technique="Lean 4 proof (simulation relation over op lists) + refutation witness + regenerated call-site facts + three-way differential execution",
    lean=["Ssv.Props.C06"],
    engines=[dict(harness="qbft", driver="m_qbft", args=["-mode", "c06"], case_delim="reset",
                  n_quick=30000, n_thorough=240000, thorough_seeds=4, n_search=100000, search_seeds=3)],
    rule="honest traffic produced by RUNNING n real controllers (n=4,7; 7 network scenarios) and forged Byzantine traffic with real signatures, replayed to a real "
         "instance / controller with every single-field mutation (type, height, round, root, signers, signature, justifications incl. nested, full data, identifier, "
         "data round; re-signed or not), duplicates, reorderings, drops, extra timeouts, force-stop, other-height ops, compaction (none / runner-style / after every "
         "message / random, both policies); every op runs on the real code and on the Lean model; distinct+non-trivial = (op kind, message type, guard tag, decided?, n) PRODUCTION-CONFIG share: in 25–35 % of the cases (and directed ones) the node objects are the ones a real node builds — operator/validator.SetupRunners(validator.Options{…, non-nil MessageValidator}) → attester runner → QBFTController, with the production ProposerF closure, SignatureVerification flag, ssv-spec AttesterValueCheckF, default domain (injected by SetDefaultDomain) and identifier; only Timer / Network / Storage are swapped for the recorders (harness/cmd/qbft/prodcfg.go; consensus values are valid attester ConsensusData).",
    trusted_base=["abstraction function of the harness (harness/cmd/qbft/abs.go): ids interned per case, sigOk/malformed computed by the real functions",
                  "ssv-spec v0.3.7 qbft.Instance from the module cache is the reference of the equality clause",
                  "BLS signatures / SHA-256 abstracted as sigOk and injective ids"],
    assumptions=["the configured value check rejects the empty value (true of every role's value check)",
                 "light node (no reload of instances from storage)"],
    explanation="KNOWN-FINDING lines: the compaction clause is false on the pinned tree; every listed signature has a deterministic witness under corpus/C06 that is replayed "
                "against a never-compacted reference controller on every run.",
)
