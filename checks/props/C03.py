"""C03 — duty signatures are released only over the decided, validated duty data."""
CFG = dict(
    level="proof",
    design_ref="DESIGN.md §7.3",
    level_text="Lean 4 theorems over EVERY runner state and EVERY input (hence all sequences of start-duty events, pre-consensus, consensus and "
               "post-consensus messages, valid/stale/future/replayed/for wrong slot, role or validator, in any order): every KeyManager.SignBeaconObject "
               "call is either (a) a slot-bound pre-consensus object of the duty being started, inside an accepted StartDuty, or (b) an object contained "
               "in the value the controller reports decided for that very message (valid quorum certificate or the instance's own decision, controller "
               "identifier), at the height of the running duty's instance, while the duty is running and its instance object undecided, after the value "
               "decoded and PASSED the duty's value check; partial-signature messages and messages for other validators/roles never sign; consensus "
               "messages for other heights, finished or absent duties, invalid certificates never sign. The clause 'at most once per decided object' is PROVED IN FULL "
               "for the current code (fix c50569811: prevDecided also holds once the duty took a decided value): over every input sequence no (decision "
               "height, object) is signed twice; the pre-fix behaviour is kept as an `Old` definition whose refutation is a regression lemma, and its "
               "witness (instance evicted from the 2-slot container, certificate re-delivered) is replayed on the real runner on every run. All seven runner roles; QBFT controller decided path and its 2-slot instance "
               "container modelled, the instance's internal protocol is an oracle input. The model is tied to the code on every run by regenerated "
               "call-site facts (sign call sites, guard orders, container capacity) and by running model and REAL Validator/runners/controllers on the "
               "same real message traffic, comparing every sign event, broadcast, submission and the runner+controller state after every message.",
    level_note="Trusted: Lean kernel (axioms propext/Classical.choice/Quot.sound only), the go/ast fact extractor, the harness (oracle facts are computed "
               "with the real functions: ConsensusData.Decode, the role's ProposedValueCheckF, ValidateDecided, IsDecidedMsg, real BLS share verification; "
               "'object contained in the value' = independent extraction of the duty objects' signing roots; mocks of beacon node, network, key manager), "
               "SSZ codecs. Containment is abstracted to root ids; the QBFT instance protocol (C01/C02/C06) is an oracle.",
    technique="Lean 4 proof (per-step window theorem for all states, trace lifting by induction, invariant for the at-most-once side condition, global invariant over controller container + duty state for at-most-once, regression refutation of the pre-fix code by a "
              "decided witness) + regenerated call-site facts + differential run against the real Validator with real peer traffic + implementation-side "
              "oracle on the recording key manager",
    lean=["Ssv.Props.C03"],
    engines=[dict(harness="runner", driver="m_runner", case_delim="reset", n_quick=150, n_thorough=3000, thorough_seeds=4, n_search=800, search_seeds=3),
             # validator-level glue (implementation-side oracle only): network-originated messages of every type, incl. SSVEventMsgType
             # ExecuteDuty / Timeout events, through the REAL operator/validator handleRouterMessages loop to a real started Validator; notes/C03.md
             dict(harness="vglue", driver=None, args=["-mode", "router"], case_delim="rcase", n_quick=4, n_thorough=24, thorough_seeds=2,
                  n_search=8, search_seeds=1)],
    rule="all 8 runner flavours (7 roles + blinded proposer), committees of 4 and 7 (real threshold keys); per case a fresh REAL Validator with its 7 real "
         "runners and real QBFT controllers (production container capacity) receives, through Validator.ProcessMessage, REAL traffic captured from honest "
         "runs of all committee members' runners (pre-consensus shares, proposal/prepare/commit, decided, post-consensus shares) in broadcast order with "
         "jitter, drops, replays, own loop-back, plus crafted certificates signed with the peers' real keys: own value, another valid value, value failing "
         "the duty check, undecodable value, bad certificate, too few signers, other heights (past, future, container-evicting bursts), after the duty "
         "finished; one or two consecutive duties with stale/future cross traffic, duplicate and passed duty starts, messages re-addressed to another "
         "validator key / role / identifier, wrong slot, wrong share. A case class is distinct per (runner, op kind with its oracle facts, duty phase, signed?, error?).",
    trusted_base=["oracle facts about consensus values and messages are computed by the harness with the real functions and handed to the model",
                  "the QBFT instance's internal protocol is not modelled here (oracle: 'the instance decides now'); C01/C02/C06 cover it",
                  "mocks: recording key manager (spec test key manager: no slashing database), recording beacon node and network"],
    assumptions=["SSZ/hash containment abstracted to root ids; BLS and SHA-256 as in DESIGN §5",
                 "beacon node data is valid input for the duty; KeyManager.SignBeaconObject does not fail"],
)
