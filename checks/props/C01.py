"""C01 — agreement."""
CFG = dict(
    level="proof",
    design_ref="DESIGN.md §7.1, Appendix E, §8-3",
    level_text="Lean 4 proof, both layers. Layer B (Ssv/Props/C01LayerB.lean): for the executable multi-node system Ssv/Model/Qbft/SystemB.lean — committee 1..n, "
               "n = 3f+1, at most f Byzantine members, one (identifier, height), steps start / deliver ANY message whose verified signed parts listing a correct signer "
               "are backed by an earlier broadcast of that signer (unforgeability; drop, duplication, reordering, selective delivery, equivocation, fabricated "
               "justifications included) / timeout for any round — every rule H0–H7 is an invariant of the reachable states (C01_rule_H0 … H7, by induction over "
               "the executable controller + instance model), hence C01_agreement: any two correct operators that report a decision (decided message returned by "
               "Controller.ProcessMsg, or State.Decided/DecidedValue) report the same value, for all f, start values, schedules, Byzantine behaviours and rounds; "
               "non-vacuity: a 27-step reachable state with a Byzantine round-1 leader, a round change and two decisions. Layer A (Ssv/Props/C01.lean): the rules imply "
               "agreement for any finite committee. The node model is tied to the code by the multi-node differential run (every correct node of every adversarial schedule "
               "of n = 4 and 7 REAL controllers is diffed against the model) and regenerated facts/kernels. Scope of the theorem: light node (no storage reload), NO runner "
               "compaction, one height per system. Implementation-side search with the agreement oracle also runs WITH the runner's real compaction, where it reproduces two "
               "correct operators reporting different values (known finding, same cause as C06). "
               "Ssv/Props/C01Heights.lean lifts the one-height scope: C01_agreement_all_heights for the multi-height system Ssv/Model/Qbft/SystemM.lean (start at any height, "
               "messages and decided messages of any height, the sorted 2-slot instance container with eviction: an evicted instance is never restored and a re-reported "
               "decision is backed by an authentic commit quorum of that height). Unforgeability covers own-identifier signed parts only: parts carrying a FOREIGN identifier "
               "are adversary-controlled (correct operators sign other roles with the same keys) — the adversary class that exposed the genuine cross-role replay defect "
               "repaired in /repo e1612ceed; C01_identifier_regression_old_model_disagrees / _fixed_rejects keep the pre-fix validators as a refuted regression model.",
    level_note="Trusted: Lean kernel (propext/Classical.choice/Quot.sound), Mathlib.Data.Finset.Card / Fintype.Card / Finset.Max / List.Nodup / Tactic.Linarith in proofs, the "
               "extractor and kernel translator, the harness abstraction; BLS and SHA-256 abstracted (unforgeability is the step precondition `authentic`; hash = identity on "
               "value ids). Not covered by the theorem: runner compaction (known finding), full-node reload from storage, interplay of several heights in one controller (C15).",
    technique="Lean 4 proof (invariant over all reachable states of the executable multi-node model ⇒ rules H0–H7 ⇒ agreement) + node model diffed against n real controllers under an adversarial scheduler + agreement oracle",
    lean=["Ssv.Props.C01", "Ssv.Props.C01LayerB", "Ssv.Props.C01Heights"],
    engines=[dict(harness="qbft", driver="m_qbft", args=["-mode", "sim"], case_delim="reset",
                  n_quick=14000, n_thorough=200000, thorough_seeds=4, n_search=60000, search_seeds=3)],
    rule="n=4 and n=7 REAL controllers (real BLS) under a seeded adversarial scheduler: in-order / reordered / dropped / duplicated deliveries, bursts, timeouts, up to f "
         "Byzantine operators (equivocating proposals per recipient incl. justified ones for later rounds, prepares/commits for arbitrary roots to subsets, round-changes "
         "with real prepare justifications, decided certificates aggregated from collected real commits and delivered to operators that already timed out, re-signed "
         "mutations of everything seen), with and without the runner's real compaction (30 % of the compacting schedules use the policy `decided-only`: instance.Compact when an "
         "operator's instance becomes decided and after decided certificates, NOT after round-changes — with the full runner policy a decided instance's round-change container is "
         "emptied after every round-change and it never joins a partial quorum; agreement violations attributed to compaction carry the MECHANISM in their signature, "
         "`:second-proposal-accepted-for-a-round` = the known finding, anything else `:other-history` and is reported); in 60 % of the schedules every correct operator also runs a real controller "
         "for a SECOND duty role (other identifier, same height) whose round-changes/prepares the Byzantine operators embed as justifications (round-change quorums of later "
         "rounds, locks backed only by the other role's prepares) or send directly; the Byzantine operators also justify proposals with round-change sets of OTHER (older / newer / "
         "mixed) rounds, embed round-changes / prepares with INVALID signatures in the name of signers whose genuine message of that round the victim already holds (and the converse), "
         "and push collected commits towards a decision; in 40 % of the schedules a correct operator's own Broadcast fails (2 % of its ops, error AFTER or BEFORE the message left, at "
         "whatever broadcast site the op reaches — modelled by Ssv/Model/Qbft/Faulty.lean, `nf=a|b` on the op line); 10 directed scenarios first (incl. the cross-role replay repaired by "
         "e1612ceed, stale-round justification, forged round-change of a known signer, commit-broadcast fault then unlocked round-change); every correct operator's exact input sequence and "
         "outputs form a `reset` case that is diffed against the Lean model PRODUCTION-CONFIG share: in 25–35 % of the cases (and directed ones) the node objects are the ones a real node builds — operator/validator.SetupRunners(validator.Options{…, non-nil MessageValidator}) → attester runner → QBFTController, with the production ProposerF closure, SignatureVerification flag, ssv-spec AttesterValueCheckF, default domain (injected by SetDefaultDomain) and identifier; only Timer / Network / Storage are swapped for the recorders (harness/cmd/qbft/prodcfg.go; consensus values are valid attester ConsensusData).",
    trusted_base=["harness abstraction + scheduler (harness/cmd/qbft/simsearch.go, directed.go)", "BLS / SHA-256 abstracted"],
    assumptions=["unforgeability of BLS signatures, collision-free hashing", "light node, no runner compaction, light node, no runner compaction (scope of the theorems); several heights per controller are covered by C01Heights"],
    explanation="KNOWN-FINDING lines: agreement fails on the compacting node (directed scenarios with Byzantine leader + compaction, reproduced on every run).",
)
