"""C01 — agreement."""
CFG = dict(
    level="proof",
    design_ref="DESIGN.md §7.1, Appendix E, §8-3",
    level_text="LAYERED, Layer A proved: Lean 4 theorem C01_agreement_of_rules — for any committee of n=3f+1 with at most f Byzantine members, any trace length and "
               "any rounds, eight local rules H0–H7 about the events of correct operators (prepare once per round; a commit needs an authentic prepare quorum or a stale "
               "accepted proposal after a regress; a justified proposal re-proposes the highest prepared value; round-changes reflect the lock; regress and decide need "
               "an authentic commit quorum) imply that any two reported decisions carry the same value; the rules tolerate the round regression by decided messages. "
               "Layer B (each rule as an invariant of the executable node model Ssv/Model/Qbft, controller + instance WITHOUT the runner's compaction) is NOT done yet: "
               "the rules are hypotheses of the theorem. The node model itself is tied to the code by the multi-node differential run (every node of every adversarial "
               "schedule is diffed against the model). Implementation-side search: agreement oracle over real controllers; on the COMPACTING node it finds two correct "
               "operators reporting different values (known finding, same cause as C06).",
    level_note="Partial: Layer B missing (rules H0–H7 are assumed of the node; named in the theorem statement). Trusted: Lean kernel, Mathlib.Data.Finset.Card / Fintype.Card / "
               "Tactic.Linarith in the Layer-A proof, the extractor, the harness abstraction; crypto abstracted.",
    technique="Lean 4 proof (abstract trace rules ⇒ agreement) + executable node model diffed against n real controllers under an adversarial scheduler + agreement oracle",
    lean=["Ssv.Props.C01"],
    engines=[dict(harness="qbft", driver="m_qbft", args=["-mode", "sim"], case_delim="reset",
                  n_quick=14000, n_thorough=200000, thorough_seeds=4, n_search=60000, search_seeds=3)],
    rule="n=4 and n=7 REAL controllers (real BLS) under a seeded adversarial scheduler: in-order / reordered / dropped / duplicated deliveries, bursts, timeouts, up to f "
         "Byzantine operators (equivocating proposals per recipient incl. justified ones for later rounds, prepares/commits for arbitrary roots to subsets, round-changes "
         "with real prepare justifications, decided certificates aggregated from collected real commits and delivered to operators that already timed out, re-signed "
         "mutations of everything seen), with and without the runner's real compaction; 4 directed scenarios first; every correct operator's exact input sequence and "
         "outputs form a `reset` case that is diffed against the Lean model",
    trusted_base=["harness abstraction + scheduler (harness/cmd/qbft/simsearch.go, directed.go)", "BLS / SHA-256 abstracted"],
    assumptions=["Layer B: rules H0–H7 hold of the node without compaction (not yet proved)", "light node"],
    explanation="KNOWN-FINDING lines: agreement fails on the compacting node (directed scenarios with Byzantine leader + compaction, reproduced on every run).",
)
