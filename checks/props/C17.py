"""C17 — round timeouts fire once per armed round, never early, never for stale rounds."""
CFG = dict(
    level="proof",
    design_ref="DESIGN.md §7.17",
    level_text="PARTIAL. Lean 4 theorems over ALL op lists of the round-timer model (arm / expire / cancel / goroutine-exit, arbitrary "
               "spacing, re-arming before expiry, expiries in any order the clock allows): at most one callback per arming (no hypothesis); "
               "every callback is produced by an expiry at or after the deadline of the arming it belongs to (no hypothesis); with strictly "
               "increasing armed rounds every callback belongs to the LATEST arming made before it (re-arming supersedes) and a round is called "
               "back at most once; an arming neither superseded nor reaped is called back by its first expiry at/after the deadline (at once if the deadline had passed at arming); every callback goes to the handler of the LAST OnTimeout registration (re-registration replaces); deadline = slot start + role base (slot/3 or slot/3*2) + cumulative per-round allowance, strictly monotone "
               "in the round, for the four slot-timed roles; Controller.OnTimeout model: a timeout for an unknown height, a lower round or a "
               "decided instance (also: undecodable data, stopped instance, duplicate delivery) changes nothing, broadcasts nothing, re-arms "
               "nothing; over ALL controller histories (start / decided for past, current, future heights / timeouts, any container capacity) a timeout "
               "for any height other than the one most recently started changes nothing (invariant: every other stored instance is stopped or decided). Refuted and kept visible: the deadline formula for EVERY role (the default: branch of RoundTimeout - proposer - is "
               "arming time + one round's allowance), and the 'only latest' / 'once per round' clauses WITHOUT the increasing-rounds "
               "hypothesis (the real timer never stops earlier timers, it only compares round values at expiry). "
               "'Never early' is an assumption of the model (expire is enabled only at now >= deadline: Go timers do not fire early); the "
               "harness measures it on the real timer on every run. Wiring: engine `vglue -mode timers` compares the timer each role's controller gets from the production SetupRunners with a timer built by roundtimer.New for that role (oracle only).",
    level_note="Trusted: Lean kernel (axioms propext/Classical.choice/Quot.sound only), the go/ast fact extractor, the harness (mock BeaconNetwork, "
               "scripts in real time at millisecond scale through the verif-tagged VerifSetTimeoutOptions setter), the Go runtime (time.Timer never "
               "early, atomic int64, context cancellation), atomicity of the round check and the callback call in waitForRound. "
               "The instance container / StartNewInstance / UponDecided parts of the controller model are validated only by the differential run.",
    technique="Lean 4 proof (induction over op lists, invariants on pending expiries / armed round / ghost arming log) + regenerated constants, "
              "call-site facts and source fingerprints of RoundTimeout and OnTimeout + differential run of the REAL RoundTimer in real time and "
              "of the real controller.Controller, with a model-independent property oracle",
    lean=["Ssv.Props.C17"],
    engines=[dict(harness="timer", driver="m_timer", case_delim="reset",
                  n_quick=160, n_thorough=1500, thorough_seeds=3, n_search=160, search_seeds=3),
             # validator-level glue (implementation-side oracle only, no model driver): real timeout EVENT messages for evicted / never-run /
             # decided heights and lower rounds through the real Validator.ProcessMessage -> handleEventMessage; see notes/C17_glue.md
             dict(harness="runner", driver=None, args=["-mode", "c17"], case_delim="reset", n_quick=80, n_thorough=2000, thorough_seeds=2,
                  n_search=300, search_seeds=2),
             # wiring (implementation-side oracle only): the timer each role's controller gets from the production SetupRunners gives that role's deadline
             # (compared with a timer built by the real roundtimer.New for the role); seeded change W-m04 (one shared attester timer for all roles)
             dict(harness="vglue", driver=None, args=["-mode", "timers"], case_delim="tcase", n_quick=2, n_thorough=4, thorough_seeds=1, n_search=2, search_seeds=1)],
    rule="per seed: n timer cases (1-5 armings, rounds strictly increasing with jumps, re-arm before expiry / after expiry / random gap, deadlines already "
         "passed at arming (25% late duty starts: 0..several rounds overdue, then left alone >= 400 ms for the liveness oracle), parent-context cancel with later armings, 18% at the points the quantifier excludes: same round twice, round re-armed after being "
         "superseded, new height on the shared timer), each executed at least twice on the real RoundTimer and re-run in isolation if executions differ or "
         "measured scheduling latency > 30 ms (scripts keep 60 ms between ops and expiry instants); 6n duration-arithmetic ops of the real RoundTimeout, 3n deadline ops on the REAL beacon.Network (4 spec networks x local-testnet flag, "
         "handed on through GetNetwork as the operator does; slot start checked against the configured object's own genesis), handler "
         "re-registration / nil handler in ~45% of timer cases (production "
         "constants and random ones, rounds up to 10^6); n controller cases (container capacity 1/2/3/4/8/1024, 8-50 ops, timeouts aimed at every stored instance: start / decided / timeout current, lower, future, other height, decided, "
         "stopped, duplicate, undecodable, chains up to the cutoff round). distinct = (role class, excluded point, op styles, #callbacks) resp. "
         "(op kind, staleness class, error) keys",
    trusted_base=["Go runtime: time.Timer never fires early; goroutine scheduling is an interleaving of the modelled steps (measured, not proved)",
                  "mock BeaconNetwork (GetSlotStartTime = slot 0 + slot * duration, as beacon.Network computes it)",
                  "ssv-spec testingutils (keys, signer, recording network) and roundtimer.TestQBFTTimer used to drive the real controller"],
    assumptions=["a time.Timer never fires before its duration has elapsed",
                 "the comparison t.Round() == round and the call done(round) in waitForRound are treated as one atomic step",
                 "after cancellation of the parent context an arming whose deadline already passed may or may not call back (select race); "
                 "the theorems cover both outcomes, the differential scripts avoid that point"],
)
