"""C04 — an operator never signs a slashable attestation or block, across restarts."""
CFG = dict(
    level="proof",
    design_ref="DESIGN.md §7.4",
    level_text="Lean 4 theorems over ALL operation histories (List Op, any length and order) of the slashing-protection state machine of one share "
               "(add / remove share incl. storage faults in the middle, reactivation bump, sign attestation, sign block, clock advance, restart): "
               "if every SIGNED attestation has source < target <= epoch(clock at signing) and every SIGNED block has slot <= clock, the released signatures "
               "contain no double vote, no surrounding/surrounded pair and no two blocks for one slot (invariant proved by induction on the history); "
               "a missing record or account always refuses; a signature is released only after check and record update; restart is the identity on durable state. "
               "Histories may split BumpSlashingProtection into its separate storage steps and interleave them with anything: since /repo commit 23d9c6c97 the bump holds the "
               "wallet write lock, requests issued meanwhile wait for it (modelled as delayed requests) and only the clock can advance; the theorem needs no freshness hypothesis. "
               "The pre-fix semantics is kept in Lean with its double-vote witness (C04_old_split_bump_refuted) and as a regression corpus case. Both hypotheses on signed requests are shown "
               "necessary by Lean witnesses that the real signer reproduces (excluded points, reported as observations). The model is tied to the code on every run by "
               "regenerated constants / call-site facts / fingerprints and by running model and the real ethKeyManagerSigner on a real on-disk Badger DB on the same histories.",
    level_note="Trusted: Lean kernel (axioms propext/Classical.choice/Quot.sound only), the go/ast fact extractor, the harness (clock-controlling BeaconNetwork wrapper, "
               "verif-tagged storage decorator that pauses/fails the signer's own storage calls, canonicalisation), Badger durability at commit, Go mutexes. "
               "The per-account lock of eth2-key-manager makes a sign request atomic in the model; the library's lock()/unlock() pair deadlocks on overlapping requests "
               "for one account (observed by the thorough tier, reported as an observation: liveness, not a released signature).",
    technique="Lean 4 proof (inductive invariant over op histories) + regenerated constants/call-site facts/fingerprints + differential run against the real "
              "ethKeyManagerSigner on a real Badger DB (restart = close/reopen) + implementation-side oracle (pairwise slashability of all released signatures per share; released => record persisted, read back after reopen; restart changes no record) + probe realclock: the signer on the real wall clock and the real beacon.Network across a slot boundary (oracle only)",
    lean=["Ssv.Props.C04"],
    engines=[dict(harness="ekm", driver="m_ekm", n_quick=100, n_thorough=1200, thorough_seeds=3, n_search=600, search_seeds=4, case_delim="reset")],
    rule="seeded histories (18-60 ops, 1-2 shares with fresh BLS keys per history, all on one on-disk Badger DB) over {add, addfail, remove, removefail, bump, "
         "bbegin/bread/bwrite (real BumpSlashingProtection paused at its storage calls), satt, sblk (full/blinded), sattf/sblkf (the request's record write fails: storage error, or the real Badger DB is closed just before the write and then reopened), tick, restart}; every 6th history is a multi-share block (3-5 shares with different records; share 0 is asked 400-700 times for objects its own record refuses while one goroutine per other share hammers the read-only pre-checks; requests under a timeout); sources/targets/slots drawn at, "
         "just below and around the clock and the stored record; 'malformed' histories add targets/slots above the clock, source >= target, far-future values; "
         "while a bump is in flight (it holds the wallet lock) the clock advances and ONE lock-taking request is issued in a goroutine: whether it has to wait is probed on the real wallet lock (TryLock/TryRLock); a waiting request must complete after the bump has finished (observed via resume), a non-waiting one is executed at once; every non-waiting call runs under a 6 s per-op watchdog (outcome `hang`, world abandoned, run stops after 8 hangs); thorough tier adds concurrent sign requests for one share under a timeout. Every op line is run on "
         "the real signer and on the Lean model (outcome + read-back of both records and the account are diffed). A case is distinct+non-trivial per "
         "(op kind, relation of the request to the stored record, well-formedness, outcome, pre-check result) key computed by the harness.",
    trusted_base=["in the model-diffed histories the real beacon.Network clock functions are replaced by the harness' clock wrapper; the REAL clock (real beacon.Network of networkconfig.TestNetwork, time.Now) is covered by the oracle-only probe `realclock` (one real-time sequence per run across a slot boundary: add, sign, remove, add, sign again — two blocks for one slot must not both be signed) (campaign V, V-m02)",
                  "clock mock: BeaconNetwork wrapper overriding EstimatedCurrentSlot/EstimatedCurrentEpoch of networkconfig.TestNetwork's beacon network",
                  "harness/inpkg/ekm/zz_verif_ekm.go: decorator around the signer's Storage field (pause / fail at entry of the 6 slashing-record calls, delegates to the real storage)",
                  "far-future window of eth2-key-manager depends on the wall clock: generated values are either far below (checked valid with the real function at start-up) or 2^62 (checked invalid)",
                  "per-account lock of eth2-key-manager (sign = atomic check-then-update) and Badger durability"],
    assumptions=["signed attestations have source < target (ssv-spec AttesterValueCheckF rejects source >= target before any sign request) and target <= current epoch; signed blocks have slot <= current slot (the property's quantifier)",
                 "slot + gap does not overflow uint64",
                 "a request that waits for the wallet lock is modelled as executing when the in-flight bump finishes (one waiting request at a time in the differential run)"],
)
