"""Shared machinery of /verif/bin/check.

Verdict protocol (DESIGN.md §4):
  proof obligations (lake build + axiom audit + regenerated facts)  ─┐
  correspondence (model driver vs real code on the same op lines)   ─┼─ any break ─► search the
  implementation-side property oracle                                ─┘   implementation for a failing input
      found  -> VIOLATION property=<id> replay=<file with the concrete op lines>
      none   -> VIOLATION property=<id> replay=<file naming what no longer checks> no-failing-input-found
  oracle violations whose cause signature is listed in known_findings.json print KNOWN-FINDING and do not fail.
"""
import json, os, re, subprocess, sys, time, hashlib, shutil

V = os.path.dirname(os.path.dirname(os.path.abspath(__file__)))
REPO = os.environ.get("VERIF_REPO", "/repo")
BUILD = os.path.join(V, ".build")
LEAN = os.path.join(V, "lean")
GOENV = dict(os.environ, GOFLAGS="-mod=mod", GOPROXY="off", GOSUMDB="off", GOTOOLCHAIN="local",
             CGO_LDFLAGS=os.environ.get("CGO_LDFLAGS", ""))
CUR_PROP = "x"   # set by bin/check
ALLOWED_AXIOMS = {"propext", "Classical.choice", "Quot.sound"}
BANNED = re.compile(r"\b(sorry|admit|native_decide|bv_decide|implemented_by|unsafe)\b|^\s*axiom\s|maxHeartbeats\s+0\b", re.M)


def sh(cmd, cwd=None, env=None, timeout=None, stdin=None):
    """runs a command; a timeout is an outcome (rc 124, like timeout(1)), never an exception: a hanging harness or
    build must end in a verdict, not in a crashed check"""
    try:
        p = subprocess.run(cmd, cwd=cwd, env=env, timeout=timeout, stdin=stdin, stdout=subprocess.PIPE,
                           stderr=subprocess.STDOUT, text=True, errors="replace", start_new_session=True)
        return p.returncode, p.stdout
    except subprocess.TimeoutExpired as e:
        out = e.stdout if isinstance(e.stdout, str) else (e.stdout or b"").decode("utf-8", "replace")
        return 124, out + f"\n[timed out after {timeout}s]"


def log(*a):
    print("[check]", *a, flush=True)


# ---------------------------------------------------------------- regenerated facts

def regen():
    """rebuild the extractor and regenerate lean/Ssv/Gen from the CURRENT /repo tree"""
    os.makedirs(BUILD, exist_ok=True)
    rc, out = sh(["go", "build", "-o", os.path.join(BUILD, "ssvextract"), "."], cwd=os.path.join(V, "extract"), env=GOENV)
    if rc != 0:
        return False, "extractor build failed:\n" + out
    rc, out = sh([os.path.join(BUILD, "ssvextract"), os.path.join(V, "extract", "spec"), REPO,
                  os.path.join(LEAN, "Ssv", "Gen"), os.path.join(BUILD, "src_dump.txt")], env=GOENV)
    if rc != 0:
        return False, "fact extraction failed (a named function/constant is gone?):\n" + out
    return True, ""


# ---------------------------------------------------------------- Lean side

def strip_comments(src):
    src = re.sub(r"/-.*?-/", "", src, flags=re.S)
    return re.sub(r"--.*", "", src)


def theorems_of(path):
    """fully qualified names of the theorems declared in a Props file"""
    src = strip_comments(open(path).read())
    ns, names = [], []
    for line in src.splitlines():
        m = re.match(r"\s*namespace\s+(\S+)", line)
        if m:
            ns.append(m.group(1)); continue
        m = re.match(r"\s*end\s+(\S+)", line)
        if m and ns and ns[-1] == m.group(1):
            ns.pop(); continue
        if re.match(r"\s*private\s+theorem\s", line):
            continue  # private helper: not nameable from outside; its axioms show up in the audit of every public theorem using it
        m = re.match(r"\s*(?:protected\s+)?theorem\s+([^\s:({\[]+)", line)
        if m:
            names.append(".".join(ns + [m.group(1)]))
    return names


def lean_sources_of(targets):
    files = []
    for t in targets:
        files.append(os.path.join(LEAN, t.replace(".", "/") + ".lean"))
    return files


def transitive_sources(module, seen=None):
    """project-local modules imported (transitively) by `module`"""
    seen = seen if seen is not None else {}
    path = os.path.join(LEAN, module.replace(".", "/") + ".lean")
    if module in seen or not os.path.exists(path):
        return seen
    seen[module] = path
    for m in re.findall(r"^\s*import\s+(\S+)", open(path).read(), flags=re.M):
        if m.startswith("Ssv.") or m.startswith("Driver."):
            transitive_sources(m, seen)
    return seen


def lean_check(prop_modules, want_leanchecker=False):
    """build the property modules, audit axioms of every theorem in them, grep for banned constructs.
    returns dict(ok, obligations, discharged, broken=[names or messages], log)"""
    res = dict(ok=True, obligations=0, discharged=0, broken=[], log="", axioms={})
    rc, out = sh(["lake", "build"] + prop_modules, cwd=LEAN, timeout=3000)
    res["log"] = out[-6000:]
    built = rc == 0
    if not built:
        res["ok"] = False
        errs = re.findall(r"error: (\S+\.lean):(\d+):\d+: (.*)", out)
        for f, ln, msg in errs[:20]:
            res["broken"].append(f"{f}:{ln}: {msg[:200]}")
        if not errs:
            res["broken"].append("lake build failed: " + out[-400:])
    thms = []
    for m in prop_modules:
        p = os.path.join(LEAN, m.replace(".", "/") + ".lean")
        thms += [(m, t) for t in theorems_of(p)]
    res["obligations"] = len(thms)
    # banned constructs anywhere in the transitive project-local sources
    srcs = {}
    for m in prop_modules:
        transitive_sources(m, srcs)
    for mod, p in srcs.items():
        if "/Gen/" in p:
            continue
        hit = BANNED.search(strip_comments(open(p).read()))
        if hit:
            res["ok"] = False
            res["broken"].append(f"banned construct {hit.group(0).strip()!r} in {mod}")
    if not built:
        return res
    audit = os.path.join(BUILD, "audit_" + "_".join(prop_modules).replace(".", "_") + ".lean")
    with open(audit, "w") as f:
        for m in prop_modules:
            f.write(f"import {m}\n")
        for _, t in thms:
            f.write(f"#print axioms {t}\n")
    rc, out = sh(["lake", "env", "lean", audit], cwd=LEAN, timeout=1200)
    cur = None
    text = re.sub(r"\n[ \t]+", " ", out)  # #print axioms wraps long lines with an indented continuation
    for line in text.splitlines():
        m = re.match(r"'([^']+)' depends on axioms: \[(.*)\]", line)
        if m:
            res["axioms"][m.group(1)] = [a.strip() for a in m.group(2).split(",")]
            continue
        m = re.match(r"'([^']+)' does not depend on any axioms", line)
        if m:
            res["axioms"][m.group(1)] = []
    for _, t in thms:
        ax = res["axioms"].get(t)
        if ax is None:
            res["ok"] = False
            res["broken"].append(f"audit: no axiom report for {t}")
        elif set(ax) - ALLOWED_AXIOMS:
            res["ok"] = False
            res["broken"].append(f"audit: {t} depends on {sorted(set(ax) - ALLOWED_AXIOMS)}")
        else:
            res["discharged"] += 1
    if want_leanchecker and res["ok"]:
        for m in prop_modules:
            rc, out = sh(["lake", "env", "leanchecker", m], cwd=LEAN, timeout=3000)
            if rc != 0:
                res["ok"] = False
                res["broken"].append(f"leanchecker rejected {m}: {out[-300:]}")
    return res


def build_driver(exe):
    rc, out = sh(["lake", "build", exe], cwd=LEAN, timeout=3000)
    return rc == 0, out[-3000:]


# ---------------------------------------------------------------- Go side

def overlay():
    ov = os.path.join(BUILD, "overlay.json")
    rc, out = sh([os.path.join(V, "bin", "mkoverlay"), ov], env=GOENV)
    if rc != 0:
        raise RuntimeError(out)
    return ov


def build_harness(name, race=False):
    """builds /verif/harness/cmd/<name> INSIDE the repo's module (via overlay) from /repo's current tree"""
    ov = overlay()
    binp = os.path.join(BUILD, "h_" + name + ("_race" if race else ""))
    tmpb = binp + f".tmp{os.getpid()}"   # build to a private name, then rename: concurrent checks share the final path
    if os.path.exists(binp):
        # seed the private name with the current binary: `go build` skips the (slow) link step when the target is up to date
        try:
            shutil.copy2(binp, tmpb)
        except OSError:
            pass
    cmd = ["go", "build", "-tags", "verif", "-overlay", ov, "-ldflags=-checklinkname=0", "-o", tmpb]
    if race:
        cmd.append("-race")
    cmd.append("./zz_verif/cmd/" + name)
    rc, out = sh(cmd, cwd=REPO, env=GOENV, timeout=3000)
    out = "\n".join(l for l in out.splitlines() if "/usr/bin/ld:" not in l and not l.startswith("# "))
    if rc == 0:
        os.replace(tmpb, binp)
    elif os.path.exists(tmpb):
        os.remove(tmpb)
    return (binp if rc == 0 else None), out


def run_engine(eng, seed, n, tier, tag, replay=None, extra=None, timeout=3000):
    """runs harness + model driver; a run whose harness PROCESS died (crash, not a reported violation) is repeated once:
    a deterministic crash recurs and is reported, a one-off (scheduler-dependent harness race under load) is recorded
    in the result as `retried_after` and does not raise an alarm by itself."""
    # time limits: a run that takes many times its usual time hangs (the usual quick run takes well under two minutes)
    timeout = min(timeout, int(eng.get("timeout_quick", 900)) if tier == "quick" and tag != "search" else int(eng.get("timeout_thorough", 3000)))
    r = _run_engine(eng, seed, n, tier, tag, replay, extra, timeout)
    if r["error"] and r["error"].startswith("harness ") and " exited 124" not in r["error"]:
        first = r["error"]
        log(f"harness {eng['harness']} died in run {tag}; repeating the run once")
        r = _run_engine(eng, seed, n, tier, tag, replay, extra, timeout)
        if not r["error"]:
            r["retried_after"] = first[-400:]
    return r


def _run_engine(eng, seed, n, tier, tag, replay=None, extra=None, timeout=3000):
    """runs harness + model driver; returns dict(stats, diffs=[(lineno, op, impl, model)], ops_path, error)"""
    hb = os.path.join(BUILD, "h_" + eng["harness"])
    base = os.path.join(BUILD, f"{eng['harness']}_{CUR_PROP}_{tag}")  # per property: engines shared by several properties must not clobber each other
    ops, impl, model, stats = base + ".ops", base + ".impl", base + ".model", base + ".stats"
    for p in (ops, impl, model, stats):
        if os.path.exists(p):
            os.remove(p)
    cmd = [hb, "-seed", str(seed), "-n", str(n), "-tier", tier, "-ops", ops, "-out", impl, "-stats", stats]
    if replay:
        cmd += ["-replay", replay]
    cmd += list(extra or eng.get("args", []))
    env = dict(GOENV, GOMEMLIMIT="8GiB")
    rc, out = sh(cmd, env=env, timeout=timeout)
    r = dict(stats={}, diffs=[], ops_path=ops, error=None, harness_out=out[-2000:])
    if rc != 0 or not os.path.exists(stats):
        r["error"] = f"harness {eng['harness']} exited {rc}: {out[-1500:]}"
        return r
    r["stats"] = json.load(open(stats))
    if eng.get("driver"):
        drv = os.path.join(LEAN, ".lake", "build", "bin", eng["driver"])
        try:
            with open(ops) as fin, open(model, "w") as fout:
                p = subprocess.run([drv], stdin=fin, stdout=fout, stderr=subprocess.PIPE, text=True, timeout=timeout)
        except subprocess.TimeoutExpired:
            r["error"] = f"model driver {eng['driver']} timed out after {timeout}s"
            return r
        if p.returncode != 0:
            r["error"] = f"model driver {eng['driver']} exited {p.returncode}: {p.stderr[-500:]}"
            return r
        with open(ops) as fo, open(impl) as fi, open(model) as fm:
            lo, li, lm = fo.read().splitlines(), fi.read().splitlines(), fm.read().splitlines()
        if len(li) != len(lm):
            r["diffs"].append((min(len(li), len(lm)), "<length>", str(len(li)), str(len(lm))))
        for k, (a, b) in enumerate(zip(li, lm)):
            if a != b:
                r["diffs"].append((k, lo[k] if k < len(lo) else "?", a, b))
                if len(r["diffs"]) > 30:
                    break
        r["ops_lines"] = lo
    return r


def case_of(ops_lines, k, delim):
    """the self-contained case (from the last delimiter line at or before k up to k)"""
    if not delim:
        return [ops_lines[k]]
    s = k
    while s > 0 and not ops_lines[s].startswith(delim):
        s -= 1
    return ops_lines[s:k + 1]


class build_lock:
    """serialises the build phase (fact regeneration, lake build, audit, harness and driver builds) between checks
    that run at the same time: they share lean/.lake and .build."""
    def __enter__(self):
        import fcntl
        os.makedirs(BUILD, exist_ok=True)
        self.f = open(os.path.join(BUILD, "build.lock"), "w")
        fcntl.flock(self.f, fcntl.LOCK_EX)
        return self

    def __exit__(self, *a):
        import fcntl
        fcntl.flock(self.f, fcntl.LOCK_UN)
        self.f.close()


# ---------------------------------------------------------------- known findings

def known_findings():
    """all entries of /verif/known_findings/*.json (committed; never written at run time)"""
    import glob
    out = []
    for p in sorted(glob.glob(os.path.join(V, "known_findings", "*.json"))):
        out += json.load(open(p)).get("findings", [])
    return out


def classify(prop, sig):
    """returns the known-finding entry whose signature matches, else None ('fixed' entries suppress nothing)"""
    for f in known_findings():
        if f.get("property") == prop and f.get("status") == "known" and f.get("sig") == sig:
            return f
    return None


# ---------------------------------------------------------------- evidence

def write_evidence(prop, ev):
    os.makedirs(os.path.join(V, "evidence"), exist_ok=True)
    p = os.path.join(V, "evidence", prop + ".json")
    tmp = p + ".tmp"
    json.dump(ev, open(tmp, "w"), indent=1)
    os.replace(tmp, p)


def write_replay(prop, name, lines, header=None):
    d = os.path.join(V, "evidence", "replay")
    os.makedirs(d, exist_ok=True)
    safe = re.sub(r"[^A-Za-z0-9_.-]", "_", name)[:80]
    p = os.path.join(d, f"{prop}_{safe}.txt")
    with open(p, "w") as f:
        for h in (header or []):
            f.write("# " + h + "\n")
        for l in lines:
            f.write(l + "\n")
    return p
