"""Per-property configuration of bin/check: one file checks/props/Cxx.py per property, each defining CFG."""
import glob, importlib.util, os

CRYPTO = "cryptography (BLS, RSA, SHA-256) is abstracted: signature validity is a Boolean computed by the real verifier in the harness; roots are interned ids"

PROPS = {}
for _p in sorted(glob.glob(os.path.join(os.path.dirname(os.path.abspath(__file__)), "props", "C*.py"))):
    _n = os.path.basename(_p)[:-3]
    _s = importlib.util.spec_from_file_location("checks.props." + _n, _p)
    _m = importlib.util.module_from_spec(_s)
    try:
        _s.loader.exec_module(_m)
        PROPS[_n] = _m.CFG
    except Exception as _e:  # one broken props file must not take the other properties' checks down
        import sys as _sys
        print(f"[registry] WARNING: {_p} does not load: {_e}", file=_sys.stderr)
